#!/usr/bin/env python3
"""Run the repository's pinned test suite on a scratch clone of a tree and compare with BASELINE.json.
usage: baseline.py [REPO_DIR]   (default /repo; the clone gets the working-tree state incl. uncommitted edits)
exit 0 iff every test of the baseline's stable set passes."""
import json, os, shutil, subprocess, sys, tempfile
repo = os.path.abspath(sys.argv[1] if len(sys.argv) > 1 else '/repo')
base = json.load(open('/root/.vp/BASELINE.json'))
stable = set(base['stable_pass'])
tmp = tempfile.mkdtemp(prefix='verif-baseline.', dir='/var/tmp')
try:
    clone = os.path.join(tmp, 'r')
    subprocess.run(['git', 'clone', '-q', repo, clone], check=True)
    # top up with the working tree (tracked modifications and untracked files)
    subprocess.run('cd %s && git ls-files -m -o --exclude-standard -z | xargs -0 -r -I{} cp --parents -P {} %s/' % (repo, clone), shell=True, check=True)
    dele = subprocess.run(['git', '-C', repo, 'ls-files', '-d'], capture_output=True, text=True).stdout.split('\n')
    for d in dele:
        if d and os.path.exists(os.path.join(clone, d)): os.unlink(os.path.join(clone, d))
    env = dict(os.environ, GOFLAGS='-mod=mod', GOPROXY='off', GOSUMDB='off', GOTOOLCHAIN='local', GOCACHE='/verif/.cache/go')
    r = subprocess.run(['go', 'test', '-p', '1', '-json', '-vet=off', '-count=1', '-timeout', '25m', './...'], cwd=clone, env=env, capture_output=True, text=True)
    res = {}
    for line in r.stdout.split('\n'):
        try: j = json.loads(line)
        except Exception: continue
        if j.get('Test') and j.get('Action') in ('pass', 'fail', 'skip'):
            res['%s::%s' % (j['Package'], j['Test'])] = j['Action']
    missing = sorted(t for t in stable if res.get(t) != 'pass')
    print('tests run: %d, stable baseline: %d, stable not passing: %d' % (len(res), len(stable), len(missing)))
    for m in missing[:30]: print('  NOT PASSING:', m, res.get(m))
    if r.returncode and not missing:
        fails = sorted(t for t, a in res.items() if a == 'fail')
        print('  (failing outside the stable set: %s)' % fails[:10])
        if not res: print(r.stdout[-2000:], r.stderr[-2000:])
    sys.exit(1 if missing else 0)
finally:
    shutil.rmtree(tmp, ignore_errors=True)
