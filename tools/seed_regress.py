#!/usr/bin/env python3
"""Re-runs every stored seeded change against the check of the property it breaks (quick tier) and reports the ones
that are NOT caught.  Works on a scratch clone of /repo (VERIF_REPO) with VERIF_NO_EVIDENCE=1, so neither /repo nor
the committed evidence is touched and other checks can run meanwhile; the clone is removed at the end.
usage: seed_regress.py [-j N] [name-substring ...]"""
import json, os, subprocess, sys, shutil, tempfile
from concurrent.futures import ThreadPoolExecutor
root = '/verif/seeded'
args = sys.argv[1:]
J = 2
if '-j' in args:
    i = args.index('-j'); J = int(args[i + 1]); del args[i:i + 2]
todo = []
for d in sorted(os.listdir(root)):
    m = os.path.join(root, d, 'meta.json')
    if not os.path.exists(m) or (args and not any(a in d for a in args)):
        continue
    meta = json.load(open(m))
    if str(meta.get('status', '')).startswith('neutralised'):
        print('%-52s %-12s %s' % (d, '', 'neutralised (see meta.json)'), flush=True)
        continue
    prop = meta['breaks_property']
    patches = [p for p in sorted(os.listdir(os.path.join(root, d))) if p.startswith('patch') and p.endswith('.diff')]
    if len(patches) > 1:
        patches = [p for p in patches if p != 'patch.diff']
    todo += [(d, p, prop) for p in patches]
base = tempfile.mkdtemp(prefix='seedreg.', dir='/var/tmp')


def one(a):
    i, (d, p, prop) = a
    clone = os.path.join(base, 'r%d' % i)
    subprocess.run(['git', 'clone', '-q', '/repo', clone], check=True)
    try:
        ap = subprocess.run(['git', '-C', clone, 'apply', os.path.join(root, d, p)], capture_output=True, text=True)
        if ap.returncode != 0:
            return d, p, False, 'patch does not apply: ' + ap.stderr.strip()[:120]
        r = subprocess.run(['./check', prop, '--tier', 'quick'], cwd='/verif', capture_output=True, text=True,
                           env=dict(os.environ, VERIF_REPO=clone, VERIF_NO_EVIDENCE='1'))
        v = [l for l in r.stdout.split('\n') if l.startswith('VIOLATION')]
        ok = r.returncode == 1 and bool(v)
        return d, p, ok, '' if ok else 'exit=%d %s' % (r.returncode, (r.stdout + r.stderr).strip().split('\n')[-1][:160])
    finally:
        shutil.rmtree(clone, ignore_errors=True)


missed = []
try:
    with ThreadPoolExecutor(J) as pool:
        for d, p, ok, why in pool.map(one, enumerate(todo)):
            print('%-52s %-12s %s' % (d, p, 'caught' if ok else 'MISSED  ' + why), flush=True)
            if not ok:
                missed.append((d, p))
finally:
    shutil.rmtree(base, ignore_errors=True)
print('seeds: %d, missed %d' % (len(todo), len(missed)))
sys.exit(1 if missed else 0)
