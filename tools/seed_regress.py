#!/usr/bin/env python3
"""Re-runs every stored seeded change against the check of the property it breaks (quick tier) and reports the ones
that are NOT caught. Applies each patch to /repo and always reverts (see try_seed.py)."""
import json, os, subprocess, sys
root = '/verif/seeded'
missed = []
for d in sorted(os.listdir(root)):
    m = os.path.join(root, d, 'meta.json')
    if not os.path.exists(m):
        continue
    prop = json.load(open(m))['breaks_property']
    patches = [p for p in sorted(os.listdir(os.path.join(root, d))) if p.startswith('patch') and p.endswith('.diff')]
    if len(patches) > 1:
        patches = [p for p in patches if p != 'patch.diff']
    for p in patches:
        r = subprocess.run([sys.executable, '/verif/tools/try_seed.py', os.path.join(root, d, p), prop], capture_output=True, text=True)
        ok = r.returncode == 0
        print('%-48s %-12s %s' % (d, p, 'caught' if ok else 'MISSED  ' + r.stdout.strip().split('\n')[-1][:160]), flush=True)
        if not ok:
            missed.append((d, p))
print('seeds: missed %d' % len(missed))
sys.exit(1 if missed else 0)
