#!/usr/bin/env python3
"""Prints the 'numbers' table of DESIGN.md section 9 from evidence/*.json and KNOWN_FINDINGS."""
import json, os, re
root = os.path.dirname(os.path.dirname(os.path.abspath(__file__)))
kf = open(os.path.join(root, 'KNOWN_FINDINGS')).read().split('\n')
print('| id | tier | states | transitions | `fixed:` entries | open findings |\n|---|---|---|---|---|---|')
for i in range(1, 20):
    pid = 'C%02d' % i
    e = json.load(open(os.path.join(root, 'evidence', pid + '.json')))
    fixed = sum(1 for l in kf if l.startswith('fixed: property=%s ' % pid))
    fnd = sum(1 for l in kf if l.startswith('finding: ') and json.loads(l[9:])['property'] == pid)
    print('| %s | %s | %s | %s | %d | %d |' % (pid, e['tier'], e['coverage'].get('states'), e['coverage'].get('transitions'), fixed, fnd))
