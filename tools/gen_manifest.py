#!/usr/bin/env python3
"""Writes /verif/MANIFEST.json from the table below and validates it against the schema."""
import json, os, sys
V = os.path.dirname(os.path.dirname(os.path.abspath(__file__)))
MC = 'model_checking'
CHECKS = {
 # id: (engine, technique, level text, level note, design ref)
 'C17': ('cfgx', 'exhaustive enumeration of (source rule x full-policy configuration) on the real prebuild binary, bounded by the shipped tree and the 90 --full configurations',
         'Every source rule with an unconfined fallback is located in every --full build of the real binary and its built exec mode is inspected; the matching normal build is the control. The domain is finite and fully enumerated in the thorough tier (90 configurations x 335 rules).',
         'harness tokenizer (engine/scan.py) reads the rules; builds under the all-default map schedule', 'DESIGN.md §4 C17'),
 'C05': ('cfgx', 'exhaustive enumeration of every block header of every built profile over all (none, complain, enforce) build triples of the real prebuild binary, plus every generated header layout of a small alphabet through the real builders; independent block scanner as oracle',
         'All 60 (distribution, ABI, version, full) triples of builds are produced by the real binary in the thorough tier and every block header is compared between modes; 5580 generated header layouts (main flags x attachment x 0-2 sub-profiles x 0-1 hat) go through the real Complain/Enforce builders.',
         'block scanner of engine/scan.py; flags compared as sets, remaining header tokens compared token by token', 'DESIGN.md §4 C05'),
 'C01': ('cfgx', 'explicit enumeration of all build configurations of the real prebuild binary x every output profile, each parsed (thorough: also compiled) by the reference apparmor_parser',
         'All 180 configurations are built by the real binary in the thorough tier and every profile of every tree is read by apparmor_parser 3.0.8 over an overlay of the upstream policy directory; quick covers a pairwise covering array of the 5 factors plus the Makefile entry points.',
         'apparmor_parser 3.0.8 as reference; stand-ins for ABI 4 / version 4.1 as stated in DESIGN.md §2', 'DESIGN.md §4 C01'),
 'C02': ('cfgx+mapx', 'deviation-bounded DFS over owned Go map iteration starts (runtime overlay) on whole builds; exhaustive build-directory histories up to depth 3; exhaustive in-process operation sequences up to length 3 plus state-keyed BFS to depth 6, all on the real prebuild code',
         'Every (bucket, offset) start the runtime can pick at every map range of repo code is enumerated one deviation at a time (two inside package directive); every prior state of .build from a stated alphabet; every sequence of directive hosts of length <= 3 in one process, each step compared with the fresh-process text.',
         'instrumented runtime (fixed hash keys per VERIF_MAPX_SEED, owned iteration start); plain and instrumented binaries are compared on probe configurations', 'DESIGN.md §4 C02'),
 'C04': ('cfgx', 'explicit enumeration of (configuration x prior build-directory state) with the real prepare stage (prepare-only mode of the instrumented binary), compared with an independently written reference model of the expected listing and content',
         'The state after cli.Prepare() is compared entry by entry and byte by byte with a reference model computed from the source tree and the manifests, for all 60 (dist, ABI, version, full) configurations and the prior states clean / junk / after(p).',
         'reference model in engine/props/c04.py written from the documentation', 'DESIGN.md §4 C04'),
 'C08': ('cfgx+scan', 'explicit enumeration of every reference of every built file in every (dist, ABI, version, full) build tree of the real binary, resolved against the definition set of the same tree',
         'All 60 trees in the thorough tier; the reference alphabet (exec targets, change_profile, stacks, drop-ins, variables, directive/manifest names) is fully enumerated from the built text by an independent tokenizer.',
         'AppArmor name resolution as stated in the evidence assumptions; upstream profiles count as defined', 'DESIGN.md §4 C08'),
 'C19': ('scan', 'complete enumeration of the finite set of shipped profile and abstraction files; every file also goes through the real userspace builder',
         'The quantifier domain is the shipped tree itself: all 1552 profile files and 129 abstractions are checked against the layout contract by an independent scanner, and the real userspace builder must accept every one.',
         'independent scanner, not tests/check.sh', 'DESIGN.md §4 C19'),
 'C06': ('dfax', 'exhaustive breadth-first exploration of the product of two DFAs compiled by the reference apparmor_parser (variable form vs built literal) for every shipped profile, every exec directive and generated preambles run through the real builder',
         'Language equality is decided on the automata the kernel would execute: every reachable state pair of the product is visited, so a path matched by one side only is found if it exists (shortest first).',
         'apparmor_parser 3.0.8 compiles both sides over the tunables of the same build; reader of the compiled policy self-tested against a naive glob matcher on 6820 (pattern, string) pairs', 'DESIGN.md §4 C06'),
 'C13': ('libx', 'bounded-exhaustive enumeration of all preambles of <= 6 distinct lines over a 14-line alphabet on the real Parse+Resolve, against a reference expander that is conformance-checked against apparmor_parser on every preamble of <= 4 lines',
         'All 2.2 million sequences (thorough) are executed on the real code; the reference model is bound to the real AppArmor parser by replaying every short sequence against `-D expanded-variables`.',
         'reference expander in engine/gox/cmd/c13x; apparmor_parser 3.0.8', 'DESIGN.md §4 C13'),
 'C10': ('libx+dfax', 'bounded-exhaustive enumeration of all ordered pairs (whole universe), triples and quadruples (reduced universe) of rules of every kind through the real Rules.Merge, against an independent fact-set denotation that is itself bound to the reference parser by DFA product equivalence on the pairs Merge touched',
         'Every list inside the bound is merged by the real code and its set of (qualifier, subject, permission) facts compared before and after; idempotence is checked on the same lists; the conjunctive/disjunctive reading of each AppArmor-3 kind is validated by compiling unmerged and merged text with apparmor_parser and exploring the product of the two policy DFAs.',
         'denotation in engine/gox/cmd/c10x; universe in engine/gox/universe; apparmor_parser 3.0.8', 'DESIGN.md §4 C10'),
 'C11': ('libx', 'bounded-exhaustive: the sign matrix of the real Compare over the whole universe of each kind (and of Rules.Sort on mixed-kind pairs) decides all ordered pairs and triples; all permutations of all k-subsets (k <= 5) of a 12-rule universe go through the real Rules.Sort',
         'Antisymmetry, transitivity and "equal only if identical" are checked on every pair and triple of the universe (1.9e12 triples for file rules in the thorough tier), canonical sorting on every permutation of every small sub-list.',
         'universe in engine/gox/universe; comments exempt', 'DESIGN.md §4 C11'),
 'C09': ('libx', 'bounded-exhaustive round trips on the real printer and parser: every rule of every kind universe x comment variants, every short list after Merge+Sort+Format, every sequence of <= 5 preamble items x 27 headers, xattrs rendered under every owned map-iteration start',
         'Each case is printed by the real templates and parsed back by the real parser; fields, re-printed text and (for files) preamble order and header fields are compared. 640 thousand round trips in the thorough tier.',
         'self-consistency oracle (printer vs parser of the library); universe in engine/gox/universe', 'DESIGN.md §4 C09'),
 'C12': ('libx+dfax', 'bounded-exhaustive enumeration of the AppArmor-3 rule universes and of merged+formatted pairs; for each, the policy apparmor_parser compiles from the library text is compared with the policy compiled from an independent reference spelling by exhaustive DFA product exploration',
         'Acceptance and meaning are decided by the reference parser itself: both texts are compiled and every reachable state pair of the two policy DFAs (and every non-DFA field) is compared. 22 thousand cases in the thorough tier.',
         'reference printer in engine/gox/cmd/c12x validated by requiring different rules to compile differently; apparmor_parser 3.0.8', 'DESIGN.md §4 C12'),
 'C03': ('libx', 'bounded-exhaustive enumeration of every text of <= 5 lines over a directive line alphabet (4 wrappers) and of every shipped file with an only/exclude directive, x all 30 targets, on the real directive.Run, against a line-based reference model',
         'Every (text, target) pair inside the bound is executed on the real code; the distribution/family pair is the build\'s own (one process per DISTRIBUTION). 5 x 10 million runs in the thorough tier.',
         'reference model in engine/gox/cmd/c03x (documented family table, documented paragraph form)', 'DESIGN.md §4 C03'),
 'C14': ('libx+mapx', 'bounded-exhaustive enumeration of all log files of <= 4 records over a 17-record alphabet x 3 carriers x 4 filters on the real reader against a list-based reference reader; the real aa-log binary on record pairs x carriers x modes, its --rules output under every single deviation of the owned map-iteration order',
         'Every log file inside the bound is read by the real code and the reported events compared one by one with the reference reader; rendering is repeated under every map-iteration start; the binary is run end to end (exit status, stdout against the in-process rendering, schedule independence).',
         'reference reader in engine/gox/cmd/c14x; instrumented runtime for the schedule part', 'DESIGN.md §4 C14'),
 'C15': ('libx', 'bounded-exhaustive enumeration of record spellings (field orders, optional field subsets, value classes in kernel and user-space spelling, malformed predecessor records) on the real logs.New, each returned map compared key by key with the construction map',
         '16 thousand record spellings are pushed through the real reader; the oracle is the construction itself (the harness knows every key and value it wrote).',
         'kernel spelling rules (audit_log_untrustedstring) as stated in the evidence', 'DESIGN.md §4 C15'),
 'C16': ('libx+dfax', 'exhaustive enumeration of (name x operation/mask x uid relation x qualifier) records and one-aspect pairs through the real log-to-rules pipeline; membership of the recorded name decided by walking it on the DFA the reference parser compiles from the emitted rule over the shipped tunables',
         'Every record of the alphabet is turned into rules by the real code; for file records the recorded path is run through the automaton AppArmor itself would use, so no glob semantics are re-implemented; other classes are checked attribute by attribute with an independent tokenizer.',
         'apparmor_parser 3.0.8; tunables of a real build tree; permission bit layout read off compiled one-letter rules', 'DESIGN.md §4 C16'),
 'C07': ('cfgx+libx', 'explicit enumeration of all built files of all configurations for surviving directives; bounded-exhaustive enumeration of directive arguments (864 dbus combinations, 35 exec, 20 stack layouts) and of every shipped directive through the real directive.Run inside a prepared tree, against the documented shape / a line-based reference model, expansions parsed by the reference parser',
         'Part A enumerates the finite set of built files (all 180 trees in the thorough tier); parts B-D run every argument combination of a stated alphabet and every shipped use on the real code.',
         'independent tokenizer (engine/scan.py); exec_path values from the reference parser\'s own variable expansion', 'DESIGN.md §4 C07'),
 'C18': ('cfgx+scan', 'explicit enumeration of all 900 unordered pairs of configurations at Hamming distance 1 over the 180 build trees of the real prebuild; every differing Merkle entry and every differing line is classified against what the changed option governs',
         'The pair space is finite and enumerated completely in the thorough tier; guarded regions come from the source through the C03 reference model, expected file sets from the C04 reference model.',
         'independent tokenizer and reference models in engine/props/c03-c04; weaker readings listed in the evidence assumptions', 'DESIGN.md §4 C18'),
}
PENDING = {}
def main():
    props = [json.loads(l)['id'] for l in open(os.path.join(V, 'properties.jsonl'))]
    checks = []
    for pid in props:
        if pid not in CHECKS: continue
        eng, tech, text, note, ref = CHECKS[pid]
        checks.append({
            'property_id': pid,
            'quick_cmd': './check %s --tier quick' % pid,
            'thorough_cmd': './check %s --tier thorough' % pid,
            'evidence_file': '/verif/evidence/%s.json' % pid,
            'replay_cmd_template': './check %s --replay {path}' % pid,
            'engine': eng,
            'level_claimed': {'category': MC, 'text': text, 'design_ref': ref},
            'level_note': note,
            'technique': tech,
        })
    na = [{'property_id': p, 'reason': PENDING.get(p, 'check not built yet (implementation in progress, see DESIGN.md §8a); not claimed until it exists')}
          for p in props if p not in CHECKS]
    m = {
        'version': 1,
        'setup_cmd': './setup.sh',
        'hooks': {
            'guard': 'verif-overlay',
            'enable': 'no hook is committed to /repo: all instrumentation (owned map iteration in runtime/map.go, prepare-only/sequence main, read-only dumps of package globals) is injected at check time with `go build -overlay` from files generated under the scratch directory by /verif/engine/overlay.py',
            'baseline_off_cmd': 'python3 /verif/tools/baseline.py /repo',
            'source_commits': [],
            'add_only': True,
        },
        'engines': [
            {'name': 'cfgx', 'path': 'engine/cfgx.py', 'serves_properties': ['C01', 'C02', 'C04', 'C05', 'C07', 'C08', 'C17', 'C18'], 'kind_free_text': 'explicit-state exploration of build configurations and build-directory histories on the real prebuild binary; states are Merkle maps of .build'},
            {'name': 'mapx', 'path': 'engine/overlay.py', 'serves_properties': ['C02', 'C09', 'C14'], 'kind_free_text': 'owned Go map iteration order (runtime overlay) explored by deviation-bounded DFS'},
            {'name': 'libx', 'path': 'engine/gox', 'serves_properties': ['C03', 'C09', 'C10', 'C11', 'C12', 'C13', 'C14', 'C15', 'C16'], 'kind_free_text': 'bounded-exhaustive enumeration of inputs / operation sequences on the real library code against reference models'},
            {'name': 'dfax', 'path': 'engine/dfax.py', 'serves_properties': ['C06', 'C10', 'C12', 'C16'], 'kind_free_text': 'product exploration of the DFAs compiled by the reference apparmor_parser'},
            {'name': 'scan', 'path': 'engine/scan.py', 'serves_properties': ['C05', 'C07', 'C08', 'C17', 'C18', 'C19'], 'kind_free_text': 'independent readers of policy text'},
        ],
        'checks': checks,
        'not_applicable': na,
        'notes': 'Exit codes: 0 property held on everything explored (KNOWN-FINDING lines possible), 1 VIOLATION, 2 harness error (never a verdict). Known findings: /verif/KNOWN_FINDINGS.',
    }
    json.dump(m, open(os.path.join(V, 'MANIFEST.json'), 'w'), indent=1)
    try:
        import jsonschema
        jsonschema.validate(m, json.load(open('/root/.vp/MANIFEST.schema.json')))
        print('MANIFEST.json valid; claimed:', [c['property_id'] for c in checks])
    except ImportError:
        print('MANIFEST.json written (jsonschema not available to validate)')
if __name__ == '__main__':
    main()
