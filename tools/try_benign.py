#!/usr/bin/env python3
"""Runs quick checks against a property-PRESERVING change:  try_benign.py [--rev COMMIT] PATCH.diff [PATCH2.diff ...] [ID ...]   (default: all 19)
The patch is applied to a scratch clone of /repo (VERIF_REPO, VERIF_NO_EVIDENCE=1); /repo and the committed evidence are
not touched. Prints one line per check; exit 0 iff no check raised a VIOLATION or failed (an alarm here is a FALSE alarm
of the machinery unless the change turns out to break the property after all)."""
import os, subprocess, sys, shutil, tempfile
args = sys.argv[1:]
rev = None
if '--rev' in args:
    i = args.index('--rev'); rev = args[i + 1]; del args[i:i + 2]
patches = [os.path.abspath(a) for a in args if a.endswith('.diff')]; ids = [a for a in args if not a.endswith('.diff')] or ['C%02d' % i for i in range(1, 20)]
base = tempfile.mkdtemp(prefix='benign.', dir='/var/tmp')
clone = os.path.join(base, 'repo')
bad = 0
try:
    subprocess.run(['git', 'clone', '-q', '/repo', clone], check=True)
    if rev:
        subprocess.run(['git', '-C', clone, 'checkout', '-q', rev], check=True)
    for patch in patches:
        ap = subprocess.run(['git', '-C', clone, 'apply', patch], capture_output=True, text=True)
        if ap.returncode != 0:
            sys.exit('patch does not apply: ' + ap.stderr[:300])
    env = dict(os.environ, VERIF_REPO=clone, VERIF_NO_EVIDENCE='1')
    for pid in ids:
        r = subprocess.run(['./check', pid, '--tier', 'quick'], cwd='/verif', capture_output=True, text=True, env=env)
        v = [l for l in r.stdout.split('\n') if l.startswith('VIOLATION')]
        first = next((l.strip() for l in r.stdout.split('\n') if l.startswith('  ') and ':' in l), '')
        status = 'ok' if r.returncode == 0 and not v else ('ALARM' if v else 'FAILED exit=%d' % r.returncode)
        print('%s %s %s' % (pid, status, first[:300] if status != 'ok' else ''), flush=True)
        if status != 'ok':
            bad += 1
            if not v:
                print('    ' + (r.stdout + r.stderr)[-500:].replace('\n', '\n    '))
finally:
    shutil.rmtree(base, ignore_errors=True)
sys.exit(1 if bad else 0)
