#!/usr/bin/env python3
"""Evaluate one seeded change:  try_seed.py PATCH [--tests] [--tier quick|thorough] ID [ID...]
 --tests : first confirm, in a scratch worktree, that the repository's own suite still passes with the patch
 then apply the patch to /repo, run the named checks, and ALWAYS undo it (git checkout -- . ; git clean of new files).
Prints one line per check: <id> exit=<n> violations=<k> ; exit status 0 iff at least one check raised a VIOLATION."""
import json, os, subprocess, sys, tempfile, shutil
args = sys.argv[1:]
tests = '--tests' in args
if tests: args.remove('--tests')
tier = 'quick'
if '--tier' in args:
    i = args.index('--tier'); tier = args[i + 1]; del args[i:i + 2]
patch = os.path.abspath(args[0]); ids = args[1:]
REPO = '/repo'
if subprocess.run(['git', '-C', REPO, 'status', '--porcelain'], capture_output=True, text=True).stdout.strip():
    sys.exit('refusing: /repo has uncommitted changes')
if tests:
    wt = tempfile.mkdtemp(prefix='seedwt.', dir='/var/tmp'); os.rmdir(wt)
    subprocess.run(['git', '-C', REPO, 'worktree', 'add', '-q', '--detach', wt, 'HEAD'], check=True)
    try:
        subprocess.run(['git', '-C', wt, 'apply', patch], check=True)
        b = subprocess.run(['go', 'build', './...'], cwd=wt, env=dict(os.environ, GOFLAGS='-mod=mod', GOPROXY='off', GOSUMDB='off', GOTOOLCHAIN='local', GOCACHE='/verif/.cache/go'), capture_output=True, text=True)
        print('build:', 'ok' if b.returncode == 0 else 'FAILS ' + b.stderr[-300:])
        r = subprocess.run([sys.executable, '/verif/tools/baseline.py', wt], capture_output=True, text=True)
        print('suite with the change:', r.stdout.strip().split('\n')[0], '->', 'passes' if r.returncode == 0 else 'FAILS')
        if r.returncode != 0:
            print(r.stdout[-800:])
    finally:
        subprocess.run(['git', '-C', REPO, 'worktree', 'remove', '--force', wt])
caught = False
# evidence and replay artefacts written while the patch is applied describe the patched tree: keep the committed ones
keep = tempfile.mkdtemp(prefix='seedev.', dir='/var/tmp')
for d in ('evidence', 'replay'):
    if os.path.isdir('/verif/' + d):
        shutil.copytree('/verif/' + d, os.path.join(keep, d))
try:
    subprocess.run(['git', '-C', REPO, 'apply', patch], check=True)
    for pid in ids:
        r = subprocess.run(['./check', pid, '--tier', tier], cwd='/verif', capture_output=True, text=True)
        v = [l for l in r.stdout.split('\n') if l.startswith('VIOLATION')]
        first = next((l.strip() for l in r.stdout.split('\n') if l.startswith('  ') and ':' in l), '')
        print('%s exit=%d violations=%d %s' % (pid, r.returncode, len(v), first[:260]))
        if r.returncode not in (0, 1):
            print('   ', (r.stdout + r.stderr)[-600:].replace('\n', '\n    '))
        caught |= r.returncode == 1 and bool(v)
finally:
    subprocess.run(['git', '-C', REPO, 'checkout', '--', '.'], check=True)
    subprocess.run(['git', '-C', REPO, 'clean', '-fdq', '--', 'cmd', 'pkg', 'apparmor.d', 'dists', 'share', 'systemd'], check=False)
    for d in ('evidence', 'replay'):
        shutil.rmtree('/verif/' + d, ignore_errors=True)
        if os.path.isdir(os.path.join(keep, d)):
            shutil.copytree(os.path.join(keep, d), '/verif/' + d)
    shutil.rmtree(keep, ignore_errors=True)
sys.exit(0 if caught else 3)
