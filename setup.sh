#!/bin/sh
# Run once after a fresh restore, offline. Warms the Go build cache for the harness builds
# (plain + instrumented prebuild, library harnesses) and self-tests the engines.
set -e
cd "$(dirname "$0")"
export GOFLAGS=-mod=mod GOPROXY=off GOSUMDB=off GOTOOLCHAIN=local GOCACHE=/verif/.cache/go
mkdir -p .cache/go evidence replay
python3 -m engine.selftest
