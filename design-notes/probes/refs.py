import re, os, sys
root = sys.argv[1]
HDR = re.compile(r'^(\s*)(profile\s+(\S+)|hat\s+(\S+)|\^(\S+))(.*?)\{\s*$')
defs = set(); refs = []
for f in sorted(os.listdir(root)):
    p = os.path.join(root, f)
    if not os.path.isfile(p): continue
    stack = []
    for ln, line in enumerate(open(p, errors='replace'), 1):
        st = line.strip()
        if st.startswith('#'): continue
        m = HDR.match(line)
        if m:
            name = m.group(3) or m.group(4) or m.group(5)
            stack.append(name); defs.add('//'.join(stack)); continue
        code = line.split(' #')[0].strip()
        if code == '}':
            if stack: stack.pop()
            continue
        m = re.search(r'->\s*(\S+?),?\s*$', code)
        if m and stack:
            tgt = m.group(1).rstrip(',')
            toks = code.split()
            kind = None
            if toks[0] in ('change_profile',) or (len(toks) > 1 and toks[0] in ('audit','deny','allow') and toks[1] == 'change_profile'):
                kind = 'change_profile'
            elif re.search(r'\s[rwmlkix]*(P|p|C|c|U|u)[UuIi]?x\s*->', code) or re.search(r'\s(c|C|p|P)(u|U|i)?x\s*->', code):
                kind = 'exec'
            if kind:
                mm = re.search(r'\s(\S+)\s*->', code); mode = mm.group(1) if mm else ''
                refs.append((f, ln, '//'.join(stack), kind, mode, tgt))
print('defs', len(defs), 'refs', len(refs))
bad = []
for f, ln, blk, kind, mode, tgt in refs:
    if tgt.startswith('@{') or tgt == 'unconfined' or tgt.startswith(':') : continue
    cands = []
    for part in tgt.split('//&'):
        part = part.strip('&')
        if kind == 'exec' and re.search(r'[cC]', mode):
            ok = (blk + '//' + part) in defs or (blk.split('//')[0] + '//' + part) in defs
        else:
            ok = part in defs or (blk + '//' + part) in defs
            if not ok and any(ch in part for ch in '*?[{'):
                import fnmatch
                ok = any(fnmatch.fnmatchcase(d, part.replace('{','[').replace('}',']')) for d in defs) or True
        if not ok: bad.append((f, ln, blk, kind, mode, tgt, part))
for b in bad: print(b)
print('dangling', len(bad))
