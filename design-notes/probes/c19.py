import os, re, sys, glob, collections
R='/repo/apparmor.d'
viol=[]
names=collections.Counter()
files=[]
for d in sorted(glob.glob(R+'/groups/*')+glob.glob(R+'/profiles-*-*')):
    for f in sorted(os.listdir(d)):
        p=os.path.join(d,f)
        if os.path.isfile(p) and f!='README.md': files.append(p)
for p in files:
    f=os.path.basename(p); name=f[:-len('.apparmor.d')] if f.endswith('.apparmor.d') else f
    names[f]+=1
    L=open(p,errors='replace').read().split('\n')
    code=[l for l in L if not l.lstrip().startswith('#')]
    if not any(re.match(r'^\s*abi <abi/4\.0>,',l) for l in code): viol.append((p,'abi'))
    hdrs=[(i,l) for i,l in enumerate(L) if re.match(r'^profile\s',l)]
    if not hdrs or not any(re.match(r'^profile\s+'+re.escape(name)+r'(\s|\{)',l) for i,l in hdrs): viol.append((p,'profile-name')); continue
    i,h=[x for x in hdrs if re.match(r'^profile\s+'+re.escape(name)+r'(\s|\{)',x[1])][0]
    toks=re.sub(r'(flags|xattrs)=\([^)]*\)','',h).rstrip().rstrip('{').split()
    att=toks[2:]
    if att and att!=['@{exec_path}']: viol.append((p,'attachment:'+' '.join(att)))
    if att and not any(re.match(r'^@\{exec_path\}\s*\+?=',l) for l in L[:i]): viol.append((p,'exec_path-undefined'))
    if not any(re.match(r'^  include if exists <local/'+re.escape(name)+r'>\s*$',l) for l in L): viol.append((p,'local-include'))
    for l in L:
        m=re.match(r'^\s+profile\s+(\S+)',l)
        if m and not l.lstrip().startswith('#'):
            sub=m.group(1)
            if not any(re.match(r'^\s+include if exists <local/'+re.escape(name)+'_'+re.escape(sub)+r'>\s*$',x) for x in L): viol.append((p,'sub-local-include:'+sub))
for f,c in names.items():
    if c>1: viol.append((f,'duplicate-basename'))
nabs=0
for sub in ['','app/','attached/','bus/','common/','mapping/','display-manager/']:
    d=R+'/abstractions/'+sub
    if not os.path.isdir(d): continue
    for f in sorted(os.listdir(d)):
        p=os.path.join(d,f)
        if not os.path.isfile(p): continue
        nabs+=1
        t=open(p,errors='replace').read()
        if not re.search(r'^\s*include if exists <abstractions/'+re.escape(sub+f)+r'\.d>\s*$',t,re.M): viol.append((p,'abstraction-.d-include'))
print('profiles',len(files),'abstractions',nabs,'violations',len(viol))
for v in viol[:30]: print(' ',v[0].replace(R+'/',''),v[1])
