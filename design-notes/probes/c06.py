import os, re, subprocess, sys, collections, concurrent.futures as cf, tempfile, hashlib
sys.path.insert(0,'/tmp/px/dfa')
from aabin import dfas
SRC='/repo/apparmor.d'; BUILD=sys.argv[1]; BASE=sys.argv[2]
def equiv(a,b):
    seen={(1,1)}; q=collections.deque([((1,1),b'')]); tr=0
    while q:
        (s,t),path=q.popleft()
        if (a.accept[s]!=0)!=(b.accept[t]!=0): return path,len(seen),tr
        for c in range(1,256):
            n=(a.step(s,c) if s else 0, b.step(t,c) if t else 0); tr+=1
            if n!=(0,0) and n not in seen: seen.add(n); q.append((n,path+bytes([c])))
    return None,len(seen),tr
def compile_(text):
    with tempfile.NamedTemporaryFile('w',suffix='.aa',delete=False,dir='/tmp/px/dfa/tmp') as f: f.write(text); n=f.name
    r=subprocess.run(['apparmor_parser','-Q','-K','-b',BASE,'-S',n],capture_output=True); os.unlink(n)
    if r.returncode: return None, r.stderr.decode()[-200:]
    bn=n+'.bin'; open(bn,'wb').write(r.stdout); d=dfas(bn); os.unlink(bn)
    return (d[0][1] if d else None), ''
def one(item):
    name, srcp = item
    src=open(srcp).read()
    m=re.search(r'^profile\s+\S+\s+@\{exec_path\}', src, re.M)
    if not m: return None
    pre=src[:m.start()].replace('abi/4.0','abi/3.0')
    bp=os.path.join(BUILD,name)
    if not os.path.exists(bp): bp+='.apparmor.d'
    if not os.path.exists(bp): return None
    hdr=[l for l in open(bp) if l.startswith('profile ')][0]
    hm=re.match(r'^profile\s+\S+\s+(.*?)\s*(?:flags=\([^)]*\)\s*)?\{\s*$', hdr)
    lit=hm.group(1).strip()
    # drop xattrs
    lit=re.sub(r'\s*xattrs=\([^)]*\)','',lit)
    A,e1=compile_(pre+'profile p @{exec_path} {\n}\n')
    B,e2=compile_(pre+'profile p '+lit+' {\n}\n')
    if A is None or B is None: return (name,'COMPILE',e1+e2,0,0)
    cex,st,tr=equiv(A,B)
    return (name,'OK' if cex is None else 'DIFF',cex,st,tr)
os.makedirs('/tmp/px/dfa/tmp',exist_ok=True)
items=[]
for d,_,fs in os.walk(SRC):
    if '/groups/' in d+'/' or '/profiles-' in d:
        for f in fs: items.append((f,os.path.join(d,f)))
res=[]
with cf.ProcessPoolExecutor(16) as ex:
    for r in ex.map(one, items, chunksize=8):
        if r: res.append(r)
print('checked',len(res),'states',sum(r[3] for r in res),'transitions',sum(r[4] for r in res))
for r in res:
    if r[1]!='OK': print(r[:3])
