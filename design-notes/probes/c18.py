import os, sys, re, difflib
sys.path.insert(0,'/tmp/px')
from merkle import merkle
HDR = re.compile(r'^\s*(profile\s+\S+|hat\s+\S+|\^\S+).*\{\s*$')
def lines(p): return open(p, errors='replace').read().split('\n')
def diff_pairs(a, b):
    sm = difflib.SequenceMatcher(None, a, b, autojunk=False)
    for tag, i1, i2, j1, j2 in sm.get_opcodes():
        if tag != 'equal': yield a[i1:i2], b[j1:j2]
def classify(axis, A, B):
    ra, rb = A+'/.build/apparmor.d', B+'/.build/apparmor.d'
    ma, mb = merkle(ra), merkle(rb)
    unexplained = []
    onlyA = [k for k in ma if k not in mb]; onlyB = [k for k in mb if k not in ma]
    for k in sorted(set(ma) & set(mb)):
        if ma[k] == mb[k] or ma[k][0] != 'f': continue
        for da, db in diff_pairs(lines(os.path.join(ra,k)), lines(os.path.join(rb,k))):
            for l in da + db:
                if not l.strip(): continue
                ok = False
                if axis == 'mode': ok = bool(HDR.match(l))
                elif axis == 'abi':
                    ok = bool(re.match(r'^\s*abi <abi/[34]\.0>,', l)) or bool(re.match(r'^\s*(# )?(audit |deny |allow )*(userns|mqueue)\b', l))
                elif axis == 'full':
                    ok = bool(re.search(r'\s[rwmlk]*(p|P|c|C)?(u|U)?(i)?x,', l))
                if not ok: unexplained.append((k, l))
    return onlyA, onlyB, unexplained
for axis, A, B in [('mode','w.none','w.complain'), ('mode','w.none','w.enforce'), ('abi','w.arch3','w.A'), ('full','w.A','w.F')]:
    if not os.path.exists(A) or not os.path.exists(B): print('missing', A, B); continue
    oa, ob, un = classify(axis, A, B)
    print(axis, A, B, 'onlyA', len(oa), 'onlyB', len(ob), 'unexplained', len(un))
    seen=set()
    for k,l in un:
        if (k) in seen: continue
        seen.add(k); print('    ', k, '|', l[:110])
        if len(seen) > 12: break
