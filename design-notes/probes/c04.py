import os, sys, re, subprocess, shutil
SRC='/tmp/px/repo'
def lines(p):
    out=[]
    if not os.path.exists(p): return out
    for l in open(p):
        l=re.sub(r'\s*#.*','',l).strip()
        if l: out.append(l)
    return out
def expected(dist, abi, ver, full):
    files={}   # outrel -> srcpath
    ign=lines(f'{SRC}/dists/ignore/main.ignore')+lines(f'{SRC}/dists/ignore/{dist}.ignore')
    src=[]
    for d,_,fs in os.walk(f'{SRC}/apparmor.d'):
        for f in fs: src.append(os.path.relpath(os.path.join(d,f), SRC))
    def ignored(rel):
        for e in ign:
            if '/' in e:
                if rel==e or rel.startswith(e.rstrip('/')+'/'): return True
            else:
                # bare name: profile files with that base name (anywhere under apparmor.d in real code)
                if os.path.basename(rel)==e or ('/'+e+'/') in ('/'+rel): return True
        return False
    clash=[]
    for rel in src:
        if ignored(rel): continue
        parts=rel.split('/')[1:]
        if parts[0]=='groups': out='/'.join(parts[2:])
        elif parts[0].startswith('profiles-'): out='/'.join(parts[1:])
        else: out='/'.join(parts)
        if out in files: clash.append(out)
        files[out]=rel
    if full:
        for d,_,fs in os.walk(f'{SRC}/apparmor.d/groups/_full'):
            for f in fs: files[os.path.relpath(os.path.join(d,f), f'{SRC}/apparmor.d/groups/_full')]='full'
    addub = (dist=='ubuntu' and ver<3.0) or (dist in('debian','whonix') and ver<4.1)
    if addub:
        for d,_,fs in os.walk(f'{SRC}/dists/ubuntu'):
            for f in fs: files[os.path.relpath(os.path.join(d,f), f'{SRC}/dists/ubuntu')]='ubuntu'
    if ver==4.1:
        for n in ['abstractions/devices-usb-read','abstractions/devices-usb','abstractions/nameservice-strict','tunables/multiarch.d/base','wg']:
            files.pop(n,None)
    links={}
    if abi==4:
        for n in lines(f'{SRC}/dists/overwrite'):
            if n in files: files[n+'.apparmor.d']=files.pop(n)
            links['disable/'+n]=n
    return files, links, clash
def actual(root):
    fs=set(); ls={}
    for d,dn,fn in os.walk(root):
        for f in fn:
            p=os.path.join(d,f); rel=os.path.relpath(p,root)
            if os.path.islink(p): ls[rel]=os.readlink(p)
            else: fs.add(rel)
    return fs, ls
bad=0
for dist in ['arch','debian','ubuntu','opensuse','whonix']:
  for abi in [3,4]:
    for ver in [3.0,4.0,4.1]:
      for full in [False,True]:
        w='/tmp/px/w.c04'; shutil.rmtree(w,ignore_errors=True)
        subprocess.run(['rsync','-a','--exclude','.build',SRC+'/',w+'/'],check=True)
        args=['/tmp/px/prebuild-mapx','--abi',str(abi),'--version',str(ver)]+(['--full'] if full else [])
        r=subprocess.run(args,cwd=w,env=dict(os.environ,DISTRIBUTION=dist),capture_output=True)
        ef,el,clash=expected(dist,abi,ver,full)
        af,al=actual(w+'/.build/apparmor.d')
        miss=sorted(set(ef)-af); extra=sorted(af-set(ef))
        lbad=[k for k in set(el)|set(al) if k not in al or k not in el or os.path.normpath(os.path.join(os.path.dirname(k),al[k]))!=el[k]]
        if miss or extra or lbad or clash or r.returncode:
            bad+=1; print(dist,abi,ver,full,'rc',r.returncode,'missing',miss[:6],'extra',extra[:6],'links',lbad[:4],'clash',clash[:4])
print('configs with mismatch',bad)
