import os, sys, hashlib
def merkle(root):
    ent={}
    for d,dn,fn in os.walk(root):
        for n in dn+fn:
            p=os.path.join(d,n); rel=os.path.relpath(p,root)
            if os.path.islink(p): ent[rel]=('l',os.readlink(p))
            elif os.path.isdir(p): ent[rel]=('d','')
            else: ent[rel]=('f',hashlib.sha256(open(p,'rb').read()).hexdigest(), oct(os.stat(p).st_mode&0o777))
    return ent
if __name__=='__main__':
    a=merkle(sys.argv[1]); b=merkle(sys.argv[2])
    ks=sorted(set(a)|set(b)); diff=[k for k in ks if a.get(k)!=b.get(k)]
    print('entries',len(a),len(b),'diff',len(diff)); [print('  ',k,a.get(k,'-')[:1],b.get(k,'-')[:1]) for k in diff[:15]]
