import sys, collections
sys.path.insert(0,'.')
from aabin import dfas
def equiv(a, b):
    seen = {(1,1)}; q = collections.deque([((1,1), b'')]); trans=0
    while q:
        (s,t), path = q.popleft()
        if (a.accept[s]!=0) != (b.accept[t]!=0):
            return path, len(seen), trans
        for c in range(1,256):
            s2 = a.step(s,c) if s else 0; t2 = b.step(t,c) if t else 0; trans+=1
            if (s2,t2) not in seen and (s2 or t2):
                seen.add((s2,t2)); q.append(((s2,t2), path+bytes([c])))
    return None, len(seen), trans
A = dfas(sys.argv[1])[0][1]; B = dfas(sys.argv[2])[0][1]
print(equiv(A,B))
