#!/usr/bin/env python3
"""Reader for apparmor_parser -S binary policy: extracts flex DFAs and runs the kernel match loop."""
import struct, sys

def walk(buf):
    """yield (name, kind, value) in order; structs/lists yield markers"""
    i = 0; name = None; n = len(buf)
    while i < n:
        t = buf[i]; i += 1
        if t == 4:   # name
            l = struct.unpack_from('<H', buf, i)[0]; i += 2
            name = buf[i:i+l-1].decode('latin1'); i += l; continue
        if t == 0: v = buf[i]; i += 1; k = 'u8'
        elif t == 1: v = struct.unpack_from('<H', buf, i)[0]; i += 2; k = 'u16'
        elif t == 2: v = struct.unpack_from('<I', buf, i)[0]; i += 4; k = 'u32'
        elif t == 3: v = struct.unpack_from('<Q', buf, i)[0]; i += 8; k = 'u64'
        elif t == 5:
            l = struct.unpack_from('<H', buf, i)[0]; i += 2; v = buf[i:i+l-1].decode('latin1'); i += l; k = 'str'
        elif t == 6:
            l = struct.unpack_from('<I', buf, i)[0]; i += 4; v = buf[i:i+l]; i += l; k = 'blob'
        elif t == 7: v = None; k = 'struct'
        elif t == 8: v = None; k = 'structend'
        elif t == 9: v = struct.unpack_from('<H', buf, i)[0]; i += 2; k = 'list'
        elif t == 10: v = None; k = 'listend'
        elif t == 11: v = struct.unpack_from('<H', buf, i)[0]; i += 2; k = 'array'
        elif t == 12: v = None; k = 'arrayend'
        else: raise ValueError('bad tag %d at %d' % (t, i-1))
        yield name, k, v
        name = None

class DFA:
    def __init__(self, blob):
        # blob may have leading padding so that the header is 8-byte aligned in the stream
        off = blob.find(b'\x1b\x5e\x78\x3d')
        assert off >= 0
        b = blob[off:]
        magic, hsize, ssize, flags = struct.unpack_from('>IIIH', b, 0)
        self.flags = flags
        i = hsize
        self.t = {}
        while i + 12 <= len(b):
            tid, tfl, hi, lo = struct.unpack_from('>HHII', b, i); i += 12
            if tid == 0 and lo == 0: break
            w = {1: 1, 2: 2, 4: 4}[tfl]
            fmt = {1: 'B', 2: 'H', 4: 'I'}[tfl]
            self.t[tid] = struct.unpack_from('>%d%s' % (lo, fmt), b, i)
            i += lo * w
            i = (i + 7) & ~7
        self.accept = self.t[1]; self.accept2 = self.t.get(7)
        self.base = self.t[2]; self.chk = self.t[3]; self.deflt = self.t[4]; self.nxt = self.t[8]
        self.ec = self.t.get(5)
    def step(self, s, c):
        if self.ec: c = self.ec[c]
        while True:
            b = self.base[s]; pos = (b & 0xffffff) + c
            if pos < len(self.chk) and self.chk[pos] == s:
                return self.nxt[pos]
            s2 = self.deflt[s]
            if b & 0x80000000:  # MATCH_FLAG_DIFF_ENCODE
                s = s2; continue
            return s2
    def match(self, data, start=1):
        s = start
        for c in data:
            s = self.step(s, c)
            if s == 0: break
        return s

def dfas(path):
    buf = open(path, 'rb').read()
    out = []; pending = None
    for name, k, v in walk(buf):
        if k == 'blob' and name == 'aadfa':
            pending = DFA(v); out.append(['policy', pending])
        elif name == 'xmatch_len' and pending is not None:
            out[-1][0] = 'xmatch'
    return out

if __name__ == '__main__':
    for kind, d in dfas(sys.argv[1]):
        print(kind, 'states', len(d.accept), 'flags', hex(d.flags), 'ec', bool(d.ec))
        for s in sys.argv[2:]:
            st = d.match(s.encode())
            print('   ', repr(s), '->', st, hex(d.accept[st]))
