import os, re, sys, shutil, subprocess, concurrent.futures as cf
REPO='/tmp/px/repo'; PB='/tmp/px/prebuild-mapx'
AA4=re.compile(r'^(\s*)((?:audit\s+|allow\s+|deny\s+)*)(userns|mqueue|io_uring|all)\b([^#\n]*,)\s*(#.*)?$')
def build(tag, dist, abi, ver, mode, full):
    w=f'/tmp/px/c01/{tag}'; shutil.rmtree(w,ignore_errors=True); os.makedirs(w)
    for d in ['apparmor.d','dists','share','systemd','debian']: shutil.copytree(f'{REPO}/{d}', f'{w}/{d}', symlinks=True)
    args=[PB,'--abi',str(abi),'--version',str(ver)]+([f'--{mode}'] if mode!='none' else [])+(['--full'] if full else [])
    r=subprocess.run(args,cwd=w,env=dict(os.environ,DISTRIBUTION=dist),capture_output=True)
    assert r.returncode==0, r.stdout[-300:]
    base=f'{w}/base'; shutil.copytree('/etc/apparmor.d', base, symlinks=True)
    shutil.copytree(f'{w}/.build/apparmor.d', base, symlinks=True, dirs_exist_ok=True)
    if not os.path.exists(base+'/abi/4.0'): shutil.copy(base+'/abi/3.0', base+'/abi/4.0')
    if ver==4.1:
        for n in ['abstractions/devices-usb-read','abstractions/devices-usb','abstractions/nameservice-strict','tunables/multiarch.d/base']:
            if not os.path.exists(f'{base}/{n}'): shutil.copy(f'{REPO}/apparmor.d/{n}', f'{base}/{n}')
        wg=[p for p in [f'{REPO}/apparmor.d/groups/network/wg'] if os.path.exists(p)]
    if abi==4:
        n=0
        for d,_,fs in os.walk(base):
            for f in fs:
                p=os.path.join(d,f)
                if os.path.islink(p): continue
                t=open(p,errors='replace').read()
                t2='\n'.join(AA4.sub(lambda m: m.group(1)+'# [set aside] '+m.group(0).strip(), l) for l in t.split('\n'))
                if t2!=t: open(p,'w').write(t2); n+=1
    return w, base
def parse(args):
    base,f=args
    r=subprocess.run(['apparmor_parser','-Q','-K','--kernel-features','/etc/apparmor.d/abi/3.0','-b',base,'-d',f],cwd=base,capture_output=True)
    if r.returncode:
        e=[l for l in r.stderr.decode().split('\n') if l and 'Cache read' not in l]
        return f, (e[0] if e else 'rc=%d'%r.returncode).replace(base+'/','')
    return f, None
cfgs=[('a41n','arch',4,4.1,'none',False),('a41c','arch',4,4.1,'complain',False),('a41e','arch',4,4.1,'enforce',False),('a41cF','arch',4,4.1,'complain',True),
      ('d30c','debian',3,3.0,'complain',False),('u40c','ubuntu',4,4.0,'complain',False),('o41c','opensuse',4,4.1,'complain',False),('w30e','whonix',3,3.0,'enforce',False),('u30cF','ubuntu',3,3.0,'complain',True),('d41n','debian',4,4.1,'none',True)]
with cf.ThreadPoolExecutor(16) as ex:
    for tag,dist,abi,ver,mode,full in cfgs:
        w,base=build(tag,dist,abi,ver,mode,full)
        upstream=set(os.listdir('/etc/apparmor.d'))
        files=[f for f in sorted(os.listdir(f'{w}/.build/apparmor.d')) if os.path.isfile(f'{w}/.build/apparmor.d/{f}')]
        res=list(ex.map(parse, [(base,f) for f in files]))
        bad=[(f,e) for f,e in res if e]
        print(tag, 'profiles', len(files), 'rejected', len(bad))
        for f,e in bad[:12]: print('    ', f, '|', e[:150])
        shutil.rmtree(w)
