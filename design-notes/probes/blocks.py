import re, sys, os
HDR = re.compile(r'^(\s*)(profile\s+\S+|hat\s+\S+|\^\S+)(.*?)\{\s*$')
def blocks(path):
    out = []; stack = []
    for ln, line in enumerate(open(path, errors='replace'), 1):
        s = line.split('#',1)[0] if not line.lstrip().startswith('#') else ''
        m = HDR.match(line) if not line.lstrip().startswith('#') else None
        if m:
            name = m.group(2).split()[-1].lstrip('^')
            rest = m.group(3)
            fm = re.search(r'flags=\(([^)]*)\)', rest)
            flags = tuple(sorted(x for x in re.split(r'[,\s]+', fm.group(1)) if x)) if fm else ()
            stack.append(name)
            out.append(('//'.join(stack), flags, line.rstrip('\n')))
        elif s.strip() == '}':
            if stack: stack.pop()
    return out
def tree(root):
    res = {}
    for f in sorted(os.listdir(root)):
        p = os.path.join(root, f)
        if os.path.isfile(p):
            for name, flags, line in blocks(p):
                res[(f, name)] = flags
    return res
N, C, E = (tree('/tmp/px/w.%s/.build/apparmor.d' % m) for m in ('none','complain','enforce'))
print('blocks', len(N), len(C), len(E))
badC = [(k, N[k], C.get(k)) for k in N if C.get(k) is None or 'complain' not in C[k] or set(C[k]) - {'complain'} != set(N[k]) - {'complain'}]
badE = [(k, N[k], E.get(k)) for k in N if E.get(k) is None or 'complain' in E[k] or set(E[k]) - {'complain'} != set(N[k]) - {'complain'}]
print('complain violations', len(badC)); [print('  ', x) for x in badC[:12]]
print('enforce violations', len(badE)); [print('  ', x) for x in badE[:12]]
