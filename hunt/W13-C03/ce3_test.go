// Counterexample 3 for property C03 (at the edge of what the property quantifies
// over: the line that carries the inline guard is itself a generating directive).
//
// Drop this file in:  pkg/prebuild/directive/
// Run from the worktree root:
//   export GOFLAGS=-mod=mod GOPROXY=off GOSUMDB=off GOTOOLCHAIN=local
//   go test -vet=off -count=1 -run 'TestCE3' ./pkg/prebuild/directive/
//
// Three dbus directives in one paragraph, the second one guarded inline by
// `#aa:only ubuntu`. On ubuntu the build is right (the guard is cleaned in the
// first pass, the dbus directive runs in the second). On every other target the
// inline guard is taken for a paragraph guard: the third, unguarded, directive
// line (and any rule up to the next empty line) is removed with it.

package directive

import (
	"strings"
	"testing"

	"github.com/roddhjav/apparmor.d/pkg/prebuild"
)

const ce3Profile = `profile foo @{exec_path} {
  include <abstractions/base>

  #aa:dbus talk bus=session name=org.a label=a
  #aa:dbus talk bus=session name=org.b label=b #aa:only ubuntu
  #aa:dbus talk bus=session name=org.c label=c
  /x r,

  /y r,

  include if exists <local/foo>
}
`

func TestCE3_InlineGuardOnDirectiveLineTakenForParagraph(t *testing.T) {
	for _, tt := range []struct {
		dist, family string
		b            bool
	}{
		{"ubuntu", "apt", true},
		{"arch", "pacman", false},     // fails: org.c rules and /x r, are lost
		{"debian", "apt", false},      // fails: idem
		{"opensuse", "zypper", false}, // fails: idem
	} {
		prebuild.Distribution, prebuild.Family, prebuild.ABI, prebuild.Version = tt.dist, tt.family, 4, 4.1
		got, err := Run(nil, ce3Profile)
		if err != nil {
			t.Fatal(err)
		}
		for text, want := range map[string]bool{"org.a{": true, "org.b{": tt.b, "org.c{": true, "  /x r,\n": true, "  /y r,\n": true, "#aa:": false} {
			if has := strings.Contains(got, text); has != want {
				t.Errorf("%s: %q present=%v, want %v\n%s", tt.dist, strings.TrimSpace(text), has, want, got)
			}
		}
	}
}
