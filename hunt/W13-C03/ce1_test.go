// Counterexample 1 for property C03 (only/exclude keep exactly the rules meant for the target).
//
// Drop this file in:  pkg/prebuild/directive/
// Run from the worktree root:
//   export GOFLAGS=-mod=mod GOPROXY=off GOSUMDB=off GOTOOLCHAIN=local
//   go test -vet=off -count=1 -run 'TestCE1' ./pkg/prebuild/directive/
//
// Two paragraphs, each guarded by its own `only` directive (different
// distributions), carry the same `#aa:dbus common ...` line. On a target that
// neither filter names (arch), both paragraphs must be absent. The real code
// keeps the tail of the second paragraph: two generated dbus rules and the
// guarded rule `/usr/share/debian-thing r,`.

package directive

import (
	"strings"
	"testing"

	"github.com/roddhjav/apparmor.d/pkg/prebuild"
)

const ce1Profile = `profile foo @{exec_path} {
  include <abstractions/base>

  #aa:only ubuntu
  #aa:dbus common bus=system name=org.freedesktop.PackageKit label=packagekitd
  /usr/share/ubuntu-thing r,

  #aa:only debian
  #aa:dbus common bus=system name=org.freedesktop.PackageKit label=packagekitd
  /usr/share/debian-thing r,

  /etc/foo r,

  include if exists <local/foo>
}
`

func TestCE1_DbusTwinInGuardedParagraph(t *testing.T) {
	prebuild.Distribution, prebuild.Family, prebuild.ABI, prebuild.Version = "arch", "pacman", 4, 4.1
	got, err := Run(nil, ce1Profile)
	if err != nil {
		t.Fatal(err)
	}
	// Neither `only ubuntu` nor `only debian` names arch: nothing of the two
	// guarded paragraphs may be left.
	for _, guarded := range []string{"/usr/share/ubuntu-thing r,", "/usr/share/debian-thing r,", "dbus ", "#aa:"} {
		if strings.Contains(got, guarded) {
			t.Errorf("guarded text %q is present in the profile built for arch:\n%s", guarded, got)
		}
	}
	// ... and the unguarded lines are all there
	for _, line := range []string{"  include <abstractions/base>", "  /etc/foo r,", "  include if exists <local/foo>", "}"} {
		if !strings.Contains(got, line+"\n") {
			t.Errorf("unguarded line %q is missing:\n%s", line, got)
		}
	}

	// Sanity: with a single copy of the dbus line the same paragraph is removed as a whole.
	single := strings.Replace(ce1Profile, "  #aa:dbus common bus=system name=org.freedesktop.PackageKit label=packagekitd\n", "", 1)
	got, err = Run(nil, single)
	if err != nil {
		t.Fatal(err)
	}
	if strings.Contains(got, "debian-thing") || strings.Contains(got, "dbus ") {
		t.Errorf("control case failed too:\n%s", got)
	}
}
