// Counterexample 2 for property C03.
//
// Drop this file in:  pkg/prebuild/directive/
// Run from the worktree root:
//   export GOFLAGS=-mod=mod GOPROXY=off GOSUMDB=off GOTOOLCHAIN=local
//   go test -vet=off -count=1 -run 'TestCE2' ./pkg/prebuild/directive/
//
// Two paragraphs are each headed by two directive lines (both must hold):
//   /a  only on arch,   and not on ABI 3
//   /b  only on debian, and not on ABI 3
// The second line (`#aa:exclude abi3`) is the same in both paragraphs. Built
// for ubuntu / ABI 4 neither paragraph may be present; the real code keeps `/b r,`.
// Built for arch or ubuntu / ABI 3 the unguarded `/c r,` is lost.
//
// TestCE2b is the second symptom alone, in a text without stacked directive
// lines: `#aa:only whonix` guards a paragraph of its own and, further down, the
// tail of a paragraph guarded by `#aa:only apt`; the unguarded `/d r,` is lost
// on arch and opensuse.

package directive

import (
	"strings"
	"testing"

	"github.com/roddhjav/apparmor.d/pkg/prebuild"
)

const ce2Profile = `profile foo @{exec_path} {
  include <abstractions/base>

  #aa:only arch
  #aa:exclude abi3
  /a r,

  #aa:only debian
  #aa:exclude abi3
  /b r,

  /c r,

  include if exists <local/foo>
}
`

func TestCE2_KeptTwinCleanedInsideLaterGuardedParagraph(t *testing.T) {
	type target struct {
		dist, family string
		abi          int
		a, b         bool // expected presence of /a and /b
	}
	for _, tt := range []target{
		{"arch", "pacman", 4, true, false},
		{"arch", "pacman", 3, false, false}, // fails the other way: the unguarded /c r, is lost
		{"debian", "apt", 4, false, true},
		{"debian", "apt", 3, false, false},
		{"ubuntu", "apt", 4, false, false},      // fails: /b r, is present
		{"ubuntu", "apt", 3, false, false},      // fails the other way: the unguarded /c r, is lost
		{"opensuse", "zypper", 4, false, false}, // fails: /b r, is present
		{"whonix", "apt", 4, false, false},      // fails: /b r, is present
	} {
		prebuild.Distribution, prebuild.Family, prebuild.ABI, prebuild.Version = tt.dist, tt.family, tt.abi, 4.1
		got, err := Run(nil, ce2Profile)
		if err != nil {
			t.Fatal(err)
		}
		if has := strings.Contains(got, "  /a r,\n"); has != tt.a {
			t.Errorf("%s abi%d: /a present=%v, want %v\n%s", tt.dist, tt.abi, has, tt.a, got)
		}
		if has := strings.Contains(got, "  /b r,\n"); has != tt.b {
			t.Errorf("%s abi%d: /b present=%v, want %v\n%s", tt.dist, tt.abi, has, tt.b, got)
		}
		if !strings.Contains(got, "  /c r,\n") || strings.Contains(got, "#aa:") {
			t.Errorf("%s abi%d: unguarded line lost or marker left\n%s", tt.dist, tt.abi, got)
		}
	}

	// Control: the same text with the second pair spelled differently
	// (`#aa:exclude abi3 ` + extra filter that names nothing) behaves as required.
	prebuild.Distribution, prebuild.Family, prebuild.ABI = "ubuntu", "apt", 4
	control := strings.Replace(ce2Profile, "  #aa:exclude abi3\n  /b r,", "  #aa:exclude abi3 abi3\n  /b r,", 1)
	got, _ := Run(nil, control)
	if strings.Contains(got, "/b r,") {
		t.Errorf("control case failed too:\n%s", got)
	}
}

const ce2bProfile = `profile foo @{exec_path} {
  include <abstractions/base>

  #aa:only whonix
  /a r,

  #aa:only apt
  /b r,
  #aa:only whonix
  /c r,

  /d r,

  include if exists <local/foo>
}
`

func TestCE2b_TwinParagraphRemovalJoinsNextParagraph(t *testing.T) {
	for _, tt := range []struct {
		dist, family string
		a, b, c      bool
	}{
		{"whonix", "apt", true, true, true},
		{"debian", "apt", false, true, false},
		{"ubuntu", "apt", false, true, false},
		{"arch", "pacman", false, false, false},     // fails: /d r, is lost
		{"opensuse", "zypper", false, false, false}, // fails: /d r, is lost
	} {
		prebuild.Distribution, prebuild.Family, prebuild.ABI, prebuild.Version = tt.dist, tt.family, 4, 4.1
		got, err := Run(nil, ce2bProfile)
		if err != nil {
			t.Fatal(err)
		}
		for rule, want := range map[string]bool{"  /a r,\n": tt.a, "  /b r,\n": tt.b, "  /c r,\n": tt.c, "  /d r,\n": true} {
			if has := strings.Contains(got, rule); has != want {
				t.Errorf("%s: %q present=%v, want %v\n%s", tt.dist, strings.TrimSpace(rule), has, want, got)
			}
		}
	}

	// Control: without the first (identical) paragraph, /d is kept everywhere.
	prebuild.Distribution, prebuild.Family = "arch", "pacman"
	control := strings.Replace(ce2bProfile, "  #aa:only whonix\n  /a r,\n\n", "", 1)
	got, _ := Run(nil, control)
	if !strings.Contains(got, "  /d r,\n") {
		t.Errorf("control case failed too:\n%s", got)
	}
}
