// Counterexample 1 to property C15.
// Drop this file in pkg/logs/ and run from the worktree root:
//   export GOFLAGS=-mod=mod GOPROXY=off GOSUMDB=off GOTOOLCHAIN=local GOCACHE=/tmp/gocache-$(basename $PWD)
//   go test -vet=off -count=1 -run TestCE1ValueEndingInApparmorEquals ./pkg/logs
//
// A quoted value that ends in the text `apparmor=` (a file called
// /srv/conf/apparmor=, no space, no quote: the kernel emits it quoted, not hex)
// forms, with its own closing quote, the text `apparmor="`. The greedy prefix
// stripper `.*apparmor="` -> `apparmor="` of regCleanLogs then removes
// everything up to and including the value: apparmor, operation, profile and
// name are all lost and a junk key is reported.
package logs

import (
	"strings"
	"testing"
)

func TestCE1ValueEndingInApparmorEquals(t *testing.T) {
	line := `type=AVC msg=audit(1700000000.100:11): apparmor="DENIED" operation="open" profile="backup" name="/srv/conf/apparmor=" pid=700 comm="cat" requested_mask="r" denied_mask="r" fsuid=1000 ouid=0` + "\n"
	want := map[string]string{
		"apparmor":       "DENIED",
		"operation":      "open",
		"profile":        "backup",
		"name":           "/srv/conf/apparmor=",
		"comm":           "cat",
		"requested_mask": "r",
		"denied_mask":    "r",
		"fsuid":          "1000",
		"ouid":           "0",
	}
	got := New(strings.NewReader(line), "")
	if len(got) != 1 {
		t.Fatalf("want 1 event, got %d", len(got))
	}
	for k, v := range want {
		if got[0][k] != v {
			t.Errorf("field %s: got %q, want %q", k, got[0][k], v)
		}
	}
	for k := range got[0] {
		if _, ok := want[k]; !ok {
			t.Errorf("unexpected field %q=%q", k, got[0][k])
		}
	}
}
