// Counterexample 2 to property C15.
// Drop this file in pkg/logs/ and run from the worktree root:
//   export GOFLAGS=-mod=mod GOPROXY=off GOSUMDB=off GOTOOLCHAIN=local GOCACHE=/tmp/gocache-$(basename $PWD)
//   go test -vet=off -count=1 -run TestCE2PidTextInsideValues ./pkg/logs
//
// regCleanLogs removes `(peer_|)pid=[0-9]*\s` anywhere in the (already hex
// decoded) record, not only the pid / peer_pid fields: the text `pid=<digits>`
// followed by a space inside a name, comm or info value is cut out of the value.
package logs

import (
	"encoding/hex"
	"strings"
	"testing"
)

func TestCE2PidTextInsideValues(t *testing.T) {
	hx := func(s string) string { return strings.ToUpper(hex.EncodeToString([]byte(s))) }
	name := "/srv/spool/pid=4242 old.txt" // contains a space: the kernel hex-encodes it
	comm := "pid=1 helper"                // idem
	info := "failed flags match, pid=12 ns"
	line := `type=AVC msg=audit(1700000000.200:12): apparmor="DENIED" operation="open" info="` + info +
		`" profile="backup" name=` + hx(name) + ` pid=701 comm=` + hx(comm) +
		` requested_mask="r" denied_mask="r" fsuid=1000 ouid=0` + "\n"

	got := New(strings.NewReader(line), "")
	if len(got) != 1 {
		t.Fatalf("want 1 event, got %d", len(got))
	}
	// name is in toClean, but no generalisation rule applies to this path
	if regResolveLogs.Replace(name) != name {
		t.Fatalf("test premise broken: generalisation rewrites %q", name)
	}
	for k, v := range map[string]string{"name": name, "comm": comm, "info": info, "profile": "backup"} {
		if got[0][k] != v {
			t.Errorf("field %s: got %q, want %q", k, got[0][k], v)
		}
	}
}
