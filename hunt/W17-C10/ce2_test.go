// Counterexample 2 for C10 (merging never changes what the rules grant or deny).
//
// Drop this file in pkg/aa/ and run, from the worktree root:
//
//	export GOFLAGS=-mod=mod GOPROXY=off GOSUMDB=off GOTOOLCHAIN=local
//	go test -vet=off -count=1 -run TestCE2 ./pkg/aa/
//
// Rlimit.Compare (repair 2958df7) compares the values by the decimal number
// they start with: `010` and `10` compare equal, so Rules.Merge deletes one of
// two rules that are not identical. AppArmor reads 010 as octal (8): the two
// rules set different limits.
package aa

import "testing"

func TestCE2_RlimitLeadingZero(t *testing.T) {
	// From text
	in := "  set rlimit nofile <= 010,\n  set rlimit nofile <= 10,\n\n"
	para, _, err := ParseRules(in)
	if err != nil {
		t.Fatal(err)
	}
	rules := para.Flatten()
	if len(rules) != 2 {
		t.Fatalf("want 2 parsed rules, got %d", len(rules))
	}
	if err := rules.Validate(); err != nil {
		t.Fatal(err)
	}
	if rules[0].String() == rules[1].String() {
		t.Fatalf("the two rules are printed alike: %s", rules[0])
	}
	if rules[0].Compare(rules[1]) == 0 {
		t.Errorf("Compare(%q, %q) == 0: not identical rules", rules[0], rules[1])
	}
	merged := rules.Merge()
	if len(merged) != 2 {
		t.Errorf("Merge kept %d of 2 different rules: %s", len(merged), merged.String())
	}

	// From structs, both orders: the rule that survives depends on the order
	for _, values := range [][2]string{{"010", "10"}, {"10", "010"}, {"-05", "-5"}, {"00", "0"}} {
		list := Rules{
			&Rlimit{Key: "nofile", Op: "<=", Value: values[0]},
			&Rlimit{Key: "nofile", Op: "<=", Value: values[1]},
		}
		if got := list.Merge(); len(got) != 2 {
			t.Errorf("values %v: Merge kept %d of 2 non-identical rules: %s", values, len(got), got.String())
		}
	}
}
