// Counterexample 3 for C10 (merging never changes what the rules grant or deny).
//
// Drop this file in pkg/aa/ and run, from the worktree root:
//
//	export GOFLAGS=-mod=mod GOPROXY=off GOSUMDB=off GOTOOLCHAIN=local
//	go test -vet=off -count=1 -run TestCE3 ./pkg/aa/
//
// A rule continued on the next line whose first line ends with a blank (space
// or tab before the line break): the line break becomes an empty token, the
// fields read by position move by one and the last one is lost. Rules that
// differ only in that field become identical and Merge deletes one.
package aa

import (
	"strings"
	"testing"
)

func TestCE3_BlankBeforeLineBreak(t *testing.T) {
	for _, c := range []struct {
		in   string
		want []string
	}{
		{"  mount options=(rw, bind) /a/ -> \n        /b/,\n  mount options=(rw, bind) /a/ -> \n        /c/,\n\n", []string{"/b/", "/c/"}},
		{"  network inet \n          stream,\n  network inet \n          dgram,\n\n", []string{"stream", "dgram"}},
		{"  umount options=ro \n     /m/,\n  umount options=ro \n     /n/,\n\n", []string{"/m/", "/n/"}},
		{"  pivot_root oldroot=/o/ /n/ -> \n     p,\n  pivot_root oldroot=/o/ /n/ -> \n     q,\n\n", []string{"-> p", "-> q"}},
	} {
		para, _, err := ParseRules(c.in)
		if err != nil {
			t.Fatalf("ParseRules(%q): %v", c.in, err)
		}
		rules := para.Flatten()
		if len(rules) != 2 {
			t.Fatalf("want 2 parsed rules, got %d", len(rules))
		}
		if err := rules.Validate(); err != nil {
			t.Fatalf("Validate: %v", err)
		}
		merged := rules.Merge()
		out := merged.String()
		if len(merged) != 2 {
			t.Errorf("Merge kept %d of 2 different rules:\n%s-->\n%s", len(merged), c.in, out)
		}
		for _, want := range c.want {
			if !strings.Contains(out, want) {
				t.Errorf("%q is gone from the merged rules:\n%s", want, out)
			}
		}
	}
}
