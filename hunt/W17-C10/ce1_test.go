// Counterexample 1 for C10 (merging never changes what the rules grant or deny).
//
// Drop this file in pkg/aa/ and run, from the worktree root:
//
//	export GOFLAGS=-mod=mod GOPROXY=off GOSUMDB=off GOTOOLCHAIN=local
//	go test -vet=off -count=1 -run TestCE1 ./pkg/aa/
//
// Two mount rules written with the `options in (...)` (or `fstype in (...)`)
// operator, for two different mount points, are read as the same rule
// (`mount options,`) and Rules.Merge deletes one of them as a duplicate.
package aa

import (
	"strings"
	"testing"
)

func TestCE1_MountOptionsInCollapse(t *testing.T) {
	for _, in := range []string{
		"  mount options in (rw, bind) -> /a/,\n  mount options in (ro) -> /b/,\n\n",
		"  mount fstype in (ext3, ext4) /dev/x -> /a/,\n  mount fstype in (tmpfs) none -> /b/,\n\n",
		"  remount options in (ro) /a/,\n  remount options in (rw) /b/,\n\n",
	} {
		para, _, err := ParseRules(in)
		if err != nil {
			t.Fatalf("ParseRules(%q): %v", in, err)
		}
		rules := para.Flatten()
		if len(rules) != 2 {
			t.Fatalf("want 2 parsed rules, got %d", len(rules))
		}
		if err := rules.Validate(); err != nil {
			t.Fatalf("Validate: %v", err)
		}
		if rules[0].Compare(rules[1]) == 0 {
			t.Errorf("Compare == 0 for two different rules of\n%s", in)
		}
		merged := rules.Merge()
		out := merged.String()
		if len(merged) != 2 {
			t.Errorf("Merge kept %d of 2 different rules:\n%s-->\n%s", len(merged), in, out)
		}
		for _, want := range []string{"/a/", "/b/"} {
			if !strings.Contains(out, want) {
				t.Errorf("mount point %s is gone from the merged rules:\n%s", want, out)
			}
		}
	}
}
