// Counterexample 3 to property C12 -- a file rule printed from a "link" record carries a
// `-> target` the reference parser does not read.
//
// Drop this file in:  pkg/aa/   (package aa)
// Run from the worktree root:
//   export GOFLAGS=-mod=mod GOPROXY=off GOSUMDB=off GOTOOLCHAIN=local GOCACHE=/tmp/gocache-$(basename $PWD)
//   go test -vet=off -count=1 -run TestCE3 ./pkg/aa
//
// The record is the shape of tests/testdata/logs/audit.log line 37 (operation="link",
// requested_mask="k", target=...: the kernel's "link subset" test failed on the lock
// permission). newFileFromLog only makes a link rule when the mask is exactly "l"; for any
// other mask it makes a File rule that keeps Target, and file.j2 prints
//     owner /tmp/agent_config.CmJRGE k -> /tmp/#3029891,
// apparmor_parser 3.0.8 accepts the text but a `->` target only has a meaning on an exec
// transition (and on `link` rules): the compiled matching automaton is byte for byte the one
// of `owner /tmp/agent_config.CmJRGE k,`. The rule's fields state a target, the parser reads none.
//
// FAILS on the unmodified tree.
package aa

import (
	"os"
	"os/exec"
	"path/filepath"
	"slices"
	"strings"
	"testing"
)

// ce3DFA returns the matching automaton the reference parser builds for a profile body.
func ce3DFA(t *testing.T, body string) string {
	t.Helper()
	bin := "/usr/sbin/apparmor_parser"
	if _, err := os.Stat(bin); err != nil {
		t.Skip("apparmor_parser not installed")
	}
	dir := t.TempDir()
	file := filepath.Join(dir, "p.aa")
	text := "abi <abi/3.0>,\nprofile ce3 {\n  " + body + "\n}\n"
	if err := os.WriteFile(file, []byte(text), 0o600); err != nil {
		t.Fatal(err)
	}
	out, err := exec.Command(bin, "-Q", "-K",
		"--policy-features", "/etc/apparmor.d/abi/3.0",
		"--kernel-features", "/etc/apparmor.d/abi/3.0", "-D", "dfa-states", file,
	).CombinedOutput()
	if err != nil {
		t.Fatalf("%q rejected by apparmor_parser: %s", body, out)
	}
	return string(out)
}

func TestCE3TargetOnNonExecFileRule(t *testing.T) {
	log := map[string]string{
		"apparmor": "ALLOWED", "operation": "link", "class": "file",
		"profile": "akonadi_maildispatcher_agent",
		"name":    "/tmp/agent_config.CmJRGE", "target": "/tmp/#3029891",
		"comm": "akonadi_maildis", "requested_mask": "k", "denied_mask": "k",
		"fsuid": "1000", "ouid": "1000",
	}
	p := &Profile{Header: Header{Name: log["profile"]}}
	p.AddRule(log)
	if len(p.Rules) != 1 {
		t.Fatalf("no rule generated")
	}
	text := p.Rules[0].String()
	t.Logf("printed: %s", text)

	file, isFile := p.Rules[0].(*File)
	if !isFile || file.Target == "" {
		return // A link rule, or no target stated: nothing to compare
	}
	for _, access := range file.Access {
		if slices.Contains(requirements[FILE]["transition"], access) {
			return // An exec transition: the target is read
		}
	}

	// Sanity of the oracle: on rules where the target has a meaning the automaton depends on it
	if ce3DFA(t, "link /tmp/a -> /tmp/b,") == ce3DFA(t, "link /tmp/a -> /tmp/c,") {
		t.Fatal("oracle: the automaton does not depend on a link target")
	}
	if ce3DFA(t, "/tmp/a px -> foo,") == ce3DFA(t, "/tmp/a px,") {
		t.Fatal("oracle: the automaton does not depend on an exec target")
	}

	withTarget := ce3DFA(t, text)
	noTarget := *file
	noTarget.Target = ""
	withoutTarget := ce3DFA(t, noTarget.String())
	if withTarget == withoutTarget {
		t.Errorf("the rule states Target=%q and is printed as\n    %s\nbut apparmor_parser builds exactly the automaton of\n    %s\n(the target is not read)",
			file.Target, text, strings.TrimSpace(noTarget.String()))
	}
}
