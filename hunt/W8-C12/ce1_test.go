// Counterexample 1 to property C12 -- a logged path that ends in a comma is printed bare.
//
// Drop this file in:  pkg/aa/   (package aa)
// Run from the worktree root:
//   export GOFLAGS=-mod=mod GOPROXY=off GOSUMDB=off GOTOOLCHAIN=local GOCACHE=/tmp/gocache-$(basename $PWD)
//   go test -vet=off -count=1 -run TestCE1 ./pkg/aa
//
// FAILS on the unmodified tree: every rule below is rejected by apparmor_parser 3.0.8
// ("syntax error, unexpected TOK_END_OF_RULE ..."), because quoteAARE (pkg/aa/file.go)
// only quotes a name that holds a blank, a tab or '!', while the AppArmor lexer also ends
// a bare word at a ',' that is followed by a blank: "/tmp/a, r," is lexed as the path
// "/tmp/a", the end of the rule, and garbage.
package aa

import (
	"os"
	"os/exec"
	"path/filepath"
	"strings"
	"testing"
)

func ce1Parser(t *testing.T, body string) (bool, string) {
	t.Helper()
	bin := "/usr/sbin/apparmor_parser"
	if _, err := os.Stat(bin); err != nil {
		t.Skip("apparmor_parser not installed")
	}
	file := filepath.Join(t.TempDir(), "p.aa")
	text := "abi <abi/3.0>,\nprofile ce1 {\n" + body + "\n}\n"
	if err := os.WriteFile(file, []byte(text), 0o600); err != nil {
		t.Fatal(err)
	}
	out, err := exec.Command(bin, "-Q", "-K",
		"--policy-features", "/etc/apparmor.d/abi/3.0",
		"--kernel-features", "/etc/apparmor.d/abi/3.0", file,
	).CombinedOutput()
	return err == nil, string(out)
}

func TestCE1TrailingCommaInLoggedPath(t *testing.T) {
	logs := []map[string]string{
		{ // open("/tmp/a,")
			"apparmor": "DENIED", "operation": "open", "class": "file", "profile": "foo",
			"name": "/tmp/a,", "comm": "cat", "requested_mask": "r", "denied_mask": "r",
			"fsuid": "0", "ouid": "0",
		},
		{ // link("/tmp/t,", "/tmp/l,")
			"apparmor": "DENIED", "operation": "link", "class": "file", "profile": "foo",
			"name": "/tmp/l,", "target": "/tmp/t,", "comm": "ln", "requested_mask": "l",
			"denied_mask": "l", "fsuid": "0", "ouid": "0",
		},
		{ // mount /dev/sda1 on "/mnt/a,"
			"apparmor": "DENIED", "operation": "mount", "class": "mount", "profile": "foo",
			"name": "/mnt/a,", "srcname": "/dev/sda1", "fstype": "ext4", "flags": "rw",
			"comm": "mount",
		},
		{ // umount "/mnt/a,"
			"apparmor": "DENIED", "operation": "umount", "class": "mount", "profile": "foo",
			"name": "/mnt/a,", "comm": "umount",
		},
	}
	for _, log := range logs {
		p := &Profile{Header: Header{Name: "foo"}}
		p.AddRule(log)
		if len(p.Rules) != 1 {
			t.Fatalf("no rule generated for %v", log)
		}
		text := p.Rules[0].String()
		// A bare word must not end in a comma: the lexer reads it as the end of the rule
		for _, field := range strings.Fields(strings.TrimSuffix(text, ",")) {
			if strings.HasSuffix(field, ",") && !strings.HasPrefix(field, "\"") &&
				!strings.HasSuffix(field, "\\,") {
				t.Errorf("%s (%s): printed %q: the word %q ends in a bare comma",
					log["operation"], log["name"], text, field)
			}
		}
		if ok, out := ce1Parser(t, "  "+text); !ok {
			t.Errorf("%s (%s): printed %q: rejected by apparmor_parser: %s",
				log["operation"], log["name"], text, strings.TrimSpace(out))
		}
	}

	// Reference: the spelling the parser does accept for the same file
	if ok, out := ce1Parser(t, `  "/tmp/a," r,`); !ok {
		t.Fatalf("reference spelling rejected: %s", out)
	}
}
