// Counterexample 2 to property C12 -- the exec directive prints a quoted variable value
// in the middle of a path.
//
// Drop this file in:  pkg/prebuild/directive/   (package directive)
// Run from the worktree root:
//   export GOFLAGS=-mod=mod GOPROXY=off GOSUMDB=off GOTOOLCHAIN=local GOCACHE=/tmp/gocache-$(basename $PWD)
//   go test -vet=off -count=1 -run TestCE2 ./pkg/prebuild/directive
//
// FAILS on the unmodified tree: for a target profile whose @{exec_path} is built from a
// variable holding a quoted value with a blank (the spelling the shipped profiles use, see
// apparmor.d/profiles-m-r/protonmail: `@{name} = proton-mail "Proton Mail"`,
// `@{lib_dirs} = /opt/@{name}`), `#aa:exec myapp` generates
//     "/opt/My App"/bin/app Px,
// which apparmor_parser rejects, while the target profile itself (attachment and
// `@{exec_path} mr,`) is accepted and read as /opt/My App/bin/app.
package directive

import (
	"os"
	"os/exec"
	"path/filepath"
	"strings"
	"testing"

	"github.com/roddhjav/apparmor.d/pkg/paths"
	"github.com/roddhjav/apparmor.d/pkg/prebuild"
)

func ce2Parser(t *testing.T, text string) (bool, string) {
	t.Helper()
	bin := "/usr/sbin/apparmor_parser"
	if _, err := os.Stat(bin); err != nil {
		t.Skip("apparmor_parser not installed")
	}
	file := filepath.Join(t.TempDir(), "p.aa")
	if err := os.WriteFile(file, []byte(text), 0o600); err != nil {
		t.Fatal(err)
	}
	out, err := exec.Command(bin, "-Q", "-K",
		"--policy-features", "/etc/apparmor.d/abi/3.0",
		"--kernel-features", "/etc/apparmor.d/abi/3.0", file,
	).CombinedOutput()
	return err == nil, string(out)
}

func TestCE2ExecDirectiveQuotedVariable(t *testing.T) {
	target := `abi <abi/3.0>,

@{appdir} = "/opt/My App"

@{exec_path} = @{appdir}/bin/app
profile myapp @{exec_path} {
  @{exec_path} mr,
}
`
	// The target profile is fine for the reference parser
	if ok, out := ce2Parser(t, target); !ok {
		t.Fatalf("the target profile itself is rejected: %s", out)
	}

	root := t.TempDir()
	if err := os.WriteFile(filepath.Join(root, "myapp"), []byte(target), 0o600); err != nil {
		t.Fatal(err)
	}
	old := prebuild.RootApparmord
	defer func() { prebuild.RootApparmord = old }()
	prebuild.RootApparmord = paths.New(root)

	got, err := Run(nil, "  #aa:exec myapp")
	if err != nil {
		t.Fatal(err)
	}
	t.Logf("generated: %q", got)

	// A quoted string must be a whole word: `"..."/bin/app` is not one
	if strings.Contains(got, `"/`) && !strings.HasPrefix(strings.TrimSpace(got), `"/opt/My App/bin/app"`) {
		t.Errorf("generated rule %q: the quotes of the variable value end in the middle of the path", got)
	}
	caller := "abi <abi/3.0>,\nprofile caller {\n" + got + "\n}\n"
	if ok, out := ce2Parser(t, caller); !ok {
		t.Errorf("generated rule %q rejected by apparmor_parser: %s", got, strings.TrimSpace(out))
	}

	// Reference: what the rule has to look like
	ref := "abi <abi/3.0>,\nprofile caller {\n  \"/opt/My App/bin/app\" Px,\n}\n"
	if ok, out := ce2Parser(t, ref); !ok {
		t.Fatalf("reference spelling rejected: %s", out)
	}
}
