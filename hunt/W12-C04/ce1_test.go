// C04 counterexample 1 -- SHIPPED TREE.
// setflags rewrites text that is not a profile header: a commented-out
// sub-profile in apparmor.d/groups/virt/virtiofsd.
//
// Drop in: pkg/prebuild/prepare/ce1_test.go
// Run    : go test -p 1 -vet=off -count=1 -run TestCE1 ./pkg/prebuild/prepare/
// Fails on the unmodified tree with:
//   virtiofsd:60 is not a header but was rewritten:
//     src "  # profile pivoted {"
//     out "  # profile pivoted flags=(complain,attach_disconnected) {"

package prepare

import (
	"os"
	"path/filepath"
	"strings"
	"testing"

	"github.com/roddhjav/apparmor.d/pkg/prebuild"
)

func TestCE1_SetFlagsOnlyTouchesHeaders(t *testing.T) {
	chdirGitRoot()
	oldD, oldA, oldV := prebuild.Distribution, prebuild.ABI, prebuild.Version
	defer func() { prebuild.Distribution, prebuild.ABI, prebuild.Version = oldD, oldA, oldV }()
	prebuild.Distribution, prebuild.ABI, prebuild.Version = "arch", 4, 4.1

	for _, n := range []string{"synchronise", "ignore", "merge", "configure", "setflags"} {
		if _, err := Tasks[n].Apply(); err != nil {
			t.Fatalf("%s: %v", n, err)
		}
	}

	for _, manifest := range []string{"main", "arch"} {
		for name := range prebuild.Flags.Read(manifest) {
			out := prebuild.RootApparmord.Join(name).String()
			if _, err := os.Stat(out); err != nil {
				continue // ignored on this distribution / only in --full
			}
			// the source file: groups/<g>/<name> or profiles-x-y/<name>
			cands, _ := filepath.Glob("apparmor.d/groups/*/" + name)
			more, _ := filepath.Glob("apparmor.d/profiles-*-*/" + name)
			cands = append(cands, more...)
			if len(cands) != 1 {
				t.Fatalf("%s: %d sources", name, len(cands))
			}
			a, _ := os.ReadFile(cands[0])
			b, _ := os.ReadFile(out)
			src := strings.Split(string(a), "\n")
			got := strings.Split(string(b), "\n")
			if len(src) != len(got) {
				t.Errorf("%s: %d lines became %d", name, len(src), len(got))
				continue
			}
			for i := range src {
				if src[i] == got[i] {
					continue
				}
				l := strings.TrimSpace(src[i])
				if strings.HasPrefix(l, "profile ") || strings.HasPrefix(l, "hat ") || strings.HasPrefix(l, "^") {
					continue // a header: the manifest may rewrite its flags
				}
				t.Errorf("%s:%d is not a header but was rewritten:\n  src %q\n  out %q", name, i+1, src[i], got[i])
			}
		}
	}
}
