// C04 counterexample 2 -- generated input (a source tree with one more profile).
// merge silently deletes source profiles: its clean-up globs ("profiles-*",
// "groups") are wider than its move globs ("profiles-*-*/*", "groups/*/*"),
// and the clean-up runs on the flat directory the profiles were just moved to.
//
// Drop in: pkg/prebuild/prepare/ce2_test.go
// Run    : go test -p 1 -vet=off -count=1 -run TestCE2 ./pkg/prebuild/prepare/
// Fails on the unmodified tree with:
//   LOST: profiles-daemon (source apparmor.d/profiles-m-r/profiles-daemon)
//   LOST: profiles-x (source apparmor.d/groups/g/profiles-x)
//   LOST: p1 (source apparmor.d/profiles-extra/p1)
//   LOST: stray (source apparmor.d/groups/stray)
// and no task returned an error.

package prepare

import (
	"os"
	"path/filepath"
	"testing"

	"github.com/roddhjav/apparmor.d/pkg/prebuild"
)

func ce2Tree(t *testing.T, files map[string]string) {
	t.Helper()
	orig, _ := os.Getwd()
	oldD, oldA, oldV := prebuild.Distribution, prebuild.ABI, prebuild.Version
	t.Cleanup(func() {
		_ = os.Chdir(orig)
		prebuild.Distribution, prebuild.ABI, prebuild.Version = oldD, oldA, oldV
	})
	dir := t.TempDir()
	base := map[string]string{
		"share/x":                   "x\n",
		"dists/ignore/main.ignore":  "",
		"dists/ignore/arch.ignore":  "",
		"dists/flags/main.flags":    "",
		"dists/flags/arch.flags":    "",
		"dists/overwrite":           "",
		"apparmor.d/abstractions/a": "# a\n",
		"apparmor.d/tunables/t":     "# t\n",
	}
	for k, v := range files {
		base[k] = v
	}
	for k, v := range base {
		p := filepath.Join(dir, k)
		if err := os.MkdirAll(filepath.Dir(p), 0o755); err != nil {
			t.Fatal(err)
		}
		if err := os.WriteFile(p, []byte(v), 0o644); err != nil {
			t.Fatal(err)
		}
	}
	if err := os.Chdir(dir); err != nil {
		t.Fatal(err)
	}
	prebuild.Distribution, prebuild.ABI, prebuild.Version = "arch", 4, 4.0
}

func TestCE2_MergeKeepsEveryProfile(t *testing.T) {
	const prof = "profile x {\n}\n"
	src := map[string]string{
		"apparmor.d/profiles-m-r/ok":              "ok",              // control
		"apparmor.d/profiles-m-r/profiles-daemon": "profiles-daemon", // a profile whose name starts with "profiles-"
		"apparmor.d/groups/g/profiles-x":          "profiles-x",      // the same, from a group
		"apparmor.d/profiles-extra/p1":            "p1",              // a directory "profiles-*" without the second dash
		"apparmor.d/groups/stray":                 "stray",           // a profile put directly under groups/
	}
	files := map[string]string{}
	for k := range src {
		files[k] = prof
	}
	ce2Tree(t, files)

	for _, n := range []string{"synchronise", "ignore", "merge", "configure", "setflags", "overwrite"} {
		if _, err := Tasks[n].Apply(); err != nil {
			t.Fatalf("%s: %v", n, err) // none fails: the loss is silent
		}
	}
	for from, name := range src {
		found := false
		_ = filepath.Walk(prebuild.RootApparmord.String(), func(p string, info os.FileInfo, err error) error {
			if err == nil && !info.IsDir() && filepath.Base(p) == name {
				found = true
			}
			return nil
		})
		if !found {
			t.Errorf("LOST: %s (source %s)", name, from)
		}
	}
}
