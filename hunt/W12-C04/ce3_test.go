// C04 counterexample 3 -- generated input (an ignore manifest with blanks).
// An ignore entry that carries a trailing blank/tab, a leading blank, or that
// ends a file written with CR line ends is kept verbatim by the manifest reader
// and matches nothing: the "ignored" profiles and group ship, no error, no warning.
// (The same reader does strip blanks in front of an inline comment:
// "chronyd   # own package" works, "chronyd " does not.)
//
// Drop in: pkg/prebuild/prepare/ce3_test.go
// Run    : go test -p 1 -vet=off -count=1 -run TestCE3 ./pkg/prebuild/prepare/
// Fails on the unmodified tree with:
//   LEAK: chronyd is on the ignore list (as "chronyd ") and ships
//   LEAK: dunst is on the ignore list (as "  dunst") and ships
//   LEAK: apt is on the ignore list (as "apparmor.d/groups/apt\t") and ships

package prepare

import (
	"os"
	"path/filepath"
	"testing"

	"github.com/roddhjav/apparmor.d/pkg/prebuild"
)

func ce3Tree(t *testing.T, files map[string]string) {
	t.Helper()
	orig, _ := os.Getwd()
	oldD, oldA, oldV := prebuild.Distribution, prebuild.ABI, prebuild.Version
	t.Cleanup(func() {
		_ = os.Chdir(orig)
		prebuild.Distribution, prebuild.ABI, prebuild.Version = oldD, oldA, oldV
	})
	dir := t.TempDir()
	base := map[string]string{
		"share/x":                   "x\n",
		"dists/ignore/main.ignore":  "",
		"dists/ignore/arch.ignore":  "",
		"dists/flags/main.flags":    "",
		"dists/flags/arch.flags":    "",
		"dists/overwrite":           "",
		"apparmor.d/abstractions/a": "# a\n",
		"apparmor.d/tunables/t":     "# t\n",
	}
	for k, v := range files {
		base[k] = v
	}
	for k, v := range base {
		p := filepath.Join(dir, k)
		if err := os.MkdirAll(filepath.Dir(p), 0o755); err != nil {
			t.Fatal(err)
		}
		if err := os.WriteFile(p, []byte(v), 0o644); err != nil {
			t.Fatal(err)
		}
	}
	if err := os.Chdir(dir); err != nil {
		t.Fatal(err)
	}
	prebuild.Distribution, prebuild.ABI, prebuild.Version = "arch", 4, 4.0
}

func TestCE3_IgnoreEntriesWithBlanks(t *testing.T) {
	const prof = "profile x {\n}\n"
	ce3Tree(t, map[string]string{
		"dists/ignore/main.ignore": "# Provided by other packages\n" +
			"chronyd \n" + // trailing blank
			"  dunst\n" + // leading blanks
			"apparmor.d/groups/apt\t\n" + // trailing tab
			"man   # inline comment: this one works\n",
		"apparmor.d/profiles-a-f/chronyd": prof,
		"apparmor.d/profiles-a-f/dunst":   prof,
		"apparmor.d/profiles-m-r/man":     prof,
		"apparmor.d/groups/apt/apt":       prof,
		"apparmor.d/profiles-m-r/ok":      prof,
	})
	for _, n := range []string{"synchronise", "ignore", "merge", "configure", "setflags", "overwrite"} {
		if _, err := Tasks[n].Apply(); err != nil {
			t.Fatalf("%s: %v", n, err)
		}
	}
	if prebuild.RootApparmord.Join("ok").NotExist() {
		t.Fatalf("control profile missing")
	}
	if prebuild.RootApparmord.Join("man").Exist() {
		t.Errorf("control: man should be ignored")
	}
	for name, entry := range map[string]string{
		"chronyd": "chronyd ",
		"dunst":   "  dunst",
		"apt":     "apparmor.d/groups/apt\t",
	} {
		if prebuild.RootApparmord.Join(name).Exist() {
			t.Errorf("LEAK: %s is on the ignore list (as %q) and ships", name, entry)
		}
	}
}
