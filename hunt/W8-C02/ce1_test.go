// Counterexample 1 for property C02 (order dependence through the build directory).
//
// Drop this file in:  pkg/prebuild/cli/
// Run from the worktree root:
//   export GOFLAGS=-mod=mod GOPROXY=off GOSUMDB=off GOTOOLCHAIN=local GOCACHE=/tmp/gocache-$(basename $PWD)
//   go test -p 1 -vet=off -count=1 -run 'TestCE1' ./pkg/prebuild/cli/
//
// cli.Build() rewrites every file of the build directory in place, in sorted
// order, and the stack / exec directives read the profile they name from that
// same directory. A profile visited before the profile it names reads the
// source text; a profile visited after it reads the text already rewritten by
// the builders and the directives. Two byte-identical profiles, naming the same
// profile, built with the same configuration, get different text.

package cli

import (
	"os"
	"testing"

	"github.com/roddhjav/apparmor.d/pkg/paths"
	"github.com/roddhjav/apparmor.d/pkg/prebuild"
	"github.com/roddhjav/apparmor.d/pkg/prebuild/builder"
)

func ce1Build(t *testing.T, dist string, builders []string, files map[string]string) map[string]string {
	t.Helper()
	oldRoot, oldAa, oldBuilds := prebuild.Root, prebuild.RootApparmord, builder.Builds
	oldDist, oldFamily := prebuild.Distribution, prebuild.Family
	defer func() {
		prebuild.Root, prebuild.RootApparmord, builder.Builds = oldRoot, oldAa, oldBuilds
		prebuild.Distribution, prebuild.Family = oldDist, oldFamily
	}()

	prebuild.Root = paths.New(t.TempDir())
	prebuild.RootApparmord = prebuild.Root.Join("apparmor.d")
	prebuild.Distribution, prebuild.Family = dist, "pacman"
	builder.Builds = nil
	builder.Register(builders...) // the default builders of cmd/prebuild/main.go
	if err := prebuild.RootApparmord.MkdirAll(); err != nil {
		t.Fatal(err)
	}
	for name, content := range files {
		if err := prebuild.RootApparmord.Join(name).WriteFile([]byte(content)); err != nil {
			t.Fatal(err)
		}
	}
	// Keep the console quiet
	stdout := os.Stdout
	os.Stdout, _ = os.Open(os.DevNull)
	err := Build()
	os.Stdout = stdout
	if err != nil {
		t.Fatal(err)
	}
	res := map[string]string{}
	for name := range files {
		res[name] = prebuild.RootApparmord.Join(name).MustReadFileAsString()
	}
	return res
}

// Stack: the same profile text, once sorted before and once after the profile it stacks.
func TestCE1_StackReadsBuiltOrUnbuiltProfile(t *testing.T) {
	const app = `abi <abi/4.0>,

include <tunables/global>

@{exec_path} = @{bin}/app
profile app @{exec_path} {
  include <abstractions/base>

  @{exec_path} mr,

  #aa:stack X m-helper
  @{bin}/m-helper rPx -> app//&m-helper,

  include if exists <local/app>
}
`
	const helper = `abi <abi/4.0>,

include <tunables/global>

@{exec_path} = @{bin}/m-helper
profile m-helper @{exec_path} {
  include <abstractions/base>

  @{exec_path} mr,

  @{bin}/xdg-mime Px,

  include if exists <local/m-helper>
}
`
	got := ce1Build(t, "arch", []string{"userspace", "hotfix"}, map[string]string{
		"a-app":    app, // visited before m-helper
		"m-helper": helper,
		"z-app":    app, // visited after m-helper
	})
	if got["a-app"] != got["z-app"] {
		t.Errorf("two byte-identical profiles stacking the same profile, same configuration, same process:\n"+
			"--- built as a-app (before m-helper) ---\n%s\n--- built as z-app (after m-helper) ---\n%s",
			got["a-app"], got["z-app"])
	}
}

// Exec: the rules generated for a target depend on whether the target has
// already gone through its own directives.
func TestCE1_ExecReadsBuiltOrUnbuiltTarget(t *testing.T) {
	const caller = `abi <abi/4.0>,

include <tunables/global>

@{exec_path} = @{bin}/caller
profile caller @{exec_path} {
  include <abstractions/base>

  @{exec_path} mr,

  #aa:exec m-target

  include if exists <local/caller>
}
`
	const target = `abi <abi/4.0>,

include <tunables/global>

@{exec_path} = @{bin}/m-target
#aa:only opensuse
@{exec_path} += @{lib}/m-target

profile m-target @{exec_path} {
  include <abstractions/base>

  @{exec_path} mr,

  include if exists <local/m-target>
}
`
	got := ce1Build(t, "arch", []string{"hotfix"}, map[string]string{
		"a-caller": caller, // visited before m-target
		"m-target": target,
		"z-caller": caller, // visited after m-target
	})
	if got["a-caller"] != got["z-caller"] {
		t.Errorf("two byte-identical profiles with the same exec directive, same configuration, same process:\n"+
			"--- built as a-caller (before m-target) ---\n%s\n--- built as z-caller (after m-target) ---\n%s",
			got["a-caller"], got["z-caller"])
	}
}
