// Counterexample 2 for property C02 (map iteration order chooses the configuration).
//
// Drop this file in:  pkg/prebuild/
// Run from the worktree root:
//   export GOFLAGS=-mod=mod GOPROXY=off GOSUMDB=off GOTOOLCHAIN=local GOCACHE=/tmp/gocache-$(basename $PWD)
//   go test -p 1 -vet=off -count=1 -run 'TestCE2' ./pkg/prebuild/
//
// Without $DISTRIBUTION the target distribution (which selects the ignore and
// flags files, the configure task, the only/exclude filters and the ABI matrix
// of cmd/prebuild) is derived from os-release by ranging over the map
// supportedDists and returning on the first entry that matches ID *or* ID_LIKE.
// For a derivative that is itself a supported target and names another
// supported target in ID_LIKE, two entries match, and the Go map iteration
// start decides which one is returned: the same host, tree and command line
// build for a different distribution from one run to the next.

package prebuild

import (
	"os"
	"testing"

	"github.com/roddhjav/apparmor.d/pkg/paths"
)

func TestCE2_DistributionDependsOnMapOrder(t *testing.T) {
	const osReleaseWhonix = `PRETTY_NAME="Whonix"
NAME="Whonix"
ID=whonix
ID_LIKE=debian
VERSION_CODENAME=bookworm`

	if dist, present := os.LookupEnv("DISTRIBUTION"); present {
		os.Unsetenv("DISTRIBUTION")
		defer os.Setenv("DISTRIBUTION", dist)
	}
	oldFile, oldRelease := osReleaseFile, Release
	defer func() { osReleaseFile, Release = oldFile, oldRelease }()

	osReleaseFile = paths.New(t.TempDir()).Join("os-release").String()
	if err := paths.New(osReleaseFile).WriteFile([]byte(osReleaseWhonix)); err != nil {
		t.Fatal(err)
	}
	Release = getOSRelease()

	seen := map[string]int{}
	for i := 0; i < 200; i++ { // each call starts the map iteration somewhere else, like each run of prebuild
		seen[getDistribution()]++
	}
	if len(seen) != 1 {
		t.Errorf("same os-release, getDistribution() returned %v over 200 calls; one single answer is required", seen)
	}
}
