#!/bin/sh
# Counterexample 3 for property C02 (an earlier run shows through a --file run).
#
# Run from the worktree root:   sh .seed/ce3.sh
# Exits 1 (FAIL) on the unmodified tree, 0 when the two build directories are identical.
#
# `prebuild --file F` narrows Synchronise.Paths to [F]; Synchronise.Apply then
# wipes .build/systemd, .build/apparmor.d and .build/F only. .build/share, which
# every normal run creates, is neither wiped nor repopulated: the build
# directory after the same command on the same tree depends on the run before.

export GOFLAGS=-mod=mod GOPROXY=off GOSUMDB=off GOTOOLCHAIN=local GOCACHE=/tmp/gocache-$(basename $PWD)
export DISTRIBUTION=arch
set -e
bin=$(mktemp -d)/prebuild
go build -o "$bin" ./cmd/prebuild
profile=apparmor.d/groups/apparmor/aa-log
listing() { (cd .build && find . \( -type f -o -type l \) | sort | while read -r f; do
	printf '%s ' "$f"; if [ -L "$f" ]; then readlink "$f"; else sha256sum < "$f"; fi; done); }

# History A: nothing in the build directory
rm -rf .build
"$bin" --abi 4 --version 4.1 --complain --file $profile >/dev/null
listing > /tmp/ce3.clean

# History B: a normal run came first; a file of that era is still in .build/share
rm -rf .build
"$bin" --abi 4 --version 4.1 >/dev/null
echo "left by an earlier run" > .build/share/stale
"$bin" --abi 4 --version 4.1 --complain --file $profile >/dev/null
listing > /tmp/ce3.after

git checkout debian/apparmor.d.hide 2>/dev/null || true
if cmp -s /tmp/ce3.clean /tmp/ce3.after; then
	echo "PASS: same build directory"; exit 0
fi
echo "FAIL: same tree, same command, different build directory:"
diff /tmp/ce3.clean /tmp/ce3.after | head -20
exit 1
