// Counterexample 2 for property C12.
//
// Drop this file in:   pkg/logs/
// Run with:            go test -p 1 -vet=off -count=1 -run TestCE2 ./pkg/logs
//
// change_profile / change_hat records carry class="file" (the kernel audits them
// through aa_audit_file) and no requested_mask. Only operation="change_onexec"
// is routed to the change_profile rule: the two others become a file rule made
// of the profile name and no access, printed `target-prof ,`, which the parser
// rejects (and which is not the change_profile rule the record asks for).
package logs

import (
	"os"
	"os/exec"
	"path/filepath"
	"strings"
	"testing"
)

func ce2Parser(t *testing.T, text string) (string, error) {
	t.Helper()
	parser := "/usr/sbin/apparmor_parser"
	if _, err := os.Stat(parser); err != nil {
		return "", nil
	}
	file := filepath.Join(t.TempDir(), "p.aa")
	if err := os.WriteFile(file, []byte(text), 0o600); err != nil {
		t.Fatal(err)
	}
	out, err := exec.Command(parser, "-Q", "-K",
		"--policy-features", "/etc/apparmor.d/abi/3.0",
		"--kernel-features", "/etc/apparmor.d/abi/3.0", file).CombinedOutput()
	return string(out), err
}

func TestCE2_ChangeProfileRecord(t *testing.T) {
	for name, record := range map[string]string{
		"change_profile": `type=AVC msg=audit(1111111111.111:1): apparmor="DENIED" operation="change_profile" class="file" info="label not found" error=-2 profile="cp2" name="target-prof" pid=1 comm="x"` + "\n",
		"change_profile_target": `type=AVC msg=audit(1111111111.111:2): apparmor="ALLOWED" operation="change_profile" class="file" profile="cp2" name="target-prof" pid=1 comm="x" target="target-prof"` + "\n",
	} {
		t.Run(name, func(t *testing.T) {
			profiles := New(strings.NewReader(record), "").ParseToProfiles()
			p, ok := profiles["cp2"]
			if !ok {
				t.Fatalf("no profile generated: %v", profiles)
			}
			p.Merge(nil)
			p.Sort()
			p.Format()
			text := p.String() + "\n"
			t.Logf("printed:\n%s", text)

			if !strings.Contains(text, "change_profile -> target-prof,") {
				t.Errorf("no change_profile rule to target-prof in:\n%s", text)
			}
			if out, err := ce2Parser(t, text); err != nil {
				t.Errorf("apparmor_parser rejects the printed profile: %v\n%s", err, out)
			}
		})
	}
}
