// Counterexample 3 for property C12.
//
// Drop this file in:   pkg/logs/
// Run with:            go test -p 1 -vet=off -count=1 -run TestCE3 ./pkg/logs
//
// The kernel logs the raw resource value of a refused setrlimit(). For
// RLIMIT_NICE that raw value is 1..40 (ceiling = 20 - nice), whereas the policy
// language takes a nice value -20..19 and the parser stores value+20.
// newRlimitFromLog copies the number as it is:
//   value=30 -> `set rlimit nice <= 30,`  rejected (out of range -20 .. 19)
//   value=10 -> `set rlimit nice <= 10,`  accepted, but read as kernel value 30
// (the rule that states kernel value 10 is `set rlimit nice <= -10,`).
package logs

import (
	"bytes"
	"os"
	"os/exec"
	"path/filepath"
	"strings"
	"testing"
)

const ce3Parser = "/usr/sbin/apparmor_parser"

func ce3Compile(t *testing.T, text string) ([]byte, string, error) {
	t.Helper()
	file := filepath.Join(t.TempDir(), "p.aa")
	if err := os.WriteFile(file, []byte(text), 0o600); err != nil {
		t.Fatal(err)
	}
	var stdout, stderr bytes.Buffer
	cmd := exec.Command(ce3Parser, "-Q", "-K", "-S",
		"--policy-features", "/etc/apparmor.d/abi/3.0",
		"--kernel-features", "/etc/apparmor.d/abi/3.0", file)
	cmd.Stdout, cmd.Stderr = &stdout, &stderr
	err := cmd.Run()
	return stdout.Bytes(), stderr.String(), err
}

func ce3Print(t *testing.T, value string) string {
	t.Helper()
	record := `type=AVC msg=audit(1111111111.111:1): apparmor="DENIED" operation="setrlimit" class="rlimits" profile="r1" pid=1 comm="x" rlimit=nice value=` + value + "\n"
	profiles := New(strings.NewReader(record), "").ParseToProfiles()
	p, ok := profiles["r1"]
	if !ok {
		t.Fatalf("no profile generated: %v", profiles)
	}
	p.Merge(nil)
	p.Sort()
	p.Format()
	text := p.String() + "\n"
	t.Logf("value=%s printed:\n%s", value, text)
	return text
}

func TestCE3_RlimitNiceFromLog(t *testing.T) {
	if _, err := os.Stat(ce3Parser); err != nil {
		t.Skip("reference parser not available")
	}

	// Raw value 30 (nice ceiling -10): the printed rule is rejected
	if _, stderr, err := ce3Compile(t, ce3Print(t, "30")); err != nil {
		t.Errorf("value=30: apparmor_parser rejects the printed profile: %v\n%s", err, stderr)
	}

	// Raw value 10 (nice ceiling +10): accepted, but with another limit
	got, stderr, err := ce3Compile(t, ce3Print(t, "10"))
	if err != nil {
		t.Fatalf("value=10: %v\n%s", err, stderr)
	}
	want, stderr, err := ce3Compile(t, "profile r1 {\n  set rlimit nice <= -10,\n}\n")
	if err != nil {
		t.Fatalf("reference text: %v\n%s", err, stderr)
	}
	if !bytes.Equal(got, want) {
		t.Errorf("value=10: the printed rule does not compile to the limit the record states " +
			"(kernel value 10 == `set rlimit nice <= -10,`)")
	}
}
