// Counterexample 1 for property C12 (what the library prints means the same to
// the real AppArmor parser).
//
// Drop this file in:   pkg/logs/
// Run with:            go test -p 1 -vet=off -count=1 -run TestCE1 ./pkg/logs
//
// A kernel record for a disconnected path (no attach_disconnected on the
// profile) carries the name WITHOUT its leading slash. aa-log -r prints it as a
// bare relative word (`apparmor/.null rw,`), which apparmor_parser rejects.
package logs

import (
	"os"
	"os/exec"
	"path/filepath"
	"strings"
	"testing"
)

func ce1Parser(t *testing.T, text string) (string, error) {
	t.Helper()
	parser := "/usr/sbin/apparmor_parser"
	if _, err := os.Stat(parser); err != nil {
		return "", nil // no reference parser here: only the textual check below applies
	}
	file := filepath.Join(t.TempDir(), "p.aa")
	if err := os.WriteFile(file, []byte(text), 0o600); err != nil {
		t.Fatal(err)
	}
	out, err := exec.Command(parser, "-Q", "-K",
		"--policy-features", "/etc/apparmor.d/abi/3.0",
		"--kernel-features", "/etc/apparmor.d/abi/3.0", file).CombinedOutput()
	return string(out), err
}

func TestCE1_DisconnectedPathFromLog(t *testing.T) {
	records := `type=AVC msg=audit(1111111111.111:1): apparmor="DENIED" operation="open" class="file" info="Failed name lookup - disconnected path" error=-13 profile="foo" name="apparmor/.null" pid=1234 comm="x" requested_mask="rw" denied_mask="rw" fsuid=0 ouid=0
type=AVC msg=audit(1111111111.111:2): apparmor="DENIED" operation="getattr" class="file" info="Failed name lookup - disconnected path" error=-13 profile="foo" name="dev/pts/0" pid=1234 comm="x" requested_mask="r" denied_mask="r" fsuid=1000 ouid=1000
`
	profiles := New(strings.NewReader(records), "").ParseToProfiles()
	p, ok := profiles["foo"]
	if !ok {
		t.Fatalf("no profile generated: %v", profiles)
	}
	p.Merge(nil)
	p.Sort()
	p.Format()
	text := p.String() + "\n"
	t.Logf("printed:\n%s", text)

	// Textual check: a file rule starts with a path (/, @{var} or a quote)
	for _, line := range strings.Split(text, "\n") {
		line = strings.TrimSpace(line)
		line = strings.TrimPrefix(line, "owner ")
		if strings.HasPrefix(line, "apparmor/") || strings.HasPrefix(line, "dev/") {
			t.Errorf("file rule printed with a relative path, not an AARE: %q", line)
		}
	}

	// Reference parser
	if out, err := ce1Parser(t, text); err != nil {
		t.Errorf("apparmor_parser rejects the printed profile: %v\n%s", err, out)
	}
}
