// Counterexample 1 for property C16 (rules generated from logs cover the logged access).
//
// Drop this file in:   pkg/logs/
// Run (from the worktree root):
//
//	go test -p 1 -vet=off -count=1 -run 'TestCE1' ./pkg/logs/
//
// Records written by kernels that do not print the mediation class
// (class="..." only exists since Linux 6.2; Debian 12 / Ubuntu 22.04 and older
// do not have it) are dispatched on their operation only. The bundled test
// logs contain such records and they are supported for open, mkdir, exec,
// capable, signal, ptrace, unix ... -- but not for inet/inet6/netlink/packet
// network records, nor for chown, symlink, umount, pivotroot, setrlimit and
// change_onexec. For these aa-log prints "unknown log type" and emits NO rule.
package logs

import (
	"strings"
	"testing"

	"github.com/roddhjav/apparmor.d/pkg/aa"
)

func ce1Rules(t *testing.T, record string) aa.Rules {
	t.Helper()
	profiles := New(strings.NewReader(record+"\n"), "").ParseToProfiles()
	p, ok := profiles["curl"]
	if !ok {
		t.Fatalf("no profile 'curl' generated from the record")
	}
	p.Merge(nil)
	p.Sort()
	p.Format()
	return p.Rules
}

// Control: the same record as printed by a kernel >= 6.2 (class="net") works.
func TestCE1_ControlNetworkRecordWithClass(t *testing.T) {
	record := `type=AVC msg=audit(1600000000.100:9): apparmor="DENIED" operation="create" class="net" profile="curl" pid=4242 comm="curl" family="inet" sock_type="stream" protocol=6 requested_mask="create" denied_mask="create"`
	found := false
	for _, r := range ce1Rules(t, record) {
		if n, ok := r.(*aa.Network); ok && n.Domain == "inet" && n.Type == "stream" {
			found = true
		}
	}
	if !found {
		t.Errorf("control: no 'network inet stream,' rule generated for:\n%s", record)
	}
}

func TestCE1_ClasslessNetworkRecord(t *testing.T) {
	record := `type=AVC msg=audit(1600000000.100:10): apparmor="DENIED" operation="create" profile="curl" pid=4242 comm="curl" family="inet" sock_type="stream" protocol=6 requested_mask="create" denied_mask="create"`
	found := false
	for _, r := range ce1Rules(t, record) {
		if n, ok := r.(*aa.Network); ok && n.Domain == "inet" && n.Type == "stream" {
			found = true
		}
	}
	if !found {
		t.Errorf("no 'network inet stream,' rule generated for:\n%s", record)
	}
}

func TestCE1_ClasslessFileRecords(t *testing.T) {
	for _, record := range []string{
		`type=AVC msg=audit(1600000000.100:11): apparmor="DENIED" operation="chown" profile="curl" name="/var/lib/foo/x" pid=4242 comm="curl" requested_mask="w" denied_mask="w" fsuid=0 ouid=0`,
		`type=AVC msg=audit(1600000000.100:12): apparmor="DENIED" operation="symlink" profile="curl" name="/var/lib/foo/y" pid=4242 comm="curl" requested_mask="c" denied_mask="c" fsuid=0 ouid=0`,
	} {
		found := false
		for _, r := range ce1Rules(t, record) {
			if f, ok := r.(*aa.File); ok && strings.HasPrefix(f.Path, "/var/lib/foo/") &&
				strings.Contains(strings.Join(f.Access, ""), "w") {
				found = true
			}
		}
		if !found {
			t.Errorf("no file rule with 'w' generated for:\n%s", record)
		}
	}
}

func TestCE1_ClasslessUmountRecord(t *testing.T) {
	record := `type=AVC msg=audit(1600000000.100:13): apparmor="DENIED" operation="umount" profile="curl" name="/mnt/" pid=4242 comm="curl"`
	found := false
	for _, r := range ce1Rules(t, record) {
		if u, ok := r.(*aa.Umount); ok && u.MountPoint == "/mnt/" {
			found = true
		}
	}
	if !found {
		t.Errorf("no 'umount /mnt/,' rule generated for:\n%s", record)
	}
}
