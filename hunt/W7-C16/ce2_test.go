// Counterexample 2 for property C16 (rules generated from logs cover the logged access).
//
// Drop this file in:   pkg/logs/
// Run (from the worktree root):
//
//	go test -p 1 -vet=off -count=1 -run 'TestCE2' ./pkg/logs/
//
// logs.regCleanLogs deletes every log LINE in which one of the
// "abstractions/base" patterns occurs anywhere (`(?m)^.*/dev/(null|zero|full|log).*$`
// and friends): the pattern is neither tied to the name= field, nor to the
// end of the path, nor to the access that abstractions/base really grants.
// A bind mount of /dev/null over a file (what bwrap, systemd and docker do to
// mask a path) is a mount record whose srcname is /dev/null: the whole record
// vanishes and no mount rule is generated.
package logs

import (
	"strings"
	"testing"

	"github.com/roddhjav/apparmor.d/pkg/aa"
)

func ce2Profile(t *testing.T, record string) *aa.Profile {
	t.Helper()
	profiles := New(strings.NewReader(record+"\n"), "").ParseToProfiles()
	p, ok := profiles["bwrap"]
	if !ok {
		t.Errorf("record discarded, no profile 'bwrap' generated from:\n%s", record)
		return &aa.Profile{}
	}
	p.Merge(nil)
	p.Sort()
	p.Format()
	return p
}

// Control: the same record with another source is turned into a mount rule.
func TestCE2_ControlBindMount(t *testing.T) {
	record := `type=AVC msg=audit(1700000000.100:19): apparmor="DENIED" operation="mount" class="mount" info="failed mntpnt match" error=-13 profile="bwrap" name="/newroot/proc/kcore" pid=4242 comm="bwrap" srcname="/oldroot/dev/tty" flags="rw, bind"`
	found := false
	for _, r := range ce2Profile(t, record).Rules {
		if m, ok := r.(*aa.Mount); ok && m.Source == "/oldroot/dev/tty" {
			found = true
		}
	}
	if !found {
		t.Errorf("control: no mount rule generated for:\n%s", record)
	}
}

func TestCE2_BindMountOfDevNull(t *testing.T) {
	record := `type=AVC msg=audit(1700000000.100:20): apparmor="DENIED" operation="mount" class="mount" info="failed mntpnt match" error=-13 profile="bwrap" name="/newroot/proc/kcore" pid=4242 comm="bwrap" srcname="/oldroot/dev/null" flags="rw, bind"`
	found := false
	for _, r := range ce2Profile(t, record).Rules {
		if m, ok := r.(*aa.Mount); ok && m.Source == "/oldroot/dev/null" &&
			strings.HasSuffix(m.MountPoint, "/kcore") {
			found = true
		}
	}
	if !found {
		t.Errorf("no mount rule generated for:\n%s", record)
	}
}

func TestCE2_OtherNamesThatOnlyLookLikeBase(t *testing.T) {
	for _, tt := range []struct{ record, access string }{
		// null_blk block device: not /dev/null
		{`type=AVC msg=audit(1700000000.100:21): apparmor="DENIED" operation="open" class="file" profile="bwrap" name="/dev/nullb0" pid=4242 comm="bwrap" requested_mask="r" denied_mask="r" fsuid=0 ouid=0`, "r"},
		// abstractions/base only grants r on /dev/urandom
		{`type=AVC msg=audit(1700000000.100:22): apparmor="DENIED" operation="open" class="file" profile="bwrap" name="/dev/urandom" pid=4242 comm="bwrap" requested_mask="w" denied_mask="w" fsuid=0 ouid=0`, "w"},
		// not even under /dev
		{`type=AVC msg=audit(1700000000.100:23): apparmor="DENIED" operation="open" class="file" profile="bwrap" name="/srv/app/dev/logs/today.txt" pid=4242 comm="bwrap" requested_mask="wc" denied_mask="wc" fsuid=0 ouid=0`, "w"},
	} {
		found := false
		for _, r := range ce2Profile(t, tt.record).Rules {
			if f, ok := r.(*aa.File); ok && strings.Contains(strings.Join(f.Access, ""), tt.access) {
				found = true
			}
		}
		if !found {
			t.Errorf("no file rule generated for:\n%s", tt.record)
		}
	}
}
