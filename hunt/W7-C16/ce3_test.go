// Counterexample 3 for property C16 (rules generated from logs cover the logged access).
//
// Drop this file in:   pkg/logs/
// Run (from the worktree root):
//
//	go test -p 1 -vet=off -count=1 -run 'TestCE3' ./pkg/logs/
//
// (ce3.sh shows the same thing with the reference apparmor_parser.)
//
// The kernel prints a name verbatim (in double quotes) unless it contains a
// blank, a double quote or a byte outside 0x21..0x7e. Backslash, '[', ']',
// '{', '}', '*', '?' are therefore printed as they are, but they are AARE
// metacharacters. aa-log copies the name in the rule without escaping them,
// so the rule does not match the logged name any more:
//   - systemd unit/cgroup names escaped by systemd-escape contain "\x2d";
//     the parser reads \x2d as the byte '-' (checked with apparmor_parser
//     -D rule-exprs, see ce3.sh);
//   - "report[1].pdf" becomes a character class matching "report1.pdf";
//   - Firefox's "extensions/{ec8030f7-...}/" becomes "{@{uuid}}", an
//     alternation with a single item, which the parser rejects ("Invalid
//     number of items between {}"), and which would not match the braces.
//
// The test embeds a small AARE -> regexp translation (same semantics as the
// parser for the constructs used here) so that it does not depend on the
// parser being installed.
package logs

import (
	"fmt"
	"regexp"
	"strconv"
	"strings"
	"testing"

	"github.com/roddhjav/apparmor.d/pkg/aa"
)

var ce3Vars = map[string]string{
	"sys":  "/sys/",
	"HOME": "/home/*/",
	"uuid": strings.Repeat("[0-9a-fA-F]", 8) + "[-_]" + strings.Repeat("[0-9a-fA-F]", 4) + "[-_]" +
		strings.Repeat("[0-9a-fA-F]", 4) + "[-_]" + strings.Repeat("[0-9a-fA-F]", 4) + "[-_]" +
		strings.Repeat("[0-9a-fA-F]", 12),
}

var ce3Slashes = regexp.MustCompile(`/+`)

// ce3AareToRegexp translates an AARE the way apparmor_parser does.
func ce3AareToRegexp(aare string) (*regexp.Regexp, error) {
	for name, value := range ce3Vars {
		aare = strings.ReplaceAll(aare, "@{"+name+"}", value)
	}
	if strings.Contains(aare, "@{") {
		return nil, fmt.Errorf("variable not known to the test in %s", aare)
	}
	aare = ce3Slashes.ReplaceAllString(aare, "/")
	var res strings.Builder
	res.WriteString("^")
	depth := 0
	items := []int{}
	for i := 0; i < len(aare); i++ {
		c := aare[i]
		switch {
		case c == '\\' && i+3 < len(aare) && aare[i+1] == 'x':
			b, err := strconv.ParseUint(aare[i+2:i+4], 16, 8)
			if err != nil {
				return nil, err
			}
			res.WriteString(regexp.QuoteMeta(string([]byte{byte(b)})))
			i += 3
		case c == '\\' && i+1 < len(aare):
			res.WriteString(regexp.QuoteMeta(string(aare[i+1])))
			i++
		case c == '*' && i+1 < len(aare) && aare[i+1] == '*':
			res.WriteString(`[^\x00]*`)
			i++
		case c == '*':
			res.WriteString(`[^/\x00]*`)
		case c == '?':
			res.WriteString(`[^/\x00]`)
		case c == '[':
			end := strings.IndexByte(aare[i:], ']')
			if end < 0 {
				return nil, fmt.Errorf("unclosed [ in %s", aare)
			}
			res.WriteString(aare[i : i+end+1])
			i += end
		case c == '{':
			depth++
			items = append(items, 1)
			res.WriteString("(?:")
		case c == '}':
			if depth == 0 {
				return nil, fmt.Errorf("unbalanced } in %s", aare)
			}
			if items[len(items)-1] < 2 {
				return nil, fmt.Errorf("Invalid number of items between {} in %s", aare)
			}
			items = items[:len(items)-1]
			depth--
			res.WriteString(")")
		case c == ',' && depth > 0:
			items[len(items)-1]++
			res.WriteString("|")
		default:
			res.WriteString(regexp.QuoteMeta(string(c)))
		}
	}
	res.WriteString("$")
	return regexp.Compile(res.String())
}

func TestCE3_MetacharactersInLoggedName(t *testing.T) {
	for _, name := range []string{
		`/etc/passwd`,                    // control
		`/sys/devices/system/cpu/online`, // control, generalised
		`/etc/systemd/system/mnt-my\x2ddisk.mount`,
		`/sys/fs/cgroup/system.slice/system-systemd\x2dfsck.slice/cgroup.procs`,
		`/home/alice/Downloads/report[1].pdf`,
		`/home/alice/.mozilla/extensions/{ec8030f7-c20a-464f-9b0e-13a3a9e97384}/`,
	} {
		record := `type=AVC msg=audit(1700000000.100:30): apparmor="DENIED" operation="open" class="file" profile="foo" name="` +
			name + `" pid=4242 comm="foo" requested_mask="r" denied_mask="r" fsuid=1000 ouid=1000`
		profiles := New(strings.NewReader(record+"\n"), "").ParseToProfiles()
		p, ok := profiles["foo"]
		if !ok {
			t.Errorf("%s: no profile generated", name)
			continue
		}
		p.Merge(nil)
		p.Sort()
		p.Format()
		covered := false
		paths := []string{}
		for _, r := range p.Rules {
			f, ok := r.(*aa.File)
			if !ok {
				continue
			}
			paths = append(paths, f.Path)
			re, err := ce3AareToRegexp(f.Path)
			if err != nil {
				t.Logf("%s: rule path %s is not a valid AARE: %v", name, f.Path, err)
				continue
			}
			if re.MatchString(name) {
				covered = true
			}
		}
		if !covered {
			t.Errorf("logged name %s is not matched by the generated rule path(s) %q", name, paths)
		}
	}
}
