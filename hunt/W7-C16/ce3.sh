#!/bin/sh
# Counterexample 3 for property C16, checked with the reference parser.
#
# Run from the worktree root:   sh .seed/ce3.sh
# Exit status 1 (FAIL) on the unmodified tree.
#
# A record whose name contains a systemd escape ("\x2d", printed verbatim by
# the kernel) is turned into a rule by `aa-log -r`; apparmor_parser reads the
# "\x2d" of that rule as the byte '-', so the rule is for another file.
set -u
export GOFLAGS=-mod=mod GOPROXY=off GOSUMDB=off GOTOOLCHAIN=local GOCACHE=/tmp/gocache-$(basename "$PWD")
tmp=$(mktemp -d)
trap 'rm -rf "$tmp"' EXIT
cat > "$tmp/audit.log" <<'LOG'
type=AVC msg=audit(1700000000.100:30): apparmor="DENIED" operation="open" class="file" profile="foo" name="/etc/systemd/system/mnt-my\x2ddisk.mount" pid=4242 comm="foo" requested_mask="r" denied_mask="r" fsuid=0 ouid=0
LOG
go run ./cmd/aa-log -r -f "$tmp/audit.log" > "$tmp/foo.aa" || exit 2
echo "--- aa-log -r:"; cat "$tmp/foo.aa"
echo "--- apparmor_parser -D rule-exprs:"
/usr/sbin/apparmor_parser -Q -K --policy-features /etc/apparmor.d/abi/3.0 --kernel-features /etc/apparmor.d/abi/3.0 \
	-D rule-exprs "$tmp/foo.aa" > "$tmp/exprs" 2>&1
cat "$tmp/exprs"
if grep -q 'mnt-my-disk' "$tmp/exprs"; then
	echo 'FAIL: the generated rule matches /etc/systemd/system/mnt-my-disk.mount, not the logged /etc/systemd/system/mnt-my\x2ddisk.mount'
	exit 1
fi
echo PASS
