// CE3 (property C09) -- a mount rule with a list of filesystem types is printed
// without its parentheses: the text does not parse back to the same rule (and is
// rejected by apparmor_parser).
//
// Drop this file in pkg/aa/ and run, from the worktree root:
//
//	export GOFLAGS=-mod=mod GOPROXY=off GOSUMDB=off GOTOOLCHAIN=local
//	go test -p 1 -vet=off -count=1 -run 'TestCE3' ./pkg/aa/
//
// Fails on the unmodified tree. The three inputs are accepted by apparmor_parser
// 3.0.8; what the printer writes for them is rejected (syntax error).
package aa

import (
	"reflect"
	"testing"
)

func TestCE3_MountFsTypeList(t *testing.T) {
	for _, in := range []string{
		"mount fstype=(ext3 ext4) /dev/sda1 -> /mnt/,\n\n",
		"mount fstype=(ext3, ext4) options=(rw nosuid) /dev/sda1 -> /mnt/,\n\n",
		"umount fstype=(ext3 ext4) /mnt/,\n\n",
	} {
		para, _, err := ParseRules(in)
		if err != nil {
			t.Fatalf("ParseRules(%q): %v", in, err)
		}
		rules := para.Flatten()
		if len(rules) != 1 {
			t.Fatalf("ParseRules(%q): %d rules", in, len(rules))
		}
		if err := rules.Validate(); err != nil {
			t.Fatalf("the parsed rule is not valid: %v", err)
		}

		text := rules.String()
		para2, _, err := ParseRules(text + "\n")
		if err != nil {
			t.Errorf("printed text %q does not parse back: %v", text, err)
			continue
		}
		rules2 := para2.Flatten()
		if !reflect.DeepEqual(rules, rules2) {
			t.Errorf("%q\n printed as     %q\n parsed back as %q\n first:  %#v\n second: %#v",
				in, text, rules2.String(), rules[0], rules2[0])
		}
	}
}
