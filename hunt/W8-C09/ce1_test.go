// CE1 (property C09) -- ParseRules mistakes a last line ending in '}' for a block closer.
//
// Drop this file in pkg/aa/ and run, from the worktree root:
//
//	export GOFLAGS=-mod=mod GOPROXY=off GOSUMDB=off GOTOOLCHAIN=local
//	go test -p 1 -vet=off -count=1 -run 'TestCE1' ./pkg/aa/
//
// Fails on the unmodified tree.
package aa

import (
	"testing"
)

// A rule whose trailing comment ends with '}' and that is the last line of its
// paragraph: the comment is truncated when the printed text is parsed back.
func TestCE1_TrailingCommentEndingWithBrace(t *testing.T) {
	in := Rules{
		&File{Path: "/etc/foo", Access: []string{"r"}, Base: Base{Comment: " see @{etc_ro}"}},
	}
	text := in.String() // "/etc/foo r, # see @{etc_ro}\n"
	para, _, err := ParseRules(text + "\n")
	if err != nil {
		t.Fatalf("ParseRules(%q): %v", text, err)
	}
	got := para.Flatten()
	if len(got) != 1 {
		t.Fatalf("got %d rules from %q", len(got), text)
	}
	if c := got[0].(*File).Comment; c != " see @{etc_ro}" {
		t.Errorf("trailing comment not recovered: printed %q, parsed back comment %q", text, c)
	}
	if text2 := got.String(); text2 != text {
		t.Errorf("second rendering differs:\n 1: %q\n 2: %q", text, text2)
	}
}

// Same mechanism on a comment line shipped in apparmor.d/profiles-s-z/terminator
// (line 28, alone in its paragraph) and 9 other shipped profiles (#aa:dbus own ... @{int}).
func TestCE1_ShippedDirectiveComment(t *testing.T) {
	in := Rules{&Comment{Base: Base{
		IsLineRule: true,
		Comment:    "aa:dbus own bus=session name=net.tenshu.Terminator@{hex}",
	}}}
	text := in.String()
	para, _, err := ParseRules(text + "\n")
	if err != nil {
		t.Fatalf("ParseRules(%q): %v", text, err)
	}
	if text2 := para.Flatten().String(); text2 != text {
		t.Errorf("comment line not recovered:\n printed: %q\n reparsed:%q", text, text2)
	}
}

// The '}' that is removed is the FIRST "}\n" of the paragraph, not the one that
// triggered the detection: here it is the member alternation of a dbus rule, the
// block counter never returns to zero and the dbus rule and the file rule vanish.
func TestCE1_RulesSwallowed(t *testing.T) {
	in := Rules{
		&Dbus{Access: []string{"send"}, Bus: "session", Path: "/x", Member: "{Get,Set}", PeerName: "org.x"},
		&File{Path: "/b", Access: []string{"r"}, Base: Base{Comment: " for @{bin}"}},
	}
	text := in.String()
	para, _, err := ParseRules(text + "\n")
	if err != nil {
		t.Fatalf("ParseRules(%q): %v", text, err)
	}
	// Rules.String() puts a blank line between kinds: two paragraphs, the second one ends with '}'
	if text2 := para.Flatten().String(); text2 != text {
		t.Errorf("block not recovered:\n printed:\n%s reparsed:\n%s", text, text2)
	}
	// Same kinds in one paragraph, as written in a profile
	one := "dbus send bus=session path=/x\n       member={Get,Set}\n       peer=(name=org.x),\n/b r, # for @{bin}\n\n"
	para, _, err = ParseRules(one)
	if err != nil {
		t.Fatalf("ParseRules(%q): %v", one, err)
	}
	if n := len(para.Flatten()); n != 2 {
		t.Errorf("expected 2 rules from\n%sgot %d: %q", one, n, para.Flatten().String())
	}
}
