// CE2 (property C09) -- backslash-escaped / literal bracket characters in a path
// are counted as block delimiters by parseCommaRules and tokenizeRule.
//
// Drop this file in pkg/aa/ and run, from the worktree root:
//
//	export GOFLAGS=-mod=mod GOPROXY=off GOSUMDB=off GOTOOLCHAIN=local
//	go test -p 1 -vet=off -count=1 -run 'TestCE2' ./pkg/aa/
//
// Fails on the unmodified tree. All the paths below are accepted by
// apparmor_parser 3.0.8 (see REPORT.md).
package aa

import (
	"testing"
)

func ce2RoundTrip(t *testing.T, in Rules) {
	t.Helper()
	text := in.String()
	var got Rules
	func() {
		defer func() {
			if r := recover(); r != nil {
				t.Errorf("ParseRules(%q) panicked: %v", text, r)
			}
		}()
		para, _, err := ParseRules(text + "\n")
		if err != nil {
			t.Errorf("ParseRules(%q): %v", text, err)
			return
		}
		got = para.Flatten()
	}()
	if t.Failed() {
		return
	}
	if len(got) != len(in) {
		t.Errorf("printed %d rules, parsed back %d:\n printed:  %q\n reparsed: %q", len(in), len(got), text, got.String())
		return
	}
	if text2 := got.String(); text2 != text {
		t.Errorf("second rendering differs:\n 1: %q\n 2: %q", text, text2)
	}
}

// The path is the one the project's own log converter writes for a file named
// "/tmp/a[b" (quoteAARE escapes the bracket). The rule and every rule after it
// in the paragraph are silently dropped.
func TestCE2_EscapedOpenBracket(t *testing.T) {
	path := quoteAARE("/tmp/a[b")
	if path != `/tmp/a\[b` {
		t.Fatalf("unexpected quoteAARE output %q", path)
	}
	ce2RoundTrip(t, Rules{
		&File{Path: path, Access: []string{"r"}},
		&File{Path: "/tmp/c", Access: []string{"w"}},
	})
}

func TestCE2_EscapedCloseBrace(t *testing.T) {
	ce2RoundTrip(t, Rules{
		&File{Path: quoteAARE("/tmp/a}b"), Access: []string{"r"}}, // /tmp/a\}b
		&File{Path: "/tmp/c", Access: []string{"w"}},
	})
}

// Parentheses are ordinary characters in an AARE.
func TestCE2_LiteralParen(t *testing.T) {
	ce2RoundTrip(t, Rules{
		&File{Path: "/tmp/a)b", Access: []string{"r"}},
		&File{Path: "/tmp/c", Access: []string{"w"}},
	})
}

// Quoted: parseCommaRules now skips quoted text, tokenizeRule does not: panic.
func TestCE2_QuotedEscapedBracket(t *testing.T) {
	path := quoteAARE("/tmp/my file 1].txt")
	ce2RoundTrip(t, Rules{
		&File{Path: path, Access: []string{"r"}}, // "/tmp/my file 1\].txt"
	})
}
