// Counterexample 2 (C13): an abi / alias line whose comma is followed by a tab
// (trailing blank, or a trailing comment separated by a tab) is silently lost,
// and takes the next comma rule of the preamble with it.
//
// Drop this file in pkg/aa/ and run, from the worktree root:
//   go test -vet=off -count=1 -run TestSeedC13CE2 ./pkg/aa
package aa

import "testing"

func TestSeedC13CE2(t *testing.T) {
	for name, input := range map[string]string{
		"trailing-tab":     "abi <abi/3.0>,\t\n@{a} = /x\n@{a} += /y\nprofile foo @{a} {\n}\n",
		"tab-then-comment": "abi <abi/3.0>,\t# the abi\nalias /usr/ -> /User/,\n@{a} = /x\nprofile foo @{a} {\n}\n",
	} {
		t.Run(name, func(t *testing.T) {
			f := &AppArmorProfileFile{}
			if _, err := f.Parse(input); err != nil {
				t.Fatal(err) // an error would at least not be silent
			}
			if err := f.Resolve(); err != nil {
				t.Fatal(err)
			}
			abi, alias := 0, 0
			for _, r := range f.Preamble {
				switch r := r.(type) {
				case *Abi:
					abi++
					if r.Path != "abi/3.0" {
						t.Errorf("abi path = %q, want abi/3.0 (%q)", r.Path, r.String())
					}
				case *Alias:
					alias++
				}
			}
			if abi != 1 {
				t.Errorf("%d abi rules in the preamble, want 1: %q", abi, f.Preamble.String())
			}
			if name == "tab-then-comment" && alias != 1 {
				t.Errorf("%d alias rules in the preamble, want 1: %q", alias, f.Preamble.String())
			}
		})
	}
}
