// Counterexample 3 (C13): an alias whose path contains '=' is silently cut at
// the '=' (alias /a=b/ -> /c/, becomes alias /a -> /c/,).
//
// Drop this file in pkg/aa/ and run, from the worktree root:
//   go test -vet=off -count=1 -run TestSeedC13CE3 ./pkg/aa
package aa

import "testing"

func TestSeedC13CE3(t *testing.T) {
	input := "# header\nalias /srv/a=b/ -> /srv/c/,\nalias /srv/d/ -> /srv/e=f/,\n@{a} = /x\n@{a} += /y\nprofile foo @{a} {\n}\n"
	f := &AppArmorProfileFile{}
	if _, err := f.Parse(input); err != nil {
		t.Fatal(err)
	}
	if err := f.Resolve(); err != nil {
		t.Fatal(err)
	}
	want := []string{"alias /srv/a=b/ -> /srv/c/,", "alias /srv/d/ -> /srv/e=f/,"}
	got := []string{}
	for _, r := range f.Preamble {
		if r.Kind() == ALIAS {
			got = append(got, r.String())
		}
	}
	if len(got) != len(want) {
		t.Fatalf("aliases = %q, want %q", got, want)
	}
	for i := range want {
		if got[i] != want[i] {
			t.Errorf("alias %d = %q, want %q", i, got[i], want[i])
		}
	}
}
