// Counterexample 1 (C13): a preamble comment that contains one of the words
// file_inherit / optional: / no new privs is rewritten when the file is parsed.
//
// Drop this file in pkg/aa/ and run, from the worktree root:
//   go test -vet=off -count=1 -run TestSeedC13CE1 ./pkg/aa
package aa

import "testing"

func TestSeedC13CE1(t *testing.T) {
	comments := []string{
		"# Allow file_inherit of the socket",
		"# see optional: deps",
		"#no new privs here",
	}
	input := ""
	for _, c := range comments {
		input += c + "\n"
	}
	input += "abi <abi/3.0>,\n@{a} = /x\n@{a} += /y\nprofile foo @{a} {\n}\n"

	f := &AppArmorProfileFile{}
	if _, err := f.Parse(input); err != nil {
		t.Fatal(err)
	}
	if err := f.Resolve(); err != nil {
		t.Fatal(err)
	}
	got := []string{}
	for _, r := range f.Preamble {
		if r.Kind() == COMMENT {
			got = append(got, r.String())
		}
	}
	if len(got) != len(comments) {
		t.Fatalf("comments = %q, want %q", got, comments)
	}
	for i := range comments {
		if got[i] != comments[i] {
			t.Errorf("comment %d = %q, want %q", i, got[i], comments[i])
		}
	}
}
