// Counterexample 1 for C03: a filter that names the target AppArmor version is
// not recognised when the minor number of the version has two digits (2.13).
//
// Drop this file in:  pkg/prebuild/directive/
// Run (from the worktree root):
//   go test -vet=off -count=1 -run TestW17CE1 ./pkg/prebuild/directive/
// Fails on the unmodified tree.

package directive

import (
	"flag"
	"testing"

	"github.com/roddhjav/apparmor.d/pkg/paths"
	"github.com/roddhjav/apparmor.d/pkg/prebuild"
)

func TestW17CE1(t *testing.T) {
	// The value is obtained exactly as cmd/prebuild obtains it from
	// `--version 2.13` (pkg/prebuild/cli: flag.Float64Var + prebuild.Version = version)
	var version float64
	fs := flag.NewFlagSet("prebuild", flag.ContinueOnError)
	fs.Float64Var(&version, "version", 0.0, "Target apparmor version.")
	if err := fs.Parse([]string{"--version", "2.13"}); err != nil {
		t.Fatal(err)
	}

	oldD, oldF, oldA, oldV := prebuild.Distribution, prebuild.Family, prebuild.ABI, prebuild.Version
	defer func() {
		prebuild.Distribution, prebuild.Family, prebuild.ABI, prebuild.Version = oldD, oldF, oldA, oldV
	}()
	prebuild.Distribution, prebuild.Family, prebuild.ABI = "ubuntu", "apt", 3
	prebuild.Version = version

	profile := `profile foo {
  /keep/before r,
  /only/inline r, #aa:only apparmor2.13
  /exclude/inline r, #aa:exclude apparmor2.13
  /other/version r, #aa:only apparmor2.1

  #aa:only apparmor2.13
  /only/paragraph r,

  #aa:exclude apparmor2.13
  /exclude/paragraph r,

  /keep/after r,
}
`
	// The target version is 2.13: the filters "apparmor2.13" name it, "apparmor2.1" does not
	want := `profile foo {
  /keep/before r,
  /only/inline r,


  /only/paragraph r,

  /keep/after r,
}
`
	got, err := Run(paths.New("foo"), profile)
	if err != nil {
		t.Fatal(err)
	}
	if got != want {
		t.Errorf("version %v\n--- got\n%s\n--- want\n%s", prebuild.Version, got, want)
	}
}
