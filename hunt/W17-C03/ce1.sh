#!/bin/sh
# Counterexample 1 for C03, through the real command line tool.
# Run from the worktree root:   sh .seed/ce1.sh
# Exits 1 (prints FAIL lines) on the unmodified tree. It adds one temporary
# profile to apparmor.d/profiles-a-f/ and removes it again, and restores
# debian/apparmor.d.hide.
export GOFLAGS=-mod=mod GOPROXY=off GOSUMDB=off GOTOOLCHAIN=local GOCACHE=/tmp/gocache-$(basename $PWD)
tmp=apparmor.d/profiles-a-f/aa-w17-ce1
trap 'rm -f $tmp; git checkout -q debian/apparmor.d.hide' EXIT
cat > $tmp <<'EOP'
abi <abi/4.0>,

include <tunables/global>

@{exec_path} = @{bin}/aa-w17-ce1
profile aa-w17-ce1 @{exec_path} {
  include <abstractions/base>

  @{exec_path} mr,

  /w17/only-2.13 r, #aa:only apparmor2.13
  /w17/exclude-2.13 r, #aa:exclude apparmor2.13
  /w17/only-2.1 r, #aa:only apparmor2.1

  include if exists <local/aa-w17-ce1>
}
EOP
DISTRIBUTION=ubuntu go run ./cmd/prebuild --abi 3 --version 2.13 >/tmp/w17-C03-ce1.log 2>&1 || { cat /tmp/w17-C03-ce1.log; exit 2; }
out=.build/apparmor.d/aa-w17-ce1
rc=0
grep -q '/w17/only-2.13 r,' $out || { echo "FAIL: target version 2.13, the rule guarded by '#aa:only apparmor2.13' is absent"; rc=1; }
grep -q '/w17/exclude-2.13 r,' $out && { echo "FAIL: target version 2.13, the rule guarded by '#aa:exclude apparmor2.13' is present"; rc=1; }
grep -q '/w17/only-2.1 r,' $out && { echo "FAIL: target version 2.13, the rule guarded by '#aa:only apparmor2.1' is present"; rc=1; }
grep -n 'w17' $out
exit $rc
