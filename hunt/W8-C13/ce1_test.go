// Counterexample 1 (property C13): a quoted variable value keeps its quotes and
// is pasted, quotes included, into the middle of the values and attachments
// that refer to it.
//
// Drop this file in: pkg/aa/
// Run from the worktree root:
//   export GOFLAGS=-mod=mod GOPROXY=off GOSUMDB=off GOTOOLCHAIN=local GOCACHE=/tmp/gocache-$(basename $PWD)
//   go test -p 1 -vet=off -count=1 -run 'TestCE1' ./pkg/aa
//
// Reference (apparmor_parser 3.0.8, -D expanded-variables / -D rule-exprs) on the
// same text:
//   @name = "foo" "Foo Bar"
//   @exec_path = "/opt/foo/bin" "/opt/Foo Bar/bin"
//   aare: {/opt/foo/bin,/opt/Foo Bar/bin}
// The test FAILS on the unmodified tree: Resolve gives /opt/"Foo Bar"/bin.

package aa

import (
	"os"
	"os/exec"
	"slices"
	"strings"
	"testing"
)

// a value may be written bare or quoted as a whole; a quote inside is never right
func ce1Unquote(t *testing.T, v string) string {
	if len(v) >= 2 && strings.HasPrefix(v, `"`) && strings.HasSuffix(v, `"`) {
		v = v[1 : len(v)-1]
	}
	if strings.Contains(v, `"`) {
		t.Errorf("value with a quote in the middle: %s", v)
	}
	return v
}

func ce1Values(f *AppArmorProfileFile, name string) []string {
	res := []string{}
	for _, v := range f.Preamble.GetVariables() {
		if v.Name == name {
			res = append(res, v.Values...)
		}
	}
	return res
}

func TestCE1_QuotedValue(t *testing.T) {
	text := `@{name} = foo "Foo Bar"
@{exec_path} = /opt/@{name}/bin
profile foo @{exec_path} {
}
`
	want := []string{"/opt/foo/bin", "/opt/Foo Bar/bin"}

	f := &AppArmorProfileFile{}
	if _, err := f.Parse(text); err != nil {
		t.Fatal(err)
	}
	if err := f.Resolve(); err != nil {
		t.Fatal(err)
	}
	got := []string{}
	for _, v := range ce1Values(f, "exec_path") {
		got = append(got, ce1Unquote(t, v))
	}
	if !slices.Equal(got, want) {
		t.Errorf("exec_path = %q, reference parser expands it to %q", ce1Values(f, "exec_path"), want)
	}
	got = []string{}
	for _, v := range f.Profiles[0].Attachments {
		got = append(got, ce1Unquote(t, v))
	}
	if !slices.Equal(got, want) {
		t.Errorf("attachments = %q, reference parser attaches to %q", f.Profiles[0].Attachments, want)
	}

	// What the userspace builder would write back, checked with the reference parser when it is there
	header := "profile foo " + f.Profiles[0].GetAttachments() + " {\n}\n"
	if _, err := os.Stat("/usr/sbin/apparmor_parser"); err == nil {
		tmp := t.TempDir() + "/p.aa"
		if err := os.WriteFile(tmp, []byte(header), 0o600); err != nil {
			t.Fatal(err)
		}
		out, err := exec.Command("/usr/sbin/apparmor_parser", "-Q", "-K",
			"--policy-features", "/etc/apparmor.d/abi/3.0", "--kernel-features", "/etc/apparmor.d/abi/3.0", tmp).CombinedOutput()
		if err != nil {
			t.Errorf("reference parser rejects the resolved header %q: %s", strings.TrimSpace(header), out)
		}
	}
}

// The same on a shipped profile: apparmor.d/profiles-m-r/protonmail has
// @{name} = proton-mail "Proton Mail" and @{config_dirs} = @{user_config_dirs}/@{name}
func TestCE1_ShippedProtonmail(t *testing.T) {
	raw, err := os.ReadFile("../../apparmor.d/profiles-m-r/protonmail")
	if err != nil {
		t.Skip(err)
	}
	f := DefaultTunables()
	if _, err := f.Parse(string(raw)); err != nil {
		t.Fatal(err)
	}
	if err := f.Resolve(); err != nil {
		t.Fatal(err)
	}
	want := []string{"/home/*/.config/proton-mail", "/home/*/.config/Proton Mail"}
	got := []string{}
	for _, v := range ce1Values(f, "config_dirs") {
		got = append(got, ce1Unquote(t, v))
	}
	if !slices.Equal(got, want) {
		t.Errorf("config_dirs = %q, reference parser expands it to %q", ce1Values(f, "config_dirs"), want)
	}
}
