// Counterexample 2 (property C13): a += on a variable that has not been
// defined (yet) is accepted silently; its values are merged with a later
// definition, or it makes the variable exist on its own.
//
// Drop this file in: pkg/aa/
// Run from the worktree root:
//   export GOFLAGS=-mod=mod GOPROXY=off GOSUMDB=off GOTOOLCHAIN=local GOCACHE=/tmp/gocache-$(basename $PWD)
//   go test -p 1 -vet=off -count=1 -run 'TestCE2' ./pkg/aa
//
// Reference (apparmor_parser 3.0.8) on both texts:
//   AppArmor parser error ...: variable @{a} was not previously declared, but is
//   being assigned additional values
// The test FAILS on the unmodified tree: Resolve returns nil and the profile is
// attached to /early/y (and /x/y).

package aa

import (
	"testing"
)

func TestCE2_AppendToUndeclared(t *testing.T) {
	tests := []struct {
		name string
		text string
	}{
		{
			name: "append-before-definition",
			text: "# header\nabi <abi/3.0>,\n@{a} += /early\n@{a} = /x\n@{b} = @{a}/y\nprofile foo @{b} {\n}\n",
		},
		{
			name: "append-without-definition",
			text: "# header\nabi <abi/3.0>,\n@{a} += /early\n@{b} = @{a}/y\nprofile foo @{b} {\n}\n",
		},
	}
	for _, tt := range tests {
		t.Run(tt.name, func(t *testing.T) {
			f := &AppArmorProfileFile{}
			if _, err := f.Parse(tt.text); err != nil {
				t.Fatal(err)
			}
			err := f.Resolve()
			if err == nil {
				for _, v := range f.Preamble.GetVariables() {
					t.Logf("@{%s} define=%v %q", v.Name, v.Define, v.Values)
				}
				t.Errorf("Resolve() = nil, attachments %q: the reference parser refuses the file (variable @{a} was not previously declared)", f.Profiles[0].Attachments)
			}
		})
	}
}
