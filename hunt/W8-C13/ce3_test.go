// Counterexample 3 (property C13): a definition continued on the next line
// with a backslash loses the values of the continuation line and gains the
// value "\".
//
// Drop this file in: pkg/aa/
// Run from the worktree root:
//   export GOFLAGS=-mod=mod GOPROXY=off GOSUMDB=off GOTOOLCHAIN=local GOCACHE=/tmp/gocache-$(basename $PWD)
//   go test -p 1 -vet=off -count=1 -run 'TestCE3' ./pkg/aa
//
// Reference (apparmor_parser 3.0.8 -D expanded-variables) on the same text:
//   @a = "/x" "/y"
//   @b = "/x/1" "/y/1"
// The test FAILS on the unmodified tree: @{a} = ["/x" "\\"], @{b} = ["/x/1" "\\/1"].

package aa

import (
	"slices"
	"testing"
)

func TestCE3_ContinuationLine(t *testing.T) {
	text := "# header\n@{a} = /x \\\n       /y\n@{b} = @{a}/1\nprofile foo @{b} {\n}\n"

	f := &AppArmorProfileFile{}
	if _, err := f.Parse(text); err != nil {
		t.Fatal(err)
	}
	if err := f.Resolve(); err != nil {
		t.Fatal(err)
	}
	want := map[string][]string{
		"a": {"/x", "/y"},
		"b": {"/x/1", "/y/1"},
	}
	for _, v := range f.Preamble.GetVariables() {
		if !slices.Equal(v.Values, want[v.Name]) {
			t.Errorf("@{%s} = %q, reference parser: %q", v.Name, v.Values, want[v.Name])
		}
	}
	if !slices.Equal(f.Profiles[0].Attachments, want["b"]) {
		t.Errorf("attachments = %q, reference parser: %q", f.Profiles[0].Attachments, want["b"])
	}
}
