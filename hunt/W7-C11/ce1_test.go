// Counterexample 1 to property C11 (rule ordering is a consistent total preorder).
//
// Drop this file in:  pkg/aa/
// Run (from the worktree root):
//   export GOFLAGS=-mod=mod GOPROXY=off GOSUMDB=off GOTOOLCHAIN=local GOCACHE=/tmp/gocache-$(basename $PWD)
//   go test -vet=off -count=1 -run 'TestCE1' ./pkg/aa
//
// All four tests FAIL on the unmodified tree.
//
// Root cause: the COMMENT kind is missing from ruleAlphabet (pkg/aa/template.go), so
// ruleWeights[COMMENT] is the map's zero value 0, which is also the weight of INCLUDE.
// Rules.Sort (pkg/aa/rules.go) therefore reports "comment == include" for every include,
// while two includes are ordered by path: "equal" is not transitive, the comparator is not
// a preorder, and slices.SortFunc gives an input-order dependent (and, above 12 elements,
// not even idempotent) result.

package aa

import (
	"fmt"
	"testing"
)

func ce1Comment(text string) *Comment {
	return &Comment{Base: Base{IsLineRule: true, Comment: " " + text}}
}

func ce1Include(path string) *Include {
	return &Include{IsMagic: true, Path: path}
}

// The comparator used by Rules.Sort, observed through two-element sorts.
func ce1Before(a, b Rule) bool {
	l := Rules{b, a}.Sort() // supplied in the "wrong" order: a comes first only if a < b
	return l[0] == a
}

// Triple: a == c and c == z (neither order is ever changed) but a < z strictly.
func TestCE1_Triple(t *testing.T) {
	a, c, z := ce1Include("abstractions/aaa"), ce1Comment("note"), ce1Include("abstractions/zzz")
	if !ce1Before(a, z) || ce1Before(z, a) {
		t.Fatalf("expected include aaa < include zzz")
	}
	acEqual := !ce1Before(a, c) && !ce1Before(c, a)
	czEqual := !ce1Before(c, z) && !ce1Before(z, c)
	if acEqual && czEqual {
		t.Errorf("include <abstractions/aaa> == '# note' and '# note' == include <abstractions/zzz>, " +
			"but include <abstractions/aaa> < include <abstractions/zzz>: " +
			"two non identical rules of different kinds compare equal and equality is not transitive")
	}
}

// Permutation dependence on three rules.
func TestCE1_Permutation(t *testing.T) {
	l1 := Rules{ce1Include("abstractions/aaa"), ce1Comment("note"), ce1Include("abstractions/zzz")}.Sort().String()
	l2 := Rules{ce1Include("abstractions/zzz"), ce1Comment("note"), ce1Include("abstractions/aaa")}.Sort().String()
	if l1 != l2 {
		t.Errorf("same three rules, two input orders, two sorted texts:\n%s---\n%s", l1, l2)
	}
}

// Same thing through the parser, as cmd/aa --format does for each paragraph.
func TestCE1_Parsed(t *testing.T) {
	sorted := func(text string) string {
		pr, _, err := ParseRules(text)
		if err != nil {
			t.Fatal(err)
		}
		return pr[0].Merge().Sort().Format().String()
	}
	one := sorted("  include <abstractions/nameservice>\n  # needed for bar\n  include <abstractions/consoles>\n  capability chown,\n\n")
	two := sorted("  include <abstractions/consoles>\n  # needed for bar\n  include <abstractions/nameservice>\n  capability chown,\n\n")
	if one != two {
		t.Errorf("same paragraph lines in two orders format differently:\n%s---\n%s", one, two)
	}
}

// Above 12 elements slices.SortFunc leaves plain insertion sort: Sort is not even idempotent.
// 13 rules: includes 04 16 08 18 02 28 12 24 with five comments in between (-1).
func TestCE1_Idempotence(t *testing.T) {
	l := Rules{}
	for i, d := range []int{4, 16, 8, -1, 18, 2, -1, 28, -1, 12, -1, 24, -1} {
		if d < 0 {
			l = append(l, ce1Comment(fmt.Sprintf("c%02d", i)))
		} else {
			l = append(l, ce1Include(fmt.Sprintf("abstractions/%02d", d)))
		}
	}
	s1 := l.Sort().String()
	s2 := l.Sort().String()
	if s1 != s2 {
		t.Errorf("Sort(Sort(l)) != Sort(l):\n%s---\n%s", s1, s2)
	}
}
