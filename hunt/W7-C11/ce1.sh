#!/bin/sh
# Counterexample 1 to property C11, through the shipped formatter cmd/aa.
# Run from the worktree root:   sh .seed/ce1.sh
# Exit status 1 (and a diff on stdout) on the unmodified tree. Writes only under a mktemp directory.
export GOFLAGS=-mod=mod GOPROXY=off GOSUMDB=off GOTOOLCHAIN=local GOCACHE=/tmp/gocache-$(basename $PWD)
d=$(mktemp -d) && mkdir -p $d/p
rc=0

# (a) the same three lines, two input orders
printf 'profile foo /usr/bin/foo {\n  include <abstractions/nameservice>\n  # needed for bar\n  include <abstractions/consoles>\n\n  /etc/foo r,\n\n}\n' > $d/p/one
printf 'profile foo /usr/bin/foo {\n  include <abstractions/consoles>\n  # needed for bar\n  include <abstractions/nameservice>\n\n  /etc/foo r,\n\n}\n' > $d/p/two
go run ./cmd/aa -f $d/p/one $d/p/two >/dev/null || exit 2
if ! diff $d/p/one $d/p/two; then
	echo "FAIL (a): the same paragraph lines supplied in two orders are formatted to two different texts"
	rc=1
fi

# (b) formatting twice: 13 line rules, the formatter is not idempotent
{
	echo 'profile foo /usr/bin/foo {'
	for x in 04 16 08 '#c03' 18 02 '#c06' 28 '#c08' 12 '#c10' 24 '#c12'; do
		case $x in
		'#'*) echo "  # ${x#?}" ;;
		*) echo "  include <abstractions/$x>" ;;
		esac
	done
	printf '\n  /etc/foo r,\n\n}\n'
} > $d/p/three
go run ./cmd/aa -f $d/p/three >/dev/null || exit 2
cp $d/p/three $d/p/three.once
go run ./cmd/aa -f $d/p/three >/dev/null || exit 2
if ! diff $d/p/three.once $d/p/three; then
	echo "FAIL (b): formatting an already formatted file changes it again"
	rc=1
fi
rm -rf $d
exit $rc
