#!/bin/bash
# Counterexample 3 for C16: a link record without target= (the name lookup failed,
# so the kernel never resolved the target) becomes `link <name> ,`: no target, and
# for a disconnected path also a relative name. AppArmor rejects both.
#
# Run from the worktree root:   bash .seed/ce3.sh
# (needs /usr/sbin/apparmor_parser 3.0.8; exits 1 = defect present, 0 = fixed)
export GOFLAGS=-mod=mod GOPROXY=off GOSUMDB=off GOTOOLCHAIN=local GOCACHE=${GOCACHE:-/tmp/gocache-$(basename $PWD)}
tmp=$(mktemp -d); trap 'rm -rf $tmp' EXIT
cat > $tmp/log <<'LOG'
type=AVC msg=audit(1111111111.111:1111): apparmor="DENIED" operation="link" class="file" info="Failed name lookup - disconnected path" error=-13 profile="foo" name="tmp/foo" pid=1234 comm="foo" requested_mask="l" denied_mask="l" fsuid=1000 ouid=1000
LOG
go run ./cmd/aa-log -f $tmp/log -r > $tmp/rules || exit 2
cat $tmp/rules
grep -Eq '^\s*(owner )?(link )?/tmp/foo ' $tmp/rules || echo "note: no rule on the absolute name /tmp/foo"
{ echo 'abi <abi/3.0>,'; cat $tmp/rules; } > $tmp/profile
if /usr/sbin/apparmor_parser -Q -K --policy-features /etc/apparmor.d/abi/3.0 --kernel-features /etc/apparmor.d/abi/3.0 -S $tmp/profile > /dev/null; then
	grep -q '/tmp/foo' $tmp/rules && { echo "PASS"; exit 0; }
	echo "FAIL: accepted, but no rule names /tmp/foo"; exit 1
fi
echo "FAIL: AppArmor rejects the rule generated for the link record"; exit 1
