#!/bin/bash
# Counterexample 2 for C16: every unix socket record becomes a rule that AppArmor rejects.
#
# Run from the worktree root:   bash .seed/ce2.sh
# (needs /usr/sbin/apparmor_parser 3.0.8; exits 1 = defect present, 0 = fixed)
export GOFLAGS=-mod=mod GOPROXY=off GOSUMDB=off GOTOOLCHAIN=local GOCACHE=${GOCACHE:-/tmp/gocache-$(basename $PWD)}
tmp=$(mktemp -d); trap 'rm -rf $tmp' EXIT
cat > $tmp/log <<'LOG'
type=AVC msg=audit(1111111111.111:1111): apparmor="DENIED" operation="connect" class="net" profile="foo" pid=1234 comm="foo" family="unix" sock_type="stream" protocol=0 requested_mask="send receive connect" denied_mask="send receive connect" addr=none peer_addr="@/tmp/.X11-unix/X0" peer="xorg"
LOG
go run ./cmd/aa-log -f $tmp/log -r > $tmp/rules || exit 2
cat $tmp/rules
grep -q 'unix (send receive connect) type=stream' $tmp/rules || { echo "FAIL: no unix rule at all"; exit 1; }
{ echo 'abi <abi/3.0>,'; cat $tmp/rules; } > $tmp/profile
if /usr/sbin/apparmor_parser -Q -K --policy-features /etc/apparmor.d/abi/3.0 --kernel-features /etc/apparmor.d/abi/3.0 -S $tmp/profile > /dev/null; then
	echo "PASS: AppArmor accepts the generated unix rule"; exit 0
fi
echo "FAIL: AppArmor rejects the rule generated for the unix record"; exit 1
