// Counterexample 1 for C16 (rules generated from logs cover the logged access).
//
// Drop this file into pkg/logs/ (package logs) and run, from the worktree root:
//
//	GOFLAGS=-mod=mod GOPROXY=off GOSUMDB=off GOTOOLCHAIN=local \
//	    go test -p 1 -vet=off -count=1 -run TestCE1 ./pkg/logs/
//
// A network record of a kernel that does not log class= yet (before 6.2, e.g.
// Debian 12's 6.1) whose operation is file_inherit / file_perm / file_receive
// (a socket that was inherited, used or received as a file descriptor) gets no
// rule at all: AddRule tries the "file_" prefix before the family field.
package logs

import (
	"strings"
	"testing"
)

func TestCE1_ClasslessSocketFileOps(t *testing.T) {
	for _, tt := range []struct{ op, family, sockType, proto, want string }{
		{"file_inherit", "inet", "stream", "6", "network inet stream,"},
		{"file_perm", "netlink", "raw", "0", "network netlink raw,"},
		{"file_receive", "inet6", "dgram", "17", "network inet6 dgram,"},
		// control: the same record with another operation is mapped
		{"create", "inet", "stream", "6", "network inet stream,"},
	} {
		log := `type=AVC msg=audit(1111111111.111:1111): apparmor="DENIED" operation="` + tt.op +
			`" profile="foo" pid=1234 comm="foo" family="` + tt.family + `" sock_type="` + tt.sockType +
			`" protocol=` + tt.proto + ` requested_mask="send receive" denied_mask="send receive"` + "\n"
		profiles := New(strings.NewReader(log), "").ParseToProfiles()
		p, ok := profiles["foo"]
		if !ok {
			t.Errorf("%s: no rules block for profile foo", tt.op)
			continue
		}
		p.Merge(nil)
		p.Sort()
		p.Format()
		if got := p.String(); !strings.Contains(got, tt.want) {
			t.Errorf("operation=%s family=%s: want a rule %q, got:\n%s", tt.op, tt.family, tt.want, got)
		}
	}
}
