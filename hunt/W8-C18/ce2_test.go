// Counterexample 2 to property C18 (build options are orthogonal).
//
// Drop this file in:  pkg/prebuild/builder/
// Run from the worktree root:
//   export GOFLAGS=-mod=mod GOPROXY=off GOSUMDB=off GOTOOLCHAIN=local
//   go test -vet=off -count=1 -run TestCE2 ./pkg/prebuild/builder/
//
// Two builds that differ only in the ABI (4 vs 3) must differ only in the abi
// declaration and in the AppArmor-4-only rules (userns, mqueue) that ABI 3
// disables (plus guarded paragraphs and overwrite renames, none here).
// The mount rules below are written exactly like those of the shipped
// apparmor.d/groups/_full/systemd (column-aligned source device). A mount rule
// exists since AppArmor 2.8: it is not governed by the ABI. The abi3 builder
// nevertheless comments out the tail of the rule whose source device is
// "mqueue" (mount -t mqueue mqueue /dev/mqueue), and rewrites a file rule
// whose path contains "abi/4.0". FAILS on the unmodified tree.

package builder

import (
	"strings"
	"testing"

	"github.com/roddhjav/apparmor.d/pkg/paths"
)

const ce2Profile = `# apparmor.d - Full set of apparmor profiles
# SPDX-License-Identifier: GPL-2.0-only

abi <abi/4.0>,

include <tunables/global>

@{exec_path} = @{bin}/zz-ce-mq
profile zz-ce-mq @{exec_path} {
  include <abstractions/base>

  capability sys_admin,

  userns,

  mount fstype=hugetlbfs   options=(rw nosuid nodev)                  hugetlbfs -> /dev/hugepages/,
  mount fstype=mqueue      options=(rw nodev noexec nosuid)              mqueue -> /dev/mqueue/,
  mount fstype=tmpfs       options=(rw nosuid nodev noexec)               tmpfs -> /dev/shm/,

  mqueue r type=posix /,

  @{exec_path} mr,

  /etc/apparmor.d/abi/4.0 r,

  include if exists <local/zz-ce-mq>
}

# vim:syntax=apparmor
`

// ce2Build applies the builders in the order cmd/prebuild + cli.Configure register them.
func ce2Build(t *testing.T, src string, full bool, mode string, abi int) string {
	t.Helper()
	names := []string{"userspace", "hotfix"}
	if full {
		names = append(names, "fsp")
	}
	if mode != "" {
		names = append(names, mode)
	}
	if abi == 3 {
		names = append(names, "abi3")
	}
	opt := NewOption(paths.New("/tmp/ce2/apparmor.d/zz-ce-mq"))
	out := src
	for _, name := range names {
		var err error
		out, err = Builders[name].Apply(opt, out)
		if err != nil {
			t.Fatalf("%s: %v", name, err)
		}
	}
	return out
}

// ce2Governed: the ABI-4 line is the abi declaration or an AppArmor-4-only rule.
func ce2Governed(abi4Line string) bool {
	l := strings.TrimSpace(abi4Line)
	return strings.HasPrefix(l, "abi <abi/") ||
		l == "userns," || strings.HasPrefix(l, "userns ") ||
		strings.HasPrefix(l, "mqueue ") || l == "mqueue,"
}

func TestCE2_ABI3RewritesRulesItDoesNotGovern(t *testing.T) {
	for _, mode := range []string{"", "complain", "enforce"} {
		for _, full := range []bool{false, true} {
			abi4 := strings.Split(ce2Build(t, ce2Profile, full, mode, 4), "\n")
			abi3 := strings.Split(ce2Build(t, ce2Profile, full, mode, 3), "\n")
			if len(abi4) != len(abi3) {
				t.Fatalf("mode=%q full=%v: line count differs", mode, full)
			}
			for i := range abi4 {
				if abi4[i] != abi3[i] && !ce2Governed(abi4[i]) {
					t.Errorf("mode=%q full=%v line %d: the ABI option changed a rule it does not govern:\n  abi4: %q\n  abi3: %q",
						mode, full, i+1, abi4[i], abi3[i])
				}
			}
		}
	}
}
