#!/bin/bash
# Whole-build confirmation of counterexamples 1-3 to property C18 with the real CLI.
#
# Run from the worktree root:   bash .seed/ce_cli.sh
# It adds three temporary profiles under apparmor.d/profiles-s-z/, builds pairs of
# configurations at Hamming distance one with `go run ./cmd/prebuild`, diffs the built
# files, compiles them with the reference parser, then removes the temporary profiles,
# .build and restores debian/apparmor.d.hide. Exit status 1 = property violated (expected
# on the unmodified tree).
set -u
cd "$(git rev-parse --show-toplevel)" || exit 2
export GOFLAGS=-mod=mod GOPROXY=off GOSUMDB=off GOTOOLCHAIN=local GOCACHE=/tmp/gocache-$(basename "$PWD")
D=apparmor.d/profiles-s-z
OUT=$(mktemp -d)
cleanup() { rm -f $D/zz-ce-qb $D/zz-ce-mq $D/zz-ce-fsp; rm -rf .build "$OUT"; git checkout -q debian/apparmor.d.hide; }
trap cleanup EXIT
PARSER="/usr/sbin/apparmor_parser -Q -K --policy-features /etc/apparmor.d/abi/3.0 --kernel-features /etc/apparmor.d/abi/3.0"

head='# apparmor.d - Full set of apparmor profiles
# SPDX-License-Identifier: GPL-2.0-only

abi <abi/4.0>,

include <tunables/global>
'
cat > $D/zz-ce-qb <<END
$head
@{exec_path} = @{bin}/zz-ce-qb
profile zz-ce-qb @{exec_path} {
  include <abstractions/base>

  @{exec_path} mr,

  owner {
    @{user_config_dirs}/zz-ce-qb/{,**} rw,
    @{tmp}/zz-ce-qb-@{rand6} rw,
  }

  include if exists <local/zz-ce-qb>
}
END
cat > $D/zz-ce-mq <<END
$head
@{exec_path} = @{bin}/zz-ce-mq
profile zz-ce-mq @{exec_path} {
  include <abstractions/base>

  capability sys_admin,

  mount fstype=hugetlbfs   options=(rw nosuid nodev)                  hugetlbfs -> /dev/hugepages/,
  mount fstype=mqueue      options=(rw nodev noexec nosuid)              mqueue -> /dev/mqueue/,
  mount fstype=tmpfs       options=(rw nosuid nodev noexec)               tmpfs -> /dev/shm/,

  @{exec_path} mr,

  /etc/apparmor.d/abi/4.0 r,

  include if exists <local/zz-ce-mq>
}
END
cat > $D/zz-ce-fsp <<END
$head
@{exec_path} = @{bin}/zz-ce-fsp
profile zz-ce-fsp @{exec_path} {
  include <abstractions/base>

  @{exec_path} mr,

  @{bin}/{crux,prt-get}  rPx,
  @{bin}/pkgmk           rPx -> crux,

  /etc/{crux,pkgadd.conf} r,

  include if exists <local/zz-ce-fsp>
}
END

build() { # name, args...
	local name=$1; shift
	rm -rf .build
	DISTRIBUTION=arch go run ./cmd/prebuild "$@" > "$OUT/$name.log" 2>&1 || { echo "build $name failed"; cat "$OUT/$name.log"; exit 2; }
	mkdir -p "$OUT/$name"; cp -a .build/apparmor.d "$OUT/$name/"
}
compile() { # build, profile
	$PARSER -I "$OUT/$1/apparmor.d" -I /etc/apparmor.d -S "$OUT/$1/apparmor.d/$2" 2>&1 >/dev/null | tail -1
	return ${PIPESTATUS[0]}
}
rc=0

build base     --abi 3 --version 3.0
build complain --abi 3 --version 3.0 --complain
build abi4     --abi 4 --version 3.0
build full     --abi 3 --version 3.0 --full

echo "== CE1: mode none -> complain (abi 3, version 3.0, arch): non-header lines that changed"
diff "$OUT/base/apparmor.d/zz-ce-qb" "$OUT/complain/apparmor.d/zz-ce-qb" | grep '^[<>]' | grep -vE '^[<>] *(profile|hat) ' && rc=1
echo "   reference parser, mode none:    $(compile base zz-ce-qb && echo compiles)"
echo "   reference parser, --complain:   $(compile complain zz-ce-qb && echo compiles)"

echo "== CE2: abi 4 -> abi 3 (version 3.0, arch): changed lines other than the abi declaration"
diff "$OUT/abi4/apparmor.d/zz-ce-mq" "$OUT/base/apparmor.d/zz-ce-mq" | grep '^[<>]' | grep -vE '^[<>] *abi <abi/' && rc=1
sed -i 's;^abi <abi/4.0>,;abi <abi/3.0>,;' "$OUT/abi4/apparmor.d/zz-ce-mq"
echo "   reference parser, abi 4 build with only the abi line switched: $(compile abi4 zz-ce-mq && echo compiles)"
echo "   reference parser, abi 3 build:                                $(compile base zz-ce-mq && echo compiles)"

echo "== CE3: full 0 -> 1 (abi 3, version 3.0, arch): changed lines"
diff "$OUT/base/apparmor.d/zz-ce-fsp" "$OUT/full/apparmor.d/zz-ce-fsp" | grep '^[<>]' && rc=1

[ $rc = 1 ] && echo "FAIL: property C18 violated" || echo "PASS"
exit $rc
