// Counterexample 3 to property C18 (build options are orthogonal).
//
// Drop this file in:  pkg/prebuild/builder/
// Run from the worktree root:
//   export GOFLAGS=-mod=mod GOPROXY=off GOSUMDB=off GOTOOLCHAIN=local
//   go test -vet=off -count=1 -run TestCE3 ./pkg/prebuild/builder/
//
// Two builds that differ only in --full must differ, inside a profile, only in
// exec transition modes. The fsp builder pattern `r(pu|u)x,` is not anchored to
// the access field of a rule: it also matches the text "rux," inside a path
// alternation ({crux,prt-get}: the package tools of CRUX Linux) and at the end
// of a named transition target (-> crux,). The path and the target profile name
// of these rules change; their exec mode (Px) was already confined and must
// stay as it is. FAILS on the unmodified tree.

package builder

import (
	"strings"
	"testing"

	"github.com/roddhjav/apparmor.d/pkg/paths"
)

const ce3Profile = `# apparmor.d - Full set of apparmor profiles
# SPDX-License-Identifier: GPL-2.0-only

abi <abi/4.0>,

include <tunables/global>

@{exec_path} = @{bin}/zz-ce-fsp
profile zz-ce-fsp @{exec_path} {
  include <abstractions/base>

  @{exec_path} mr,

  @{bin}/{crux,prt-get}  rPx,
  @{bin}/pkgmk           rPx -> crux,
  @{bin}/true            rPUx,

  /etc/{crux,pkgadd.conf} r,

  include if exists <local/zz-ce-fsp>
}

# vim:syntax=apparmor
`

// ce3Build applies the builders in the order cmd/prebuild + cli.Configure register them.
func ce3Build(t *testing.T, src string, full bool, mode string, abi int) string {
	t.Helper()
	names := []string{"userspace", "hotfix"}
	if full {
		names = append(names, "fsp")
	}
	if mode != "" {
		names = append(names, mode)
	}
	if abi == 3 {
		names = append(names, "abi3")
	}
	opt := NewOption(paths.New("/tmp/ce3/apparmor.d/zz-ce-fsp"))
	out := src
	for _, name := range names {
		var err error
		out, err = Builders[name].Apply(opt, out)
		if err != nil {
			t.Fatalf("%s: %v", name, err)
		}
	}
	return out
}

// ce3OnlyModeDiffers: both lines are file rules "<path> <mode>[ -> target]," with the
// same path and the same target, i.e. only the access/exec mode field differs.
func ce3OnlyModeDiffers(a, b string) bool {
	fa, fb := strings.Fields(a), strings.Fields(b)
	if len(fa) != len(fb) || len(fa) < 2 {
		return false
	}
	for i := range fa {
		if i == 1 { // the access mode field
			continue
		}
		if fa[i] != fb[i] {
			return false
		}
	}
	return true
}

func TestCE3_FullRewritesPathsAndTargets(t *testing.T) {
	for _, mode := range []string{"", "complain", "enforce"} {
		for _, abi := range []int{3, 4} {
			off := strings.Split(ce3Build(t, ce3Profile, false, mode, abi), "\n")
			on := strings.Split(ce3Build(t, ce3Profile, true, mode, abi), "\n")
			if len(off) != len(on) {
				t.Fatalf("mode=%q abi=%d: line count differs", mode, abi)
			}
			for i := range off {
				if off[i] != on[i] && !ce3OnlyModeDiffers(off[i], on[i]) {
					t.Errorf("mode=%q abi=%d line %d: --full changed something else than an exec mode:\n  full=0: %q\n  full=1: %q",
						mode, abi, i+1, off[i], on[i])
				}
			}
		}
	}
}
