// Counterexample 1 to property C18 (build options are orthogonal).
//
// Drop this file in:  pkg/prebuild/builder/
// Run from the worktree root:
//   export GOFLAGS=-mod=mod GOPROXY=off GOSUMDB=off GOTOOLCHAIN=local
//   go test -vet=off -count=1 -run TestCE1 ./pkg/prebuild/builder/
//
// Two builds of the same file that differ only in the mode option (none vs
// --complain) must differ on profile header lines only. A qualifier rule
// block ("owner { ... }", "audit { ... }": valid AppArmor, accepted by
// apparmor_parser 3.0.8) is not a profile header, yet --complain rewrites
// its opening line into "owner flags=(complain) {", which the reference
// parser rejects. FAILS on the unmodified tree.

package builder

import (
	"strings"
	"testing"

	"github.com/roddhjav/apparmor.d/pkg/paths"
)

const ce1Profile = `# apparmor.d - Full set of apparmor profiles
# SPDX-License-Identifier: GPL-2.0-only

abi <abi/4.0>,

include <tunables/global>

@{exec_path} = @{bin}/zz-ce-qb
profile zz-ce-qb @{exec_path} {
  include <abstractions/base>

  @{exec_path} mr,

  /etc/zz-ce-qb.conf r,

  owner {
    @{user_config_dirs}/zz-ce-qb/{,**} rw,
    @{tmp}/zz-ce-qb-@{rand6} rw,
  }

  audit {
    /etc/shadow r,
  }

  include if exists <local/zz-ce-qb>
}

# vim:syntax=apparmor
`

// ce1Build applies the builders in the order cmd/prebuild + cli.Configure register them.
func ce1Build(t *testing.T, src string, full bool, mode string, abi int) string {
	t.Helper()
	names := []string{"userspace", "hotfix"}
	if full {
		names = append(names, "fsp")
	}
	if mode != "" {
		names = append(names, mode)
	}
	if abi == 3 {
		names = append(names, "abi3")
	}
	opt := NewOption(paths.New("/tmp/ce1/apparmor.d/zz-ce-qb"))
	out := src
	for _, name := range names {
		var err error
		out, err = Builders[name].Apply(opt, out)
		if err != nil {
			t.Fatalf("%s: %v", name, err)
		}
	}
	return out
}

// ce1IsHeader: the line opens a profile, a sub-profile or a hat.
func ce1IsHeader(line string) bool {
	l := strings.TrimSpace(line)
	return strings.HasSuffix(l, "{") &&
		(strings.HasPrefix(l, "profile ") || strings.HasPrefix(l, "hat ") || strings.HasPrefix(l, "^"))
}

func TestCE1_ComplainRewritesQualifierBlock(t *testing.T) {
	for _, abi := range []int{3, 4} {
		for _, full := range []bool{false, true} {
			none := strings.Split(ce1Build(t, ce1Profile, full, "", abi), "\n")
			complain := strings.Split(ce1Build(t, ce1Profile, full, "complain", abi), "\n")
			if len(none) != len(complain) {
				t.Fatalf("abi=%d full=%v: line count differs: %d != %d", abi, full, len(none), len(complain))
			}
			for i := range none {
				if none[i] != complain[i] && !(ce1IsHeader(none[i]) && ce1IsHeader(complain[i])) {
					t.Errorf("abi=%d full=%v line %d: the mode option changed a line that is not a profile header:\n  none:     %q\n  complain: %q",
						abi, full, i+1, none[i], complain[i])
				}
			}
		}
	}
}
