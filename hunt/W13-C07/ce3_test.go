// Counterexample 3 for property C07 (stack adds every rule of the stacked
// profile except its base include, its entry point and -- unless X is given --
// its exec transitions).
//
// The entry point is removed with the pattern `^.*@{exec_path}.*$`: every line
// that mentions the variable goes, not only the entry point '@{exec_path} mr,'.
// Three shipped profiles have such a second rule, for a helper that lives next
// to the program:
//   apparmor.d/groups/virt/cni-calico:25                      @{exec_path}-ipam rix,
//   apparmor.d/groups/gnome/evolution-addressbook-factory:58  @{exec_path}-subprocess rix,
//   apparmor.d/groups/gnome/evolution-calendar-factory:71     @{exec_path}-subprocess rix,
// '#aa:stack X cni-calico' asks to keep the exec rules, yet the host gets no rule
// at all for .../calico-ipam (neither verbatim nor with the value of the stacked
// profile's @{exec_path}).
//
// Drop this file in:  pkg/prebuild/directive/
// Run (from the worktree root):
//   export GOFLAGS=-mod=mod GOPROXY=off GOSUMDB=off GOTOOLCHAIN=local
//   go test -vet=off -count=1 -run TestCE3_StackXDropsRuleNextToEntryPoint ./pkg/prebuild/directive/
// Fails on the unmodified tree.

package directive

import (
	"strings"
	"testing"

	"github.com/roddhjav/apparmor.d/pkg/paths"
	"github.com/roddhjav/apparmor.d/pkg/prebuild"
)

func TestCE3_StackXDropsRuleNextToEntryPoint(t *testing.T) {
	const host = `abi <abi/4.0>,

include <tunables/global>

@{exec_path} = @{bin}/host
profile host @{exec_path} {
  include <abstractions/base>

  @{exec_path} mr,

  #aa:stack X cni-calico
  @{lib}/cni/calico rPx -> host//&cni-calico,

  include if exists <local/host>
}
`
	old := prebuild.RootApparmord
	defer func() { prebuild.RootApparmord = old }()
	// The shipped profile, as it stands in the source tree
	prebuild.RootApparmord = paths.New("../../../apparmor.d/groups/virt/")
	stacked := prebuild.RootApparmord.Join("cni-calico").MustReadFileAsString()
	if !strings.Contains(stacked, "\n  @{exec_path} mr,\n  @{exec_path}-ipam rix,\n") {
		t.Skip("the shipped cni-calico profile changed")
	}

	got, err := Run(paths.New("host"), host)
	if err != nil {
		t.Fatalf("Run() error = %v", err)
	}
	idx := strings.Index(got, "  # Stacked profile: cni-calico\n")
	if idx < 0 {
		t.Fatalf("nothing stacked:\n%s", got)
	}
	added := got[idx:]

	// The entry point itself is rightly gone
	if strings.Contains(added, "@{exec_path} mr,") {
		t.Errorf("the entry point of the stacked profile was kept")
	}
	// The rule for the helper is a rule of the stacked profile like any other (X: exec rules are kept)
	if !strings.Contains(added, "-ipam rix,") {
		t.Errorf("'#aa:stack X cni-calico' dropped the rule '@{exec_path}-ipam rix,' of cni-calico: "+
			"no rule for calico-ipam in what was added:\n%s", added)
	}
}
