// Counterexample 1 for property C07 (stack adds the rules to the current profile).
//
// A '#aa:stack' directive written inside a sub-profile adds the rules of the
// stacked profile to the *parent* profile (before the parent's local include):
// the sub-profile that holds the directive -- the "current profile" of
// docs/development/directives.md -- receives nothing, and the parent profile,
// which never asked for them, receives rules it did not have.
//
// Drop this file in:  pkg/prebuild/directive/
// Run (from the worktree root):
//   export GOFLAGS=-mod=mod GOPROXY=off GOSUMDB=off GOTOOLCHAIN=local
//   go test -vet=off -count=1 -run TestCE1_StackInsideSubProfile ./pkg/prebuild/directive/
// Fails on the unmodified tree.

package directive

import (
	"strings"
	"testing"

	"github.com/roddhjav/apparmor.d/pkg/paths"
	"github.com/roddhjav/apparmor.d/pkg/prebuild"
)

func TestCE1_StackInsideSubProfile(t *testing.T) {
	const stacked = `abi <abi/4.0>,

include <tunables/global>

@{exec_path} = @{bin}/aaa
profile aaa @{exec_path} {
  include <abstractions/base>

  @{exec_path} mr,

  /etc/aaa r,

  include if exists <local/aaa>
}
`
	const host = `abi <abi/4.0>,

include <tunables/global>

@{exec_path} = @{bin}/host
profile host @{exec_path} {
  include <abstractions/base>

  @{exec_path} mr,

  @{bin}/child rCx -> child,

  profile child {
    include <abstractions/base>

    #aa:stack aaa
    @{bin}/aaa rPx -> host//child//&aaa,

    include if exists <local/host_child>
  }

  include if exists <local/host>
}
`
	old := prebuild.RootApparmord
	defer func() { prebuild.RootApparmord = old }()
	root := paths.New(t.TempDir())
	if err := root.Join("aaa").WriteFile([]byte(stacked)); err != nil {
		t.Fatal(err)
	}
	if err := root.Join("host").WriteFile([]byte(host)); err != nil {
		t.Fatal(err)
	}
	prebuild.RootApparmord = root

	got, err := Run(root.Join("host"), host)
	if err != nil {
		t.Fatalf("Run() error = %v", err)
	}
	if strings.Contains(got, Keyword) {
		t.Errorf("a directive is left in the output:\n%s", got)
	}

	// Split the output in: the text of the sub-profile 'child', and the rest (the parent's own lines)
	start := strings.Index(got, "  profile child {\n")
	end := strings.Index(got, "\n  }\n")
	if start < 0 || end < start {
		t.Fatalf("sub-profile not found in:\n%s", got)
	}
	child := got[start : end+len("\n  }\n")]
	parent := got[:start] + got[end+len("\n  }\n"):]

	if !strings.Contains(child, "/etc/aaa r,") {
		t.Errorf("the profile that holds '#aa:stack aaa' (host//child) did not receive the rule '/etc/aaa r,' of aaa:\n%s", child)
	}
	if strings.Contains(parent, "/etc/aaa r,") || strings.Contains(parent, "<local/aaa>") {
		t.Errorf("the parent profile 'host' has no stack directive but received the rules of aaa:\n%s", got)
	}
}
