// Counterexample 2 for property C07 (no '#aa:' directive remains after the build).
//
// directive.Run scans a profile at most three times (maxPasses). A stacked
// profile may itself stack another one (1392de3 made that work for one level):
// with host -> aaa -> bbb -> ccc, the directives of ccc (here one '#aa:dbus own')
// enter the host text in the third pass and are never expanded. Run reports no
// error: the line is written, inert, to the output file, and the host misses the
// bind/send/receive rules of the name that ccc owns.
//
// Drop this file in:  pkg/prebuild/directive/
// Run (from the worktree root):
//   export GOFLAGS=-mod=mod GOPROXY=off GOSUMDB=off GOTOOLCHAIN=local
//   go test -vet=off -count=1 -run TestCE2_NestedStackLeavesDirective ./pkg/prebuild/directive/
// Fails on the unmodified tree.

package directive

import (
	"fmt"
	"strings"
	"testing"

	"github.com/roddhjav/apparmor.d/pkg/paths"
	"github.com/roddhjav/apparmor.d/pkg/prebuild"
)

func TestCE2_NestedStackLeavesDirective(t *testing.T) {
	mk := func(name, directive string) string {
		return fmt.Sprintf(`abi <abi/4.0>,

include <tunables/global>

@{exec_path} = @{bin}/%[1]s
profile %[1]s @{exec_path} {
  include <abstractions/base>

  @{exec_path} mr,

  /etc/%[1]s r,
  %[2]s

  include if exists <local/%[1]s>
}
`, name, directive)
	}
	files := map[string]string{
		"host": mk("host", "#aa:stack aaa"),
		"aaa":  mk("aaa", "#aa:stack bbb"),
		"bbb":  mk("bbb", "#aa:stack ccc"),
		"ccc":  mk("ccc", "#aa:dbus own bus=session name=org.example.Ccc"),
	}

	old := prebuild.RootApparmord
	defer func() { prebuild.RootApparmord = old }()
	root := paths.New(t.TempDir())
	for name, text := range files {
		if err := root.Join(name).WriteFile([]byte(text)); err != nil {
			t.Fatal(err)
		}
	}
	prebuild.RootApparmord = root

	got, err := Run(root.Join("host"), files["host"])
	if err != nil {
		t.Fatalf("Run() error = %v", err)
	}
	for _, line := range strings.Split(got, "\n") {
		if strings.Contains(line, Keyword) {
			t.Errorf("directive left in the built profile, and no error reported: %q", line)
		}
	}
	for _, want := range []string{"/etc/aaa r,", "/etc/bbb r,", "/etc/ccc r,", "dbus bind bus=session name=org.example.Ccc{,.*},"} {
		if !strings.Contains(got, want) {
			t.Errorf("rule %q of the stacked profiles is missing from the host", want)
		}
	}
}
