// Counterexample 1 for property C15 (aa-log reports each record's own field values).
//
// Drop this file in pkg/logs/ (package logs) and run, from the worktree root:
//
//	export GOFLAGS=-mod=mod GOPROXY=off GOSUMDB=off GOTOOLCHAIN=local GOCACHE=/tmp/gocache-W13-C15
//	go test -vet=off -count=1 -run 'TestCE1' ./pkg/logs
//
// It FAILS on the unmodified tree. Remove the file afterwards.
//
// rsyslog (RepeatedMsgReduction, the Ubuntu default for /var/log/syslog, one of
// the two default files of aa-log) writes a record that repeats as
//
//	<header> message repeated N times: [ <record>]
//
// The closing bracket touches the last field of the record. aa-log strips the
// header up to apparmor=" but keeps the bracket: the last field of the record
// is reported with a value the record does not have (`unconfined"]`, `1000]`).
package logs

import (
	"strings"
	"testing"
)

// A session bus denial logged by dbus-daemon through syslog: it has no serial
// number, so the same text repeats and rsyslog folds it.
func TestCE1_SyslogRepeatedDbus(t *testing.T) {
	record := `apparmor="DENIED" operation="dbus_method_call"  bus="session" path="/org/freedesktop/DBus" interface="org.freedesktop.DBus" member="Hello" mask="send" name="org.freedesktop.DBus" pid=4242 label="firefox" peer_pid=4000 peer_label="unconfined"`
	plain := `Oct  2 10:00:00 host dbus-daemon[1234]: ` + record
	folded := `Oct  2 10:00:07 host dbus-daemon[1234]: message repeated 3 times: [ ` + record + `]`

	want := New(strings.NewReader(plain+"\n"), "")
	got := New(strings.NewReader(folded+"\n"), "")
	if len(want) != 1 || want[0]["peer_label"] != "unconfined" {
		t.Fatalf("reference record not parsed as expected: %q", want)
	}
	if len(got) != 1 {
		t.Fatalf("got %d events, want 1", len(got))
	}
	if got[0]["peer_label"] != "unconfined" {
		t.Errorf("peer_label = %q, the record says %q", got[0]["peer_label"], "unconfined")
	}
	// The same event twice (once plain, once folded) must be one and the same event
	for k, v := range want[0] {
		if got[0][k] != v {
			t.Errorf("field %s = %q, the record says %q", k, got[0][k], v)
		}
	}
}

// The same wrapper around a file record: ouid is reported as `1000]`, it does
// not equal fsuid any more and the event loses its owner mark.
func TestCE1_SyslogRepeatedOwner(t *testing.T) {
	record := `apparmor="DENIED" operation="open" profile="foo" name="/home/user/x y" pid=12 comm="cat" requested_mask="r" denied_mask="r" fsuid=1000 ouid=1000`
	record = strings.Replace(record, `name="/home/user/x y"`, `name=2F686F6D652F757365722F782079`, 1) // as the kernel writes a name with a blank
	plain := `Oct  2 10:00:00 host kernel: [  123.456] audit: type=1400 audit(1696240800.123:45): ` + record
	folded := `Oct  2 10:00:07 host kernel: message repeated 2 times: [ [  123.456] audit: type=1400 audit(1696240800.123:45): ` + record + `]`

	want := New(strings.NewReader(plain+"\n"), "")
	got := New(strings.NewReader(folded+"\n"), "")
	if len(want) != 1 || len(got) != 1 {
		t.Fatalf("got %d and %d events, want 1 and 1", len(want), len(got))
	}
	if got[0]["ouid"] != "1000" {
		t.Errorf("ouid = %q, the record says %q", got[0]["ouid"], "1000")
	}
	if w, g := want.String(), got.String(); w != g {
		t.Errorf("the same record is printed differently:\n plain:  %q\n folded: %q", w, g)
	}
}
