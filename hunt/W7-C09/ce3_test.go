// Counterexample 3 for property C09 (rule text round-trips through printer and parser).
//
// A dbus service rule that has a name= condition but no explicit "bind" access
// (valid: the access expression is optional, `dbus bus=session name=org.foo,`)
// is printed WITHOUT its name condition, i.e. as `dbus bus=session,` which
// allows every dbus operation on the session bus.
//
// Drop this file in:  pkg/aa/
// Run (from the worktree root):
//   export GOFLAGS=-mod=mod GOPROXY=off GOSUMDB=off GOTOOLCHAIN=local GOCACHE=/tmp/gocache-$(basename $PWD)
//   go test -vet=off -count=1 -run TestCE3 ./pkg/aa/
//
// FAILS on the unmodified tree.
// The input is valid for the reference parser:
//   printf 'profile foo { dbus bus=session name=org.foo, }\n' > /tmp/p.aa
//   /usr/sbin/apparmor_parser -Q -K --policy-features /etc/apparmor.d/abi/3.0 --kernel-features /etc/apparmor.d/abi/3.0 -S /tmp/p.aa >/dev/null && echo VALID
package aa

import (
	"reflect"
	"strings"
	"testing"
)

func TestCE3_DbusNameWithoutBindAccess(t *testing.T) {
	// text -> rule: the parser keeps the name
	parsed, _, err := ParseRules("dbus bus=session name=org.foo,\n\n")
	if err != nil {
		t.Fatal(err)
	}
	want := parsed.Flatten()[0].(*Dbus)
	if want.Name != "org.foo" || want.Bus != "session" {
		t.Fatalf("unexpected first parse: %+v", want)
	}

	// the same rule built by hand, and with a qualifier
	for _, r := range []*Dbus{
		want,
		{Bus: "session", Name: "org.foo"},
		{Qualifier: Qualifier{AccessType: "deny"}, Bus: "system", Name: "org.freedesktop.{a,b}"},
	} {
		text := r.String()
		if !strings.Contains(text, "name=") {
			t.Errorf("%+v is printed as %q: the name condition is gone", *r, text)
		}
		back, _, err := ParseRules(text + "\n\n")
		if err != nil {
			t.Errorf("printed rule %q cannot be parsed back: %v", text, err)
			continue
		}
		got := back.Flatten()[0]
		if !reflect.DeepEqual(got, Rule(r)) {
			t.Errorf("printed rule %q parsed back as %+v, want %+v", text, *got.(*Dbus), *r)
		}
	}
}
