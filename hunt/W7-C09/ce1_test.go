// Counterexample 1 for property C09 (rule text round-trips through printer and parser).
//
// A file rule that carries a qualifier (audit / deny / allow) and whose path
// contains '(' or '=' is printed correctly but cannot be parsed back.
//
// Drop this file in:  pkg/aa/
// Run (from the worktree root):
//   export GOFLAGS=-mod=mod GOPROXY=off GOSUMDB=off GOTOOLCHAIN=local GOCACHE=/tmp/gocache-$(basename $PWD)
//   go test -vet=off -count=1 -run TestCE1 ./pkg/aa/
//
// FAILS on the unmodified tree.
package aa

import (
	"reflect"
	"testing"
)

func TestCE1_QualifierThenPathWithParenOrEqual(t *testing.T) {
	for _, want := range []*File{
		// exactly what `aa-log -r` emits for an AUDIT log of "/home/u/report (1).pdf"
		{Qualifier: Qualifier{Audit: true}, Path: `"@{HOME}/report (1).pdf"`, Access: []string{"r"}},
		{Qualifier: Qualifier{AccessType: "deny"}, Path: `"/opt/My App (x86)/**"`, Access: []string{"w"}},
		{Qualifier: Qualifier{AccessType: "deny"}, Path: `/etc/foo=bar`, Access: []string{"r"}},
		// control: the same paths without a qualifier are fine
		{Path: `"@{HOME}/report (1).pdf"`, Access: []string{"r"}},
		{Path: `/etc/foo=bar`, Access: []string{"r"}},
	} {
		text := want.String()
		t.Run(text, func(t *testing.T) {
			parsed, _, err := ParseRules(text + "\n\n")
			if err != nil {
				t.Fatalf("printed rule %q cannot be parsed back: %v", text, err)
			}
			got := parsed.Flatten()
			if len(got) != 1 {
				t.Fatalf("printed rule %q parsed back as %d rules", text, len(got))
			}
			if !reflect.DeepEqual(got[0], Rule(want)) {
				t.Errorf("printed rule %q parsed back as %#v, want %#v", text, got[0], want)
			}
			if got[0].String() != text {
				t.Errorf("re-rendered %q, want %q", got[0].String(), text)
			}
		})
	}
}
