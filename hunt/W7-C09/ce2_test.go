// Counterexample 2 for property C09 (rule text round-trips through printer and parser).
//
// A preamble variable whose value contains '+' or '=' outside of braces
// (e.g. "/usr/include/c++/") is not recovered when the rendered profile file is
// parsed back: the tokenizer treats every '+' / '=' of the line as an
// assignment operator.
//
// Drop this file in:  pkg/aa/
// Run (from the worktree root):
//   export GOFLAGS=-mod=mod GOPROXY=off GOSUMDB=off GOTOOLCHAIN=local GOCACHE=/tmp/gocache-$(basename $PWD)
//   go test -vet=off -count=1 -run TestCE2 ./pkg/aa/
//
// FAILS on the unmodified tree.
// The text is valid for the reference parser:
//   printf '@{x} = /usr/include/c++/\nprofile foo @{x} { }\n' > /tmp/p.aa
//   /usr/sbin/apparmor_parser -Q -K --policy-features /etc/apparmor.d/abi/3.0 --kernel-features /etc/apparmor.d/abi/3.0 -S /tmp/p.aa >/dev/null && echo VALID
package aa

import (
	"reflect"
	"testing"
)

func TestCE2_VariableValueWithPlusOrEqual(t *testing.T) {
	for _, values := range [][]string{
		{"/usr/include/c++/"},
		{"/usr/share/gtk+-3.0/"},
		{"org.foo=bar"},
		{"/usr/include/c{++,xx}/"}, // control: inside braces it works
	} {
		f := &AppArmorProfileFile{
			Preamble: Rules{&Variable{Name: "x", Values: values, Define: true}},
			Profiles: []*Profile{{Header: Header{Name: "foo", Attachments: []string{"@{x}"}}}},
		}
		text := f.String()
		t.Run(values[0], func(t *testing.T) {
			g := &AppArmorProfileFile{}
			if _, err := g.Parse(text); err != nil {
				t.Fatalf("rendered file cannot be parsed back: %v\n%s", err, text)
			}
			vars := g.Preamble.GetVariables()
			if len(vars) != 1 {
				t.Fatalf("got %d variables, want 1\n%s", len(vars), text)
			}
			if vars[0].Name != "x" || !vars[0].Define || !reflect.DeepEqual(vars[0].Values, values) {
				t.Errorf("variable parsed back as %+v, want Name=x Define=true Values=%q\ntext:\n%s", *vars[0], values, text)
			}
			if g.String() != text {
				t.Errorf("re-rendered file differs:\n%s\nwant:\n%s", g.String(), text)
			}
		})
	}
}
