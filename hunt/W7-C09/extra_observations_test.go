// Additional verified observations for property C09 (not counted among the three
// counterexamples; every subtest FAILS on the unmodified tree).
//
// Drop this file in:  pkg/aa/
// Run (from the worktree root):
//   export GOFLAGS=-mod=mod GOPROXY=off GOSUMDB=off GOTOOLCHAIN=local GOCACHE=/tmp/gocache-$(basename $PWD)
//   go test -vet=off -count=1 -run TestExtra ./pkg/aa/
package aa

import (
	"reflect"
	"testing"
)

func roundTrip(t *testing.T, in string) {
	t.Helper()
	p1, _, err := ParseRules(in)
	if err != nil {
		t.Fatalf("valid input %q is rejected: %v", in, err)
	}
	r1 := p1.Flatten()
	text := r1.String()
	p2, _, err := ParseRules(text + "\n")
	if err != nil {
		t.Fatalf("input %q is printed as %q, which cannot be parsed back: %v", in, text, err)
	}
	r2 := p2.Flatten()
	if !reflect.DeepEqual(r1, r2) {
		t.Errorf("input %q is printed as %q, which parses back differently (re-rendered %q)", in, text, r2.String())
	}
}

// E1: the bare file rule (shipped: apparmor.d/groups/pacman/makepkg:29) is printed as " ,"
func TestExtra_BareFileRule(t *testing.T) { roundTrip(t, "file,\n\n") }

// E2: fstype=(a, b) is printed as "fstype=a b"; "b" becomes the mount source
func TestExtra_MountFstypeList(t *testing.T) {
	roundTrip(t, "mount fstype=(ext3, ext4) /dev/sda -> /mnt/,\n\n")
}

// E3: ", " inside a quoted path is taken for the end of the rule
func TestExtra_CommaSpaceInQuotedPath(t *testing.T) { roundTrip(t, "\"/home/a, b/\" r,\n\n") }

// E4: an empty comment line "#" is printed as an empty line and disappears
func TestExtra_EmptyCommentLine(t *testing.T) { roundTrip(t, "# a\n#\n# b\n/foo r,\n\n") }

// E5: profile flags that carry a value are lost (flags listed in requirements[PROFILE])
func TestExtra_HeaderFlagWithValue(t *testing.T) {
	f := &AppArmorProfileFile{Profiles: []*Profile{{Header: Header{
		Name: "foo", Flags: []string{"complain", "kill.signal=hup"},
	}}}}
	g := &AppArmorProfileFile{}
	if _, err := g.Parse(f.String()); err != nil {
		t.Fatal(err)
	}
	if !reflect.DeepEqual(g.Profiles[0].Flags, f.Profiles[0].Flags) {
		t.Errorf("%q parsed back with flags %q, want %q", f.String(), g.Profiles[0].Flags, f.Profiles[0].Flags)
	}
}
