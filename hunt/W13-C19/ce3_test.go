// CE3 (C19) -- an exec directive that names a shipped profile without
// attachment (the contract says "whose attachment, if any, ...": 16 shipped
// profiles have none and define no @{exec_path}, e.g. groups/children/child-pager)
// makes the directive
// panic (slice bounds out of range [:-1]) instead of reporting an error or
// producing no rule.
//
// Drop in: pkg/prebuild/directive/ce3_test.go
// Command: go test -vet=off -count=1 -run TestCE3 ./pkg/prebuild/directive/
// Result:  FAILS (panic recovered and reported) on the unmodified tree.

package directive

import (
	"testing"

	"github.com/roddhjav/apparmor.d/pkg/paths"
	"github.com/roddhjav/apparmor.d/pkg/prebuild"
)

func TestCE3_ExecProfileWithoutAttachment(t *testing.T) {
	root := prebuild.RootApparmord
	defer func() { prebuild.RootApparmord = root }()
	prebuild.RootApparmord = paths.New("../../../apparmor.d/groups/children/")

	for _, target := range []string{"child-pager", "child-open"} {
		t.Run(target, func(t *testing.T) {
			defer func() {
				if r := recover(); r != nil {
					t.Fatalf("'#aa:exec %s' panics: %v", target, r)
				}
			}()
			raw := "  #aa:exec " + target
			opt := &Option{
				Name:    "exec",
				ArgMap:  map[string]string{target: ""},
				ArgList: []string{target},
				Raw:     raw,
			}
			got, err := Directives["exec"].Apply(opt, "profile foo {\n"+raw+"\n}\n")
			t.Logf("got %q, err %v", got, err)
		})
	}
}
