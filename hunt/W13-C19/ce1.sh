#!/usr/bin/env bash
# CE1 (C19) -- in a `--full` build the flags manifest never reaches the
# profiles of apparmor.d/groups/_full, although each of them honours the layout
# contract (file name == profile name) and dists/flags/main.flags names them.
#
# Where:   run from the root of the worktree (no file to drop in the tree).
# Command: bash .seed/ce1.sh
# Result:  exits 1 on the unmodified tree (7 profiles are built without the
#          flags of the manifest); exits 0 once setflags sees the _full profiles.
set -u
export GOFLAGS=-mod=mod GOPROXY=off GOSUMDB=off GOTOOLCHAIN=local GOCACHE=/tmp/gocache-$(basename "$PWD")

log=$(DISTRIBUTION=arch go run ./cmd/prebuild --abi 4 --version 4.0 --full 2>&1) || { echo "$log"; echo "prebuild failed"; exit 2; }

fail=0
for name in $(ls apparmor.d/groups/_full); do
    want=$(grep -E "^$name " dists/flags/main.flags | awk '{print $2}')
    [ -n "$want" ] || continue            # not named by the manifest
    header=$(grep -m1 -E "^profile $name[ {]" ".build/apparmor.d/$name")
    got=$(echo "$header" | sed -n 's/.*flags=(\([^)]*\)).*/\1/p')
    if [ "$got" != "$want" ]; then
        echo "FAIL $name: manifest says ($want), built header is: $header"
        fail=1
    fi
    if echo "$log" | grep -q "Profile $name not found, ignoring"; then
        echo "     prebuild --full logged: Profile $name not found, ignoring"
    fi
done
git checkout -q debian/apparmor.d.hide 2>/dev/null
exit $fail
