#!/usr/bin/env bash
# CE2 (C19) -- `prebuild --file <profile>` (the documented `make dev name=...`
# workflow) panics on every shipped profile that carries an exec or stack
# directive: the directive looks the named profile up by file name in the build
# root, which holds nothing but the one file.
#
# Where:   run from the root of the worktree (no file to drop in the tree).
# Command: bash .seed/ce2.sh
# Result:  exits 1 on the unmodified tree (16 shipped profiles make prebuild
#          panic); exits 0 when every single-file build succeeds and the exec
#          directive of dolphin has produced the rule for kioworker.
set -u
export GOFLAGS=-mod=mod GOPROXY=off GOSUMDB=off GOTOOLCHAIN=local GOCACHE=/tmp/gocache-$(basename "$PWD")
mkdir -p .build && go build -o .build/prebuild-ce2 ./cmd/prebuild || exit 2

fail=0
for f in $(grep -rlE '#aa:(exec|stack)' apparmor.d/groups apparmor.d/profiles-*-* | grep -v -e /_full/ -e /whonix/ -e plasma-discover | sort); do
    out=$(DISTRIBUTION=arch ./.build/prebuild-ce2 --abi 4 --version 4.0 --file "$f" 2>&1)
    rc=$?
    if [ $rc -ne 0 ]; then
        echo "FAIL $f: exit $rc: $(echo "$out" | grep -m1 -E '^panic|Error')"
        fail=1
    fi
done
out=$(DISTRIBUTION=arch ./.build/prebuild-ce2 --abi 4 --version 4.0 --file apparmor.d/groups/kde/dolphin 2>&1)
if ! grep -q 'kf6/kioworker Px,' .build/apparmor.d/dolphin 2>/dev/null; then
    echo "FAIL dolphin: '#aa:exec kioworker' did not produce the rule for kioworker"
    fail=1
fi
rm -f .build/prebuild-ce2
git checkout -q debian/apparmor.d.hide 2>/dev/null
exit $fail
