// Counterexample 3 for C05: the builders only see a block header when the whole
// header stands on one line that ends with the opening brace. A header followed
// by a comment ("profile sub { # helper"), a header whose brace stands on the
// next line, and a block written on one line ("profile sub { ... }") are all valid
// for the reference parser and are left unedited: --complain leaves them enforced,
// --enforce leaves them in complain mode.
//
// Drop in: pkg/prebuild/builder/   (package builder)
// Run    : export GOFLAGS=-mod=mod GOPROXY=off GOSUMDB=off GOTOOLCHAIN=local
//          go test -vet=off -count=1 -run TestCE3 ./pkg/prebuild/builder/
// Fails on the unmodified tree.

package builder

import (
	"os"
	"os/exec"
	"path/filepath"
	"strings"
	"testing"
)

const ce3Parser = "/usr/sbin/apparmor_parser"

// ce3Modes returns block name -> "Mode:" line of apparmor_parser -d, or the parser error
func ce3Modes(t *testing.T, profile string) (map[string]string, string) {
	t.Helper()
	if _, err := os.Stat(ce3Parser); err != nil {
		return nil, ""
	}
	file := filepath.Join(t.TempDir(), "ce")
	if err := os.WriteFile(file, []byte(profile), 0o644); err != nil {
		t.Fatal(err)
	}
	out, err := exec.Command(ce3Parser, "-Q", "-K",
		"--policy-features", "/etc/apparmor.d/abi/3.0",
		"--kernel-features", "/etc/apparmor.d/abi/3.0", "-d", file).CombinedOutput()
	if err != nil {
		return nil, strings.TrimSpace(string(out))
	}
	res := map[string]string{}
	name := ""
	for _, line := range strings.Split(string(out), "\n") {
		if strings.HasPrefix(line, "Name:") {
			name = strings.TrimSpace(strings.TrimPrefix(line, "Name:"))
		} else if strings.HasPrefix(line, "Mode: ") && name != "" {
			res[name] = strings.TrimSpace(strings.TrimPrefix(line, "Mode: "))
			name = ""
		}
	}
	return res, ""
}

func ce3Profile(sub string) string {
	return "profile foo /usr/bin/foo flags=(attach_disconnected) {\n" +
		"  /usr/bin/foo mr,\n" +
		"  /usr/bin/true rCx -> sub,\n" +
		"\n" +
		sub +
		"}\n"
}

func TestCE3_HeaderLineThatDoesNotEndWithTheBrace(t *testing.T) {
	tests := []struct {
		name    string
		builder string
		sub     string
	}{
		{"comment after the brace", "complain", "  profile sub { # helper\n    /usr/bin/true mr,\n  }\n"},
		{"comment after the brace", "enforce", "  profile sub flags=(complain) { # helper\n    /usr/bin/true mr,\n  }\n"},
		{"brace on the next line", "complain", "  profile sub\n  {\n    /usr/bin/true mr,\n  }\n"},
		{"brace on the next line", "enforce", "  profile sub flags=(complain)\n  {\n    /usr/bin/true mr,\n  }\n"},
		{"block on one line", "complain", "  profile sub { /usr/bin/true mr, }\n"},
		{"block on one line", "enforce", "  profile sub flags=(complain) { /usr/bin/true mr, }\n"},
		{"hat, comment after the brace", "complain", "  ^sub { # helper\n    /usr/bin/true mr,\n  }\n"},
	}
	for _, tt := range tests {
		profile := ce3Profile(tt.sub)
		if _, perr := ce3Modes(t, profile); perr != "" {
			t.Fatalf("%s: the source is not valid: %s", tt.name, perr)
		}
		got, err := Builders[tt.builder].Apply(nil, profile)
		if err != nil {
			t.Fatal(err)
		}

		// Text: the part of the file from the header of sub to its opening brace
		start := strings.LastIndex(got, "sub")
		header := got[start : start+strings.Index(got[start:], "{")]
		if has := strings.Contains(header, "complain"); has != (tt.builder == "complain") {
			t.Errorf("%s: --%s wrote the header %q", tt.name, tt.builder, strings.TrimSpace(header))
		}

		// Reference parser
		modes, perr := ce3Modes(t, got)
		if perr != "" {
			t.Errorf("%s: the %s build is rejected: %s", tt.name, tt.builder, perr)
		}
		for name, m := range modes {
			if strings.Contains(m, "complain") != (tt.builder == "complain") {
				t.Errorf("%s: block %s is in mode %q in the %s build", tt.name, name, m, tt.builder)
			}
		}
	}
}
