// Counterexample 2 for C05: the builders only know the spelling flags=(...).
// The reference parser also accepts blanks around the equal sign, "flags = (...)",
// and a bare list "(...)" (the flags= keyword is optional). On such a header
// --enforce leaves the block in complain mode, and --complain adds a second
// flags clause, which the parser rejects.
//
// Drop in: pkg/prebuild/builder/   (package builder)
// Run    : export GOFLAGS=-mod=mod GOPROXY=off GOSUMDB=off GOTOOLCHAIN=local
//          go test -vet=off -count=1 -run TestCE2 ./pkg/prebuild/builder/
// Fails on the unmodified tree.

package builder

import (
	"os"
	"os/exec"
	"path/filepath"
	"regexp"
	"strings"
	"testing"
)

const ce2Parser = "/usr/sbin/apparmor_parser"

// ce2Modes returns block name -> "Mode:" line of apparmor_parser -d, or the parser error
func ce2Modes(t *testing.T, profile string) (map[string]string, string) {
	t.Helper()
	if _, err := os.Stat(ce2Parser); err != nil {
		return nil, ""
	}
	file := filepath.Join(t.TempDir(), "ce")
	if err := os.WriteFile(file, []byte(profile), 0o644); err != nil {
		t.Fatal(err)
	}
	out, err := exec.Command(ce2Parser, "-Q", "-K",
		"--policy-features", "/etc/apparmor.d/abi/3.0",
		"--kernel-features", "/etc/apparmor.d/abi/3.0", "-d", file).CombinedOutput()
	if err != nil {
		return nil, strings.TrimSpace(string(out))
	}
	res := map[string]string{}
	name := ""
	for _, line := range strings.Split(string(out), "\n") {
		if strings.HasPrefix(line, "Name:") {
			name = strings.TrimSpace(strings.TrimPrefix(line, "Name:"))
		} else if strings.HasPrefix(line, "Mode: ") && name != "" {
			res[name] = strings.TrimSpace(strings.TrimPrefix(line, "Mode: "))
			name = ""
		}
	}
	return res, ""
}

func ce2Profile(flags string) string {
	return "profile foo /usr/bin/foo {\n" +
		"  /usr/bin/foo mr,\n" +
		"  /usr/bin/true rCx -> sub,\n" +
		"\n" +
		"  profile sub " + flags + " {\n" +
		"    /usr/bin/true mr,\n" +
		"  }\n" +
		"}\n"
}

func TestCE2_OtherSpellingsOfTheFlagsClause(t *testing.T) {
	reSub := regexp.MustCompile(`(?m)^\s*profile sub[^\n]*$`)

	// --enforce: no block stays in complain mode
	for _, flags := range []string{"flags = (complain)", "flags =(attach_disconnected,complain)", "(complain)", "(attach_disconnected, complain)"} {
		profile := ce2Profile(flags)
		if modes, perr := ce2Modes(t, profile); perr != "" {
			t.Fatalf("%q: the source is not valid: %s", flags, perr)
		} else if modes != nil && !strings.Contains(modes["sub"], "complain") {
			t.Fatalf("%q: source mode of sub is %q", flags, modes["sub"])
		}
		got, err := Builders["enforce"].Apply(nil, profile)
		if err != nil {
			t.Fatal(err)
		}
		if header := reSub.FindString(got); strings.Contains(header, "complain") {
			t.Errorf("--enforce left %q", strings.TrimSpace(header))
		}
		modes, perr := ce2Modes(t, got)
		if perr != "" {
			t.Errorf("%q: the enforce build is rejected: %s", flags, perr)
		}
		for name, m := range modes {
			if strings.Contains(m, "complain") {
				t.Errorf("%q: block %s is in mode %q in the enforce build", flags, name, m)
			}
		}
	}

	// --complain: one flags clause, with the flags of the source and complain
	for _, flags := range []string{"flags = (attach_disconnected)", "(attach_disconnected)", "flags = (complain)", "(complain)"} {
		profile := ce2Profile(flags)
		if _, perr := ce2Modes(t, profile); perr != "" {
			t.Fatalf("%q: the source is not valid: %s", flags, perr)
		}
		got, err := Builders["complain"].Apply(nil, profile)
		if err != nil {
			t.Fatal(err)
		}
		header := reSub.FindString(got)
		if n := strings.Count(header, "("); n != 1 {
			t.Errorf("--complain wrote %q: %d flag lists", strings.TrimSpace(header), n)
		}
		modes, perr := ce2Modes(t, got)
		if perr != "" {
			t.Errorf("%q: the complain build is rejected: %s", flags, perr)
		}
		for name, m := range modes {
			if !strings.Contains(m, "complain") {
				t.Errorf("%q: block %s is in mode %q in the complain build", flags, name, m)
			}
		}
	}
}
