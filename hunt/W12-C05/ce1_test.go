// Counterexample 1 for C05: --complain on a block that carries another mode flag
// (kill, unconfined, enforce) yields flags=(kill,complain): the reference parser
// rejects the file, and no block of it is in complain mode.
//
// Drop in: pkg/prebuild/builder/   (package builder)
// Run    : export GOFLAGS=-mod=mod GOPROXY=off GOSUMDB=off GOTOOLCHAIN=local
//          go test -vet=off -count=1 -run TestCE1 ./pkg/prebuild/builder/
// Fails on the unmodified tree.

package builder

import (
	"os"
	"os/exec"
	"path/filepath"
	"regexp"
	"strings"
	"testing"
)

const ce1Parser = "/usr/sbin/apparmor_parser"

// ce1Modes returns block name -> "Mode:" line of apparmor_parser -d, or the parser error
func ce1Modes(t *testing.T, profile string) (map[string]string, string) {
	t.Helper()
	if _, err := os.Stat(ce1Parser); err != nil {
		return nil, ""
	}
	file := filepath.Join(t.TempDir(), "ce")
	if err := os.WriteFile(file, []byte(profile), 0o644); err != nil {
		t.Fatal(err)
	}
	out, err := exec.Command(ce1Parser, "-Q", "-K",
		"--policy-features", "/etc/apparmor.d/abi/3.0",
		"--kernel-features", "/etc/apparmor.d/abi/3.0", "-d", file).CombinedOutput()
	if err != nil {
		return nil, strings.TrimSpace(string(out))
	}
	res := map[string]string{}
	name := ""
	for _, line := range strings.Split(string(out), "\n") {
		if strings.HasPrefix(line, "Name:") {
			name = strings.TrimSpace(strings.TrimPrefix(line, "Name:"))
		} else if strings.HasPrefix(line, "Mode: ") && name != "" {
			res[name] = strings.TrimSpace(strings.TrimPrefix(line, "Mode: "))
			name = ""
		}
	}
	return res, ""
}

func TestCE1_ComplainOnOtherModeFlag(t *testing.T) {
	for _, mode := range []string{"kill", "unconfined", "enforce"} {
		profile := "profile foo /usr/bin/foo flags=(attach_disconnected) {\n" +
			"  /usr/bin/foo mr,\n" +
			"  /usr/bin/true rCx -> sub,\n" +
			"\n" +
			"  profile sub flags=(" + mode + ") {\n" +
			"    /usr/bin/true mr,\n" +
			"  }\n" +
			"}\n"

		// The input is valid and 'sub' is in the mode it asks for
		if modes, perr := ce1Modes(t, profile); perr != "" {
			t.Fatalf("%s: the source is not valid: %s", mode, perr)
		} else if modes != nil && !strings.Contains(modes["sub"], mode) {
			t.Fatalf("%s: source mode of sub is %q", mode, modes["sub"])
		}

		got, err := Builders["complain"].Apply(nil, profile)
		if err != nil {
			t.Fatal(err)
		}

		// Text: the header of sub has complain, and no mode flag that excludes it
		header := regexp.MustCompile(`(?m)^\s*profile sub[^\n]*$`).FindString(got)
		flags := regexp.MustCompile(`\(([^)]*)\)`).FindStringSubmatch(header)
		list := []string{}
		if flags != nil {
			list = splitFlags(flags[1])
		}
		hasComplain, hasOther := false, false
		for _, f := range list {
			hasComplain = hasComplain || f == "complain"
			hasOther = hasOther || f == "kill" || f == "unconfined" || f == "enforce"
		}
		if !hasComplain || hasOther {
			t.Errorf("%s: --complain wrote %q: complain together with another mode flag", mode, strings.TrimSpace(header))
		}

		// Reference parser: every block is in complain mode
		modes, perr := ce1Modes(t, got)
		if perr != "" {
			t.Errorf("%s: the complain build is rejected: %s", mode, perr)
			continue
		}
		for name, m := range modes {
			if !strings.Contains(m, "complain") {
				t.Errorf("%s: block %s is in mode %q in the complain build", mode, name, m)
			}
		}
	}
}
