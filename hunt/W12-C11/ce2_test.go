// Counterexample 2 for C11: Profile.Compare only looks at the name and the
// attachments, Hat.Compare only at the name: sub-profiles / hats that differ in
// flags, xattrs or in their whole body compare equal.
//
// Drop this file in pkg/aa/ and run, from the worktree root:
//
//	GOFLAGS=-mod=mod GOPROXY=off GOSUMDB=off GOTOOLCHAIN=local \
//	  go test -vet=off -count=1 -run 'TestCE2' ./pkg/aa
//
// It FAILS on the unmodified tree.
package aa

import "testing"

func ce2Profiles() (Rule, Rule) {
	a := &Profile{
		Header: Header{Name: "child", Attachments: []string{"@{bin}/child"}, Flags: []string{"complain"}},
		Rules:  Rules{&Capability{Names: []string{"sys_admin"}}},
	}
	b := &Profile{
		Header: Header{Name: "child", Attachments: []string{"@{bin}/child"}, Attributes: map[string]string{"security.tagged": "allowed"}},
		Rules:  Rules{&File{Path: "/etc/passwd", Access: []string{"r"}}},
	}
	return a, b
}

func TestCE2_ProfileCompare(t *testing.T) {
	a, b := ce2Profiles()
	if err := (Rules{a, b}).Validate(); err != nil {
		t.Fatal(err)
	}
	if a.String() == b.String() {
		t.Fatal("the two profiles should print differently")
	}
	if a.Compare(b) == 0 {
		t.Errorf("Profile.Compare = 0 for two different sub-profiles:\n%s\n%s", a, b)
	}
}

func TestCE2_HatCompare(t *testing.T) {
	a := &Hat{Name: "web", Rules: Rules{&Capability{Names: []string{"sys_admin"}}}}
	b := &Hat{Name: "web", Rules: Rules{&File{Path: "/etc/passwd", Access: []string{"r"}}}}
	if a.Compare(b) == 0 && a.String() != b.String() {
		t.Errorf("Hat.Compare = 0 for two different hats:\n%s\n%s", a, b)
	}
}

func TestCE2_SortIsOrderDependent(t *testing.T) {
	a, b := ce2Profiles()
	s1 := Rules{a, b}.Sort().String()
	a, b = ce2Profiles()
	s2 := Rules{b, a}.Sort().String()
	if s1 != s2 {
		t.Errorf("same rules, two input orders, two sorted texts:\n%s---\n%s", s1, s2)
	}
}
