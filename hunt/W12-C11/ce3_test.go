// Counterexample 3 for C11: abi, alias and variable rules have no entry in the
// kind table of Rules.Sort (template.go:ruleAlphabet), so they all weigh 0, like
// an include: they tie with each other and with every include, while rules of
// one of these kinds are strictly ordered among themselves. The kind order is
// therefore not transitive and Sort is order dependent on a preamble.
// (Same table as the recorded COMMENT item, but other kinds: putting COMMENT
// in the table does not repair this.)
//
// Drop this file in pkg/aa/ and run, from the worktree root:
//
//	GOFLAGS=-mod=mod GOPROXY=off GOSUMDB=off GOTOOLCHAIN=local \
//	  go test -vet=off -count=1 -run 'TestCE3' ./pkg/aa
//
// It FAILS on the unmodified tree.
package aa

import "testing"

func ce3Preamble() (abi, alias, v1, v2, inc1, inc2 Rule) {
	abi = &Abi{IsMagic: true, Path: "abi/4.0"}
	alias = &Alias{Path: "/usr/", RewrittenPath: "/User/"}
	v1 = &Variable{Name: "exec_path", Define: true, Values: []string{"@{bin}/foo"}}
	v2 = &Variable{Name: "name", Define: true, Values: []string{"foo"}}
	inc1 = &Include{IsMagic: true, Path: "tunables/global"}
	inc2 = &Include{IsMagic: true, Path: "tunables/zzz"}
	return
}

// Sort of a two element list exposes the comparator of Rules.Sort: the list is
// left as it is in both orders <=> the comparator returned 0.
func ce3Ties(a, b Rule) bool {
	x := Rules{a, b}.Sort()
	y := Rules{b, a}.Sort()
	return x[0] == a && y[0] == b
}

func TestCE3_KindOrderTies(t *testing.T) {
	abi, alias, v1, v2, inc1, inc2 := ce3Preamble()
	if !ce3Ties(v1, v2) && !ce3Ties(inc1, inc2) { // both pairs are strictly ordered
		for _, pair := range [][2]Rule{{abi, alias}, {abi, v1}, {alias, v2}, {abi, inc1}, {v1, inc1}, {v2, inc1}, {v1, inc2}} {
			if ce3Ties(pair[0], pair[1]) {
				t.Errorf("different rules tie in the order of Rules.Sort: %q and %q", pair[0], pair[1])
			}
		}
	}
}

func TestCE3_Intransitive(t *testing.T) {
	_, _, v1, v2, inc1, _ := ce3Preamble()
	// v2 <= inc1 (tie), inc1 <= v1 (tie), but v2 > v1
	if ce3Ties(v2, inc1) && ce3Ties(inc1, v1) {
		s := Rules{v2, v1}.Sort()
		if s[0] == v1 {
			t.Errorf("not transitive: %q <= %q <= %q but %q > %q", v2, inc1, v1, v2, v1)
		}
	}
}

func TestCE3_SortIsOrderDependent(t *testing.T) {
	abi, _, v1, v2, inc1, _ := ce3Preamble()
	s1 := Rules{abi, inc1, v1, v2}.Sort().String()
	s2 := Rules{v2, inc1, v1, abi}.Sort().String()
	if s1 != s2 {
		t.Errorf("same rules, two input orders, two sorted texts:\n%s---\n%s", s1, s2)
	}
}
