// Counterexample 1 for C11: rules that differ in their trailing comment / marker
// (Base.Comment, Base.FileInherit, Base.NoNewPrivs, Base.Optional) compare equal.
//
// Drop this file in pkg/aa/ and run, from the worktree root:
//
//	GOFLAGS=-mod=mod GOPROXY=off GOSUMDB=off GOTOOLCHAIN=local \
//	  go test -vet=off -count=1 -run 'TestCE1' ./pkg/aa
//
// It FAILS on the unmodified tree.
package aa

import "testing"

func ce1Parse(t *testing.T, text string) Rules {
	t.Helper()
	paras, _, err := ParseRules(text)
	if err != nil || len(paras) != 1 {
		t.Fatalf("ParseRules(%q): %v %v", text, paras, err)
	}
	return paras[0]
}

// Two valid rules with a known prefix (/etc), same path and access, different
// trailing comment: not identical, yet Compare says 0 in both directions.
func TestCE1_CompareEqualOnlyIfIdentical(t *testing.T) {
	rules := ce1Parse(t, "  /etc/foo.conf r, # needed by the loader\n  /etc/foo.conf r, # file_inherit\n\n")
	a, b := rules[0], rules[1]
	if err := rules.Validate(); err != nil {
		t.Fatal(err)
	}
	if a.String() == b.String() {
		t.Fatalf("the two rules should print differently: %q", a.String())
	}
	if got := a.Compare(b); got == 0 {
		t.Errorf("Compare(%q, %q) = 0 although the rules are not identical", a, b)
	}
}

// Consequence: Sort is not canonical, the same two rules sort to two different texts.
func TestCE1_SortIsOrderDependent(t *testing.T) {
	text1 := "  /etc/foo.conf r, # needed by the loader\n  /etc/foo.conf r, # file_inherit\n\n"
	text2 := "  /etc/foo.conf r, # file_inherit\n  /etc/foo.conf r, # needed by the loader\n\n"
	s1 := ce1Parse(t, text1).Sort().String()
	s2 := ce1Parse(t, text2).Sort().String()
	if s1 != s2 {
		t.Errorf("same rules, two input orders, two sorted texts:\n%s---\n%s", s1, s2)
	}
}

// Same with rules built the way aa-log builds them (operation=open / operation=file_inherit).
func TestCE1_FromLogs(t *testing.T) {
	open := map[string]string{"apparmor": "ALLOWED", "operation": "open", "class": "file", "profile": "foo",
		"name": "/etc/foo.conf", "requested_mask": "r", "fsuid": "0", "ouid": "0"}
	inherit := map[string]string{"apparmor": "ALLOWED", "operation": "file_inherit", "class": "file", "profile": "foo",
		"name": "/etc/foo.conf", "requested_mask": "r", "fsuid": "0", "ouid": "0"}

	p1 := &Profile{Header: Header{Name: "foo"}}
	p1.AddRule(open)
	p1.AddRule(inherit)
	p2 := &Profile{Header: Header{Name: "foo"}}
	p2.AddRule(inherit)
	p2.AddRule(open)

	if p1.Rules[0].Compare(p1.Rules[1]) == 0 && p1.Rules[0].String() != p1.Rules[1].String() {
		t.Errorf("Compare(%q, %q) = 0", p1.Rules[0], p1.Rules[1])
	}
	p1.Sort()
	p2.Sort()
	if p1.Rules.String() != p2.Rules.String() {
		t.Errorf("Sort depends on the order of the records:\n%s---\n%s", p1.Rules, p2.Rules)
	}
}
