#!/bin/sh
# Counterexample 1 (C11), seen through the aa-log command: the generated rules
# depend on the order of the log records, because a rule with the file_inherit
# marker "compares equal" to the same rule without it and Rules.Merge drops
# whichever of the two comes second.
#
# Run from the worktree root:   sh .seed/ce1.sh
# Exit status 1 (FAILS) on the unmodified tree.
export GOFLAGS=-mod=mod GOPROXY=off GOSUMDB=off GOTOOLCHAIN=local
tmp=$(mktemp -d)
cat > "$tmp/a.log" <<'LOG'
type=AVC msg=audit(1111111111.111:1111): apparmor="ALLOWED" operation="open" class="file" profile="foo" name="/etc/foo.conf" pid=509286 comm="foo" requested_mask="r" denied_mask="r" fsuid=0 ouid=0
type=AVC msg=audit(1111111111.111:1112): apparmor="ALLOWED" operation="file_inherit" class="file" profile="foo" name="/etc/foo.conf" pid=509286 comm="foo" requested_mask="r" denied_mask="r" fsuid=0 ouid=0
LOG
tac "$tmp/a.log" > "$tmp/b.log"
go run ./cmd/aa-log -f "$tmp/a.log" -r > "$tmp/a.out"
go run ./cmd/aa-log -f "$tmp/b.log" -r > "$tmp/b.out"
if cmp -s "$tmp/a.out" "$tmp/b.out"; then
	echo "OK: same rules for both record orders"; rm -rf "$tmp"; exit 0
fi
echo "FAIL: the same two records, in two orders, give two profiles:"
cat "$tmp/a.out"; echo ---; cat "$tmp/b.out"
rm -rf "$tmp"
exit 1
