// Counterexample 2 for property C17 (generated input, not one of the shipped rules).
//
// Drop this file in:  pkg/prebuild/builder/
// Run (from the worktree root):
//   export GOFLAGS=-mod=mod GOPROXY=off GOSUMDB=off GOTOOLCHAIN=local
//   go test -vet=off -count=1 -run TestCE2 ./pkg/prebuild/builder/
//
// The fsp patterns only know the access when the comma of the rule follows it
// immediately. AppArmor does not ask for that: blanks may stand before the
// comma (`/usr/bin/foo rPUx ,`) and the access may be written before the path
// (`rPUx /usr/bin/foo,`, `rUx /usr/bin/foo,`). apparmor_parser 3.0.8 compiles
// these to the same permissions as `/usr/bin/foo rPUx,` (0x2214885) and
// `/usr/bin/foo rUx,` (0x1014405). In a --full build the hotfix task lower-cases
// the mode, the fsp task does not match, and the rule keeps its unconfined
// fallback (rpux / rux).

package builder

import (
	"os"
	"os/exec"
	"regexp"
	"strconv"
	"testing"

	"github.com/roddhjav/apparmor.d/pkg/paths"
)

const ce2Parser = "/usr/sbin/apparmor_parser"

// ce2Unconfined compiles the text with the reference parser and reports whether
// an exec accept state still allows an unconfined run: the pux bit (0x80), or
// the ux transition (exec type bits 0x3c00 == 0x400).
func ce2Unconfined(t *testing.T, text string) (bool, bool) {
	if _, err := os.Stat(ce2Parser); err != nil {
		return false, false
	}
	f, err := os.CreateTemp("", "ce2-*")
	if err != nil {
		t.Fatal(err)
	}
	defer os.Remove(f.Name())
	f.WriteString(text)
	f.Close()
	out, err := exec.Command(ce2Parser, "-Q", "-K",
		"--policy-features", "/etc/apparmor.d/abi/3.0",
		"--kernel-features", "/etc/apparmor.d/abi/3.0",
		"-D", "dfa-states", f.Name()).CombinedOutput()
	if err != nil {
		t.Fatalf("reference parser rejects the text: %v\n%s\n%s", err, out, text)
	}
	for _, m := range regexp.MustCompile(`\(0x ([0-9a-f]+)/`).FindAllStringSubmatch(string(out), -1) {
		v, _ := strconv.ParseUint(m[1], 16, 64)
		if v&0x1 != 0 && (v&0x80 != 0 || v&0x3c00 == 0x400) {
			return true, true
		}
	}
	return false, true
}

func TestCE2_AccessNotFollowedByTheCommaKeepsUnconfinedFallback(t *testing.T) {
	saved := Builds
	defer func() { Builds = saved }()

	// What cmd/prebuild/main.go:init and cli.Configure register for
	// `prebuild --abi 3 --full --complain`
	Builds = []Builder{}
	Register("userspace", "hotfix")
	Register("fsp")
	Register("complain")
	Register("abi3")

	for _, rule := range []string{
		"/usr/bin/foo rPUx,", // control
		"/usr/bin/foo rUx,",  // control
		"/usr/bin/foo rPUx ,",
		"/usr/bin/foo rUx\t,",
		"rPUx /usr/bin/foo,",
		"rUx /usr/bin/foo,",
	} {
		src := "abi <abi/4.0>,\n" +
			"@{exec_path} = /usr/bin/t\n" +
			"profile t @{exec_path} {\n" +
			"  " + rule + "\n" +
			"}\n"
		if has, ran := ce2Unconfined(t, "abi <abi/3.0>,\nprofile t /usr/bin/t {\n  "+rule+"\n}\n"); ran && !has {
			t.Fatalf("%q: the source rule is expected to allow an unconfined run", rule)
		}

		got, err := Run(paths.New(".build/apparmor.d/t"), src)
		if err != nil {
			t.Fatal(err)
		}
		line := regexp.MustCompile(`(?m)^.*/usr/bin/foo.*$`).FindString(got)
		if regexp.MustCompile(`(?i)\b[rwmlk]*(pu|u)x\b`).MatchString(line) {
			t.Errorf("source `%s` is built as `%s` in a full-system-policy build: the unconfined fallback is still there",
				rule, regexp.MustCompile(`^\s+`).ReplaceAllString(line, ""))
		}
		if has, ran := ce2Unconfined(t, got); ran && has {
			t.Errorf("source `%s`: apparmor_parser compiles the built profile with an unconfined exec transition:\n%s", rule, got)
		}
	}
}
