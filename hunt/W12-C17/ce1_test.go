// Counterexample 1 for property C17 (generated input, not one of the shipped rules).
//
// Drop this file in:  pkg/prebuild/builder/
// Run (from the worktree root):
//   export GOFLAGS=-mod=mod GOPROXY=off GOSUMDB=off GOTOOLCHAIN=local
//   go test -vet=off -count=1 -run TestCE1 ./pkg/prebuild/builder/
//
// AppArmor reads the letters of an exec mode case-insensitively where the case
// carries no meaning: `rPux,`, `rPUX,` and `RPUx,` compile to exactly the same
// permissions as `rPUx,` (apparmor_parser 3.0.8: accept state 0x2214885 for all
// four). The registered chain of a --full build (userspace, hotfix, fsp) only
// knows the spellings PUx/Ux (hotfix) and r(PU|U)x, / r(pu|u)x, (fsp): the other
// spellings go through untouched and the built rule keeps its unconfined fallback.

package builder

import (
	"os"
	"os/exec"
	"regexp"
	"strconv"
	"testing"

	"github.com/roddhjav/apparmor.d/pkg/paths"
)

const ce1Parser = "/usr/sbin/apparmor_parser"

// ce1HasUnconfinedFallback compiles the text with the reference parser and
// reports whether an exec accept state carries the pux bit (0x80), the only bit
// in which `rPx,` (0x2014805) and `rPUx,` (0x2214885) differ for the owner.
func ce1HasUnconfinedFallback(t *testing.T, text string) (bool, bool) {
	if _, err := os.Stat(ce1Parser); err != nil {
		return false, false
	}
	f, err := os.CreateTemp("", "ce1-*")
	if err != nil {
		t.Fatal(err)
	}
	defer os.Remove(f.Name())
	f.WriteString(text)
	f.Close()
	out, err := exec.Command(ce1Parser, "-Q", "-K",
		"--policy-features", "/etc/apparmor.d/abi/3.0",
		"--kernel-features", "/etc/apparmor.d/abi/3.0",
		"-D", "dfa-states", f.Name()).CombinedOutput()
	if err != nil {
		t.Fatalf("reference parser rejects the text: %v\n%s\n%s", err, out, text)
	}
	for _, m := range regexp.MustCompile(`\(0x ([0-9a-f]+)/`).FindAllStringSubmatch(string(out), -1) {
		v, _ := strconv.ParseUint(m[1], 16, 64)
		if v&0x1 != 0 && v&0x80 != 0 {
			return true, true
		}
	}
	return false, true
}

func TestCE1_MixedCaseSpellingKeepsUnconfinedFallback(t *testing.T) {
	saved := Builds
	defer func() { Builds = saved }()

	for _, complain := range []string{"", "complain", "enforce"} {
		// What cmd/prebuild/main.go:init and cli.Configure register for
		// `prebuild --abi 3 --full [--complain|--enforce]`
		Builds = []Builder{}
		Register("userspace", "hotfix")
		Register("fsp")
		if complain != "" {
			Register(complain)
		}
		Register("abi3")

		for _, mode := range []string{"rPUx", "rPux", "rPUX", "RPUx"} { // the first one is the control
			src := "abi <abi/4.0>,\n" +
				"@{exec_path} = /usr/bin/t\n" +
				"profile t @{exec_path} {\n" +
				"  /usr/bin/foo " + mode + ",\n" +
				"}\n"
			if has, ran := ce1HasUnconfinedFallback(t, "abi <abi/3.0>,\nprofile t /usr/bin/t {\n  /usr/bin/foo "+mode+",\n}\n"); ran && !has {
				t.Fatalf("%s: the source rule is expected to have the unconfined fallback", mode)
			}

			got, err := Run(paths.New(".build/apparmor.d/t"), src)
			if err != nil {
				t.Fatal(err)
			}
			// The access of the built rule, whatever its spelling
			access := regexp.MustCompile(`/usr/bin/foo[\t ]+(\S+?)[\t ]*,`).FindStringSubmatch(got)
			if access == nil {
				t.Fatalf("%s: rule not found in the built profile:\n%s", mode, got)
			}
			if regexp.MustCompile(`(?i)ux`).MatchString(access[1]) {
				t.Errorf("[%s] source `/usr/bin/foo %s,` is built as `/usr/bin/foo %s,` in a full-system-policy build: the unconfined fallback is still there",
					complain, mode, access[1])
			}
			if has, ran := ce1HasUnconfinedFallback(t, got); ran && has {
				t.Errorf("[%s] source mode %s: apparmor_parser compiles the built profile with the pux bit set:\n%s", complain, mode, got)
			}
		}
	}
}
