// Counterexample 3 for C09 -- a rendered variable rule read back with
// aa.ParseRules yields no rule at all and no error; `aa --format`, which reads
// a tunables file with ParseRules and prints each paragraph back, therefore
// deletes every variable definition of the file.
//
// Drop in: cmd/aa/   (package main)
// Run:     export GOFLAGS=-mod=mod GOPROXY=off GOSUMDB=off GOTOOLCHAIN=local
//          go test -vet=off -count=1 -run TestCE3 ./cmd/aa
// Expected on the unmodified tree: FAIL (both tests).
//
// By hand: cp apparmor.d/tunables/multiarch.d/paths /tmp/tunables/paths   (the
// directory must be called tunables); go run ./cmd/aa --format /tmp/tunables/paths;
// diff apparmor.d/tunables/multiarch.d/paths /tmp/tunables/paths

package main

import (
	"os"
	"strings"
	"testing"

	"github.com/roddhjav/apparmor.d/pkg/aa"
)

func TestCE3_VariableRoundTrip(t *testing.T) {
	rules := aa.Rules{
		&aa.Variable{Name: "sh_path", Define: true, Values: []string{"@{bin}/@{sh}"}},
		&aa.Variable{Name: "open_path", Define: false, Values: []string{"@{lib}/gio-launch-desktop"}},
	}
	text := rules.String()
	parsed, _, err := aa.ParseRules(text + "\n")
	if err != nil {
		t.Fatal(err)
	}
	got := parsed.Flatten()
	if len(got) != len(rules) {
		t.Fatalf("printed:\n%sread back: %d rules (%q), want %d", text, len(got), got.String(), len(rules))
	}
	if again := got.String(); again != text {
		t.Errorf("printed:\n%sprinted again:\n%s", text, again)
	}
}

func TestCE3_FormatShippedTunable(t *testing.T) {
	raw, err := os.ReadFile("../../apparmor.d/tunables/multiarch.d/paths")
	if err != nil {
		t.Skip(err)
	}
	before := string(raw)
	after, err := formatFile(isTunable, before) // what `aa --format` writes back to the file
	if err != nil {
		t.Fatal(err)
	}
	count := func(s string) int {
		n := 0
		for _, l := range strings.Split(s, "\n") {
			if strings.HasPrefix(strings.TrimSpace(l), "@{") {
				n++
			}
		}
		return n
	}
	if count(after) != count(before) {
		t.Errorf("tunables/multiarch.d/paths: %d variable lines before formatting, %d after",
			count(before), count(after))
	}
}
