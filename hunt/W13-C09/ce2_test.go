// Counterexample 2 for C09 -- a profile flag that carries a value
// (attach_disconnected.path=<path>, kill.signal=<signal>: both are listed in
// requirements[PROFILE]["flags"] and the first one is written into every
// re-attached profile by pkg/prebuild/builder/attach.go) is lost when the
// rendered header is parsed back.
//
// Drop in: pkg/aa/   (package aa)
// Run:     export GOFLAGS=-mod=mod GOPROXY=off GOSUMDB=off GOTOOLCHAIN=local
//          go test -vet=off -count=1 -run TestCE2 ./pkg/aa
// Expected on the unmodified tree: FAIL (both tests).

package aa

import (
	"reflect"
	"testing"
)

func TestCE2_HeaderFlagWithValue(t *testing.T) {
	for _, flags := range [][]string{
		{"attach_disconnected", "attach_disconnected.path=@{att}", "complain"},
		{"kill.signal=hup"},
	} {
		f := &AppArmorProfileFile{
			Preamble: Rules{&Variable{Name: "att", Define: true, Values: []string{"/att/foo/"}}},
			Profiles: []*Profile{{Header: Header{
				Name: "foo", Attachments: []string{"@{exec_path}"}, Flags: flags,
			}}},
		}
		text := f.String()

		g := &AppArmorProfileFile{}
		if _, err := g.Parse(text); err != nil {
			t.Fatal(err)
		}
		if got := g.GetDefaultProfile().Flags; !reflect.DeepEqual(got, flags) {
			t.Errorf("rendered:\n%sflags read back: %q, want %q", text, got, flags)
		}
		if again := g.String(); again != text {
			t.Errorf("rendered:\n%srendered again after Parse:\n%s", text, again)
		}
	}
}

// The header exactly as the ReAttach builder writes it (commas, no blanks):
// here every flag is lost, complain included.
func TestCE2_HeaderAsBuilt(t *testing.T) {
	text := "profile foo @{exec_path} flags=(attach_disconnected,attach_disconnected.path=@{att},complain) {\n}\n"
	g := &AppArmorProfileFile{}
	if _, err := g.Parse(text); err != nil {
		t.Fatal(err)
	}
	want := []string{"attach_disconnected", "attach_disconnected.path=@{att}", "complain"}
	if got := g.GetDefaultProfile().Flags; !reflect.DeepEqual(got, want) {
		t.Errorf("%sflags: %q, want %q", text, got, want)
	}
}
