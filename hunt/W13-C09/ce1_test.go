// Counterexample 1 for C09 -- the trailing comment of a line rule (include,
// variable) loses its first word when that word is glued to the '#', as every
// '#aa:only <x>' / '#aa:exclude <x>' directive is. A comment of one glued word
// ('#foo') is lost entirely. The comma-rule parser keeps the same comment intact.
//
// Drop in: pkg/aa/   (package aa)
// Run:     export GOFLAGS=-mod=mod GOPROXY=off GOSUMDB=off GOTOOLCHAIN=local
//          go test -vet=off -count=1 -run TestCE1 ./pkg/aa
// Expected on the unmodified tree: FAIL (all three sub tests).

package aa

import (
	"os"
	"strings"
	"testing"
)

// Rendered line rules, read back with the block parser.
func TestCE1_LineRuleGluedComment(t *testing.T) {
	for _, r := range []Rule{
		&Include{IsMagic: true, Path: "abstractions/common/apt", Base: Base{Comment: "aa:only apt"}},
		&Include{IsMagic: true, Path: "abstractions/common/apt", Base: Base{Comment: "todo"}},
	} {
		text := Rules{r}.String()
		parsed, _, err := ParseRules(text + "\n")
		if err != nil {
			t.Fatalf("%q: %v", text, err)
		}
		got := parsed.Flatten()
		if len(got) != 1 {
			t.Fatalf("%q: %d rules", text, len(got))
		}
		if got[0].(*Include).Comment != r.(*Include).Comment {
			t.Errorf("printed %q: comment read back as %q, want %q",
				strings.TrimSpace(text), got[0].(*Include).Comment, r.(*Include).Comment)
		}
		if again := got.String(); again != text {
			t.Errorf("printed %q, printed again after parsing: %q", text, again)
		}
	}

	// The same comment on a comma rule comes back unchanged
	text := "/a r, #aa:only apt\n"
	parsed, _, _ := ParseRules(text + "\n")
	if again := parsed.Flatten().String(); again != text {
		t.Errorf("comma rule: %q -> %q", text, again)
	}
}

// The preamble of a rendered file: a variable with the same kind of comment.
func TestCE1_PreambleVariable(t *testing.T) {
	f := &AppArmorProfileFile{
		Preamble: Rules{
			&Variable{Name: "browsers_path", Define: false, Values: []string{"@{torbrowser_path}"},
				Base: Base{Comment: "aa:only whonix"}},
		},
		Profiles: []*Profile{{Header: Header{Name: "foo", Attachments: []string{"@{exec_path}"}}}},
	}
	text := f.String()
	g := &AppArmorProfileFile{}
	if _, err := g.Parse(text); err != nil {
		t.Fatal(err)
	}
	if again := g.String(); again != text {
		t.Errorf("rendered file:\n%s\nrendered again after Parse:\n%s", text, again)
	}
}

// Shipped text: the paragraph of apparmor.d/profiles-m-r/packagekitd that holds
// `include <abstractions/common/apt> #aa:only apt`. Parsing it and printing it
// (what `aa --format` does) must keep the directive.
func TestCE1_ShippedPackagekitd(t *testing.T) {
	raw, err := os.ReadFile("../../apparmor.d/profiles-m-r/packagekitd")
	if err != nil {
		t.Skip(err)
	}
	const line = "include <abstractions/common/apt> #aa:only apt"
	if !strings.Contains(string(raw), line) {
		t.Skip("the shipped line changed")
	}
	parsed, _, err := ParseRules(string(raw))
	if err != nil {
		t.Fatal(err)
	}
	out := parsed.Flatten().String()
	if !strings.Contains(out, line) {
		for _, l := range strings.Split(out, "\n") {
			if strings.Contains(l, "abstractions/common/apt") {
				t.Errorf("shipped line %q is printed back as %q", line, l)
			}
		}
	}
}
