// CE1 (property C14): the base-abstraction noise filter of aa-log is not anchored
// to the path of the record: it drops events on paths that are NOT in
// abstractions/base (and events that merely mention such a path in another field).
//
// Drop in:  pkg/logs/
// Run:      export GOFLAGS=-mod=mod GOPROXY=off GOSUMDB=off GOTOOLCHAIN=local GOCACHE=/tmp/gocache-$(basename $PWD)
//           go test -p 1 -vet=off -count=1 -run TestCE1 ./pkg/logs/
// CLI:      go run ./cmd/aa-log -f <file with the lines below> -R      (prints only /tmp/ok)
package logs

import (
	"strings"
	"testing"
)

func TestCE1_NoiseFilterDropsForeignPaths(t *testing.T) {
	rec := func(serial, profile, op, name, tail string) string {
		return `type=AVC msg=audit(1700000001.111:` + serial + `): apparmor="DENIED" operation="` + op +
			`" class="file" profile="` + profile + `" name="` + name + `" pid=100 comm="x" ` + tail
	}
	file := `requested_mask="w" denied_mask="w" fsuid=0 ouid=0`
	names := []string{
		"/dev/null.1234",             // apparmor.d/groups/filesystem/udisksd: /dev/null.@{int} rw,
		"/var/spool/postfix/dev/log", // chroot syslog socket, not in abstractions/base
		"/var/lib/named/dev/random",  // chroot device, not in abstractions/base
		"/dev/nullb0",                // null_blk block device
		"/opt/app/etc/plugin.so",     // neither /etc nor a system library directory
		"/tmp/ok",                    // control
	}
	var in []string
	for i, n := range names {
		in = append(in, rec(string(rune('1'+i)), "p", "open", n, file))
	}
	// a mount denial whose *source* is /dev/null (the mediated path is /etc/secret)
	in = append(in, `type=AVC msg=audit(1700000009.111:9): apparmor="DENIED" operation="mount" class="mount" info="failed mntpnt match" error=-13 profile="p" name="/etc/secret" pid=102 comm="(x)" srcname="/dev/null" flags="rw, bind"`)

	got := New(strings.NewReader(strings.Join(in, "\n")+"\n"), "")
	if len(got) != len(in) {
		var shown []string
		for _, l := range got {
			shown = append(shown, l["name"])
		}
		t.Fatalf("%d DENIED records in the input, %d reported (only %v): records on paths outside abstractions/base were dropped as noise",
			len(in), len(got), shown)
	}
}
