// CE2 (property C14): the profile filter is matched against the raw line, before the
// hex-encoded fields are decoded. The kernel hex-encodes a profile name that holds a
// space (audit_log_untrustedstring), e.g. Ubuntu's `profile "MongoDB Compass"`, so
// every record of such a profile disappears as soon as a filter is given -- although
// aa-log itself prints that profile as profile="MongoDB Compass" without a filter.
//
// Drop in:  pkg/logs/
// Run:      export GOFLAGS=-mod=mod GOPROXY=off GOSUMDB=off GOTOOLCHAIN=local GOCACHE=/tmp/gocache-$(basename $PWD)
//           go test -p 1 -vet=off -count=1 -run TestCE2 ./pkg/logs/
// CLI:      go run ./cmd/aa-log -f <file> -R MongoDB     (prints only the second record)
package logs

import (
	"strings"
	"testing"
)

func TestCE2_FilterMissesHexEncodedProfile(t *testing.T) {
	// 4D6F6E676F444220436F6D70617373 == "MongoDB Compass"
	in := `type=AVC msg=audit(1700000001.111:101): apparmor="DENIED" operation="open" class="file" profile=4D6F6E676F444220436F6D70617373 name="/etc/passwd" pid=100 comm="compass" requested_mask="r" denied_mask="r" fsuid=1000 ouid=0
type=AVC msg=audit(1700000002.111:102): apparmor="DENIED" operation="open" class="file" profile="MongoDB" name="/etc/group" pid=100 comm="mongod" requested_mask="r" denied_mask="r" fsuid=1000 ouid=0
`
	all := New(strings.NewReader(in), "")
	if len(all) != 2 || all[0]["profile"] != "MongoDB Compass" {
		t.Fatalf("precondition: without a filter both records are shown, got %v", all)
	}
	for _, filter := range []string{"MongoDB", "MongoDB Compass", "Mongo"} {
		got := New(strings.NewReader(in), filter)
		found := false
		for _, l := range got {
			if l["profile"] == "MongoDB Compass" {
				found = true
			}
		}
		if !found {
			t.Errorf("filter %q: the record of profile %q (name /etc/passwd) starts with the filter but is not reported; got %v",
				filter, "MongoDB Compass", got)
		}
	}
}
