#!/bin/sh
# CE4 (extra, lower priority; property C14 "does not crash or stop early on malformed lines").
# (a) `aa-log -r` panics on one record with a garbled requested_mask (or a class="mount"
#     record without a known operation): no rule of any other record is printed.
# (b) `aa-log -s -f` exits with a JSON type error and shows nothing when one well-formed
#     journald line has a MESSAGE that is not a string (journald encodes messages with
#     non-printable bytes as an array of numbers). Related to the repaired "garbled JSON
#     line" defect, but the line here is valid JSON, so json.Valid does not filter it.
#
# Run from the worktree root:
#   export GOFLAGS=-mod=mod GOPROXY=off GOSUMDB=off GOTOOLCHAIN=local GOCACHE=/tmp/gocache-$(basename $PWD)
#   sh .seed/ce4.sh          (exit status 1 = defect reproduced)
set -u
tmp=$(mktemp -d); trap 'rm -rf "$tmp"' EXIT
go build -o "$tmp/aa-log" ./cmd/aa-log || exit 2
fail=0

cat > "$tmp/a.log" <<'LOG'
type=AVC msg=audit(1700000001.111:101): apparmor="DENIED" operation="open" class="file" profile="foo" name="/tmp/before" pid=100 comm="cat" requested_mask="r" denied_mask="r" fsuid=1000 ouid=1000
type=AVC msg=audit(1700000002.111:102): apparmor="DENIED" operation="open" class="file" profile="foo" name="/tmp/x" pid=100 comm="cat" requested_mask="r#" denied_mask="r" fsuid=1000 ouid=1000
type=AVC msg=audit(1700000003.111:103): apparmor="DENIED" operation="open" class="file" profile="foo" name="/tmp/after" pid=100 comm="cat" requested_mask="r" denied_mask="r" fsuid=1000 ouid=1000
LOG
out=$("$tmp/aa-log" -f "$tmp/a.log" -r 2>&1); rc=$?
if [ $rc -ne 0 ] || ! echo "$out" | grep -q '/tmp/after'; then
  echo "FAIL (a): aa-log -r exit=$rc, rules of the well-formed records missing:"; echo "$out" | head -3; fail=1
fi

cat > "$tmp/j.log" <<'LOG'
{"MESSAGE":"audit: type=1400 audit(1700000001.111:101): apparmor=\"DENIED\" operation=\"open\" class=\"file\" profile=\"foo\" name=\"/tmp/one\" pid=100 comm=\"cat\" requested_mask=\"r\" denied_mask=\"r\" fsuid=1000 ouid=0"}
{"_SYSTEMD_UNIT":"apparmor.service","MESSAGE":[27,91,51,49,109,87,97,114,110,105,110,103,27,91,48,109]}
{"MESSAGE":"audit: type=1400 audit(1700000002.111:102): apparmor=\"DENIED\" operation=\"open\" class=\"file\" profile=\"foo\" name=\"/tmp/two\" pid=100 comm=\"cat\" requested_mask=\"r\" denied_mask=\"r\" fsuid=1000 ouid=0"}
LOG
out=$("$tmp/aa-log" -s -f "$tmp/j.log" -R 2>&1); rc=$?
if [ $rc -ne 0 ] || [ "$(echo "$out" | grep -c 'apparmor="DENIED"')" -ne 2 ]; then
  echo "FAIL (b): aa-log -s exit=$rc, want the 2 DENIED records, got: $out"; fail=1
fi
exit $fail
