// CE3 (property C14): a file name that holds a double quote is hex-encoded by the
// kernel; DecodeHexInString puts the decoded bytes between bare quotes, and the
// quote-toggling field splitter of logs.New then loses track: with an odd number of
// quotes in the name the whole record is reported as a line WITHOUT status, profile,
// operation or name (only a garbage key), i.e. the DENIED event is not shown.
//
// Drop in:  pkg/logs/
// Run:      export GOFLAGS=-mod=mod GOPROXY=off GOSUMDB=off GOTOOLCHAIN=local GOCACHE=/tmp/gocache-$(basename $PWD)
//           go test -p 1 -vet=off -count=1 -run TestCE3 ./pkg/logs/
// CLI:      go run ./cmd/aa-log -f <file>      (2nd output line: ` name="/tmp/a""  comm="cat" requested_mask"`)
package logs

import (
	"strings"
	"testing"
)

func TestCE3_QuoteInHexNameLosesTheEvent(t *testing.T) {
	// 2F746D702F6122 == `/tmp/a"`
	in := `type=AVC msg=audit(1700000001.111:101): apparmor="DENIED" operation="open" class="file" profile="foo" name="/tmp/before" pid=100 comm="cat" requested_mask="r" denied_mask="r" fsuid=1000 ouid=1000
type=AVC msg=audit(1700000002.111:102): apparmor="DENIED" operation="open" class="file" profile="foo" name=2F746D702F6122 pid=100 comm="cat" requested_mask="r" denied_mask="r" fsuid=1000 ouid=1000
`
	got := New(strings.NewReader(in), "foo")
	if len(got) != 2 {
		t.Fatalf("want 2 events, got %d: %v", len(got), got)
	}
	ev := got[1]
	if ev["apparmor"] != "DENIED" || ev["profile"] != "foo" || ev["operation"] != "open" || ev["name"] != `/tmp/a"` {
		t.Errorf("second DENIED event (profile foo, open, name /tmp/a\") is reported as %q\nparsed fields: %v",
			strings.TrimRight(AppArmorLogs{ev}.String(), "\n"), map[string]string(ev))
	}
}
