#!/bin/bash
# C08 counterexample 1 -- nm-dispatcher//invoke-rc: `@{bin}/systemctl rCx -> systemctl,`
# names a child profile that the nested profile `invoke-rc` does not define
# (the only `systemctl` sub-profile is its *sibling* nm-dispatcher//systemctl).
#
# Where to put it: nowhere in the source tree, run it as is from the worktree root:
#     bash .seed/ce1.sh            (optional: DIST=arch|debian|ubuntu|opensuse|whonix, FULL=--full)
# Exit status 1 (and a line starting with DANGLING) on the unmodified tree; 0 once the
# transition target of every nested profile of nm-dispatcher resolves in the build.
#
# The script builds the tree with the real prebuild tool (ABI 3 so that the reference
# parser 3.0.8 can compile the result), compiles .build/apparmor.d/nm-dispatcher with
# /usr/sbin/apparmor_parser -S and reads, from the binary policy, the names of all
# profiles and the exec-transition table (xtable) of each of them. Every xtable entry
# must be the name of a profile of the same binary (all targets here are children).
set -u
cd "$(dirname "$0")/.." || exit 2
export GOFLAGS=-mod=mod GOPROXY=off GOSUMDB=off GOTOOLCHAIN=local GOCACHE=/tmp/gocache-$(basename "$PWD")
DIST=${DIST:-debian}
DISTRIBUTION=$DIST go run ./cmd/prebuild --abi 3 --version 3.0 ${FULL:-} >/tmp/ce1-build.log 2>&1 || { echo "build failed, see /tmp/ce1-build.log"; exit 2; }
git checkout -q debian/apparmor.d.hide 2>/dev/null

B=.build/apparmor.d
echo "source rule  : $(grep -n 'rCx -> systemctl' apparmor.d/groups/network/nm-dispatcher | tr '\n' ' ')"
/usr/sbin/apparmor_parser -Q -K -I $B -I /etc/apparmor.d \
    --policy-features /etc/apparmor.d/abi/3.0 --kernel-features /etc/apparmor.d/abi/3.0 \
    -S $B/nm-dispatcher > /tmp/ce1-nm.bin 2>/tmp/ce1-parser.err || { echo "parser failed"; cat /tmp/ce1-parser.err; exit 2; }

python3 - <<'PY'
import re, struct, sys
d = open('/tmp/ce1-nm.bin', 'rb').read()
names = []
for m in re.finditer(rb'\x04\x08\x00profile\x00\x07\x05(..)', d, re.S):
    n = struct.unpack('<H', m.group(1))[0]
    names.append((m.start(), d[m.end():m.end()+n-1].decode()))
defined = {n for _, n in names}
print('profiles in the compiled policy:', sorted(defined))
bad = 0
for m in re.finditer(rb'\x04\x07\x00xtable\x00\x07\x0b(..)', d, re.S):
    cnt = struct.unpack('<H', m.group(1))[0]
    p = m.end()
    owner = [nm for s, nm in names if s < m.start()][-1]
    for _ in range(cnt):
        n = struct.unpack('<H', d[p+1:p+3])[0]
        t = d[p+3:p+3+n-1].decode()
        p += 3 + n
        ok = t in defined
        print(f'  {owner}: exec transition -> {t!r}: {"ok" if ok else "NOT DEFINED"}')
        if not ok:
            print(f'DANGLING {owner} -> {t}')
            bad = 1
sys.exit(bad)
PY
