// C08 counterexample 2 -- an ignore-list entry that is a bare *profile name* also deletes
// every directory of that name, i.e. the whole group when a group is called like one of
// its profiles (apt, cron, flatpak, gpg, hyprland, pacman, snap, ssh, steam, systemd).
//
// Drop this file in   pkg/prebuild/prepare/   and run, from the worktree root:
//
//	export GOFLAGS=-mod=mod GOPROXY=off GOSUMDB=off GOTOOLCHAIN=local GOCACHE=/tmp/gocache-$(basename $PWD)
//	go test -p 1 -vet=off -count=1 -run TestCE2 ./pkg/prebuild/prepare/
//
// Input: the shipped opensuse ignore list plus the line `flatpak` (format documented in
// dists/ignore/main.ignore: "one ignore by line, it can be a profile name or a directory").
// AppArmor 4 ships its own `flatpak` profile (it is in dists/overwrite), so dropping ours on
// one distribution is a natural entry. Required: only the profile `flatpak` leaves the build.
// Observed: apparmor.d/groups/flatpak/ is removed as a whole, so `flatpak-app` (never named
// in any ignore list) is not built, while gnome-software, which is built, keeps its rule
// `@{bin}/bwrap rPx -> flatpak-app,`: a named exec transition to a profile that is not in
// the output. The build reports no error and no warning.
package prepare

import (
	"os"
	"strings"
	"testing"

	"github.com/roddhjav/apparmor.d/pkg/paths"
	"github.com/roddhjav/apparmor.d/pkg/prebuild"
)

func TestCE2_IgnoreBareNameRemovesWholeGroup(t *testing.T) {
	chdirGitRoot()

	// Scratch build root and scratch ignore directory: nothing of the tree is modified.
	tmp := paths.New(t.TempDir())
	oldRoot, oldRootAA, oldIgnore, oldDist := prebuild.Root, prebuild.RootApparmord, prebuild.IgnoreDir, prebuild.Distribution
	defer func() {
		prebuild.Root, prebuild.RootApparmord, prebuild.IgnoreDir, prebuild.Distribution = oldRoot, oldRootAA, oldIgnore, oldDist
	}()
	prebuild.Root = tmp.Join("build")
	prebuild.RootApparmord = prebuild.Root.Join("apparmor.d")
	prebuild.IgnoreDir = tmp.Join("ignore")
	prebuild.Distribution = "opensuse"
	if err := prebuild.IgnoreDir.MkdirAll(); err != nil {
		t.Fatal(err)
	}
	for _, name := range []string{"main.ignore", "opensuse.ignore"} {
		data, err := os.ReadFile("dists/ignore/" + name)
		if err != nil {
			t.Fatal(err)
		}
		if name == "opensuse.ignore" {
			data = append(data, []byte("\n# Provided by the apparmor package\nflatpak\n")...)
		}
		if err := prebuild.IgnoreDir.Join(name).WriteFile(data); err != nil {
			t.Fatal(err)
		}
	}

	for _, name := range []string{"synchronise", "ignore", "merge"} {
		if _, err := Tasks[name].Apply(); err != nil {
			t.Fatalf("%s: %v", name, err)
		}
	}

	// The entry names the profile flatpak: that one must be gone ...
	if prebuild.RootApparmord.Join("flatpak").Exist() {
		t.Errorf("profile flatpak is ignored but still built")
	}
	// ... a referrer of flatpak-app is still built ...
	referrer := prebuild.RootApparmord.Join("gnome-software")
	txt, err := referrer.ReadFileAsString()
	if err != nil {
		t.Fatal(err)
	}
	if !strings.Contains(txt, "-> flatpak-app,") {
		t.Fatalf("gnome-software does not name flatpak-app any more: test needs an update")
	}
	// ... so its target, which no ignore list names, must be in the output.
	for _, name := range []string{"flatpak-app", "flatpak-session-helper", "flatpak-portal", "flatpak-system-helper"} {
		if prebuild.RootApparmord.Join(name).NotExist() {
			t.Errorf("profile %s is named by no ignore list but is missing from the build "+
				"(gnome-software: `rPx -> flatpak-app` dangles)", name)
		}
	}
}
