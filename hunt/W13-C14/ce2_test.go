// Counterexample 2 for C14: kernel (non dbus) records that carry label= instead of
// profile= (compound / stacked labels, see security/apparmor/audit.c:audit_pre) are
// selected by the label filter and displayed, but "aa-log -r" puts all of them,
// whatever their label, into ONE block with an empty name: "profile {".
//
// Drop this file in:  pkg/logs/
// Run from the worktree root:
//   export GOFLAGS=-mod=mod GOPROXY=off GOSUMDB=off GOTOOLCHAIN=local
//   go test -vet=off -count=1 -run 'TestCE2' ./pkg/logs/
// Expected on the unmodified tree: FAIL.

package logs

import (
	"strings"
	"testing"
)

func TestCE2_LabelRecordsShareOneNamelessBlock(t *testing.T) {
	log := `type=AVC msg=audit(1111111111.111:1): apparmor="DENIED" operation="open" class="file" label="firefox//&sandbox" name="/etc/passwd" pid=1 comm="cat" requested_mask="r" denied_mask="r" fsuid=0 ouid=0
type=AVC msg=audit(1111111111.112:2): apparmor="DENIED" operation="open" class="file" label="lxc-c1//&unpriv" name="/etc/group" pid=2 comm="cat" requested_mask="r" denied_mask="r" fsuid=0 ouid=0
`
	// Both records are selected and displayed under their label ...
	all := New(strings.NewReader(log), "")
	if len(all) != 2 || all[0]["label"] != "firefox//&sandbox" || all[1]["label"] != "lxc-c1//&unpriv" {
		t.Fatalf("unexpected selection: %q", all)
	}
	if one := New(strings.NewReader(log), "firefox"); len(one) != 1 {
		t.Fatalf("label filter: want 1 record, got %d", len(one))
	}

	// ... but rules mode has one block per profile/label
	profiles := all.ParseToProfiles()
	if len(profiles) != 2 {
		t.Errorf("want 2 blocks (one per label), got %d", len(profiles))
	}
	for name, p := range profiles {
		if name == "" || p.Name == "" {
			p.Merge(nil)
			p.Sort()
			p.Format()
			t.Errorf("block without a name holding the rules of %d records:\n%s", len(p.Rules), p.String())
		}
	}
}
