// Counterexample 3 for C14: the hex decoder is not tied to a field boundary. A
// QUOTED value (so: not hex-encoded by the kernel) that merely contains the text
// name= / comm= / profile= / target= followed by digits or A-F is "decoded": aa-log
// reports, in every mode (-R included), a path that is not in the input.
//
// Drop this file in:  pkg/logs/
// Run from the worktree root:
//   export GOFLAGS=-mod=mod GOPROXY=off GOSUMDB=off GOTOOLCHAIN=local
//   go test -vet=off -count=1 -run 'TestCE3' ./pkg/logs/
// Expected on the unmodified tree: FAIL.

package logs

import (
	"strings"
	"testing"
)

func TestCE3_HexLikeTextInsideQuotedValue(t *testing.T) {
	for _, file := range []string{"/srv/dl/file?name=DEADBEEF", "/tmp/comm=12", "/var/cache/target=2024"} {
		line := `type=AVC msg=audit(1111111111.111:1): apparmor="DENIED" operation="open" class="file" profile="wget" name="` + file +
			`" pid=1 comm="wget" requested_mask="w" denied_mask="w" fsuid=0 ouid=0` + "\n"
		raw := GetApparmorLogs(strings.NewReader(line), "")
		if len(raw) != 1 || !strings.Contains(raw[0], `name="`+file+`"`) {
			t.Errorf("raw record does not hold the logged name %q any more: %q", file, raw)
		}
		got := New(strings.NewReader(line), "")
		if len(got) != 1 || got[0]["name"] != file {
			t.Errorf("name = %q, want %q", got[0]["name"], file)
		}
	}
}
