// Counterexample 1 for C14: a record whose file name contains ONE double quote
// (the kernel logs such a name hex-encoded) loses all of its fields.
//
// Drop this file in:  pkg/logs/
// Run from the worktree root:
//   export GOFLAGS=-mod=mod GOPROXY=off GOSUMDB=off GOTOOLCHAIN=local
//   go test -vet=off -count=1 -run 'TestCE1' ./pkg/logs/
// Expected on the unmodified tree: FAIL (all three tests).

package logs

import (
	"encoding/hex"
	"strings"
	"testing"
)

func ce1Hex(s string) string { return strings.ToUpper(hex.EncodeToString([]byte(s))) }

// A media player opens "Blue Monday (12" Mix).mp3": a perfectly well-formed AVC record.
func TestCE1_QuoteInName(t *testing.T) {
	file := `/home/u/Music/Blue Monday (12" Mix).mp3`
	line := `type=AVC msg=audit(1111111111.111:1): apparmor="DENIED" operation="open" class="file" profile="vlc" name=` + ce1Hex(file) +
		` pid=4242 comm="vlc" requested_mask="r" denied_mask="r" fsuid=1000 ouid=1000` + "\n"

	got := New(strings.NewReader(line), "")
	if len(got) != 1 {
		t.Fatalf("want 1 record, got %d: %q", len(got), got)
	}
	for key, want := range map[string]string{
		"apparmor": "DENIED", "operation": "open", "profile": "vlc", "comm": "vlc",
		"requested_mask": "r", "denied_mask": "r",
	} {
		if got[0][key] != want {
			t.Errorf("field %s = %q, want %q (record parsed as %q)", key, got[0][key], want, got[0])
		}
	}
	if !strings.Contains(got[0]["name"], `Blue Monday (12" Mix).mp3`) {
		t.Errorf("name = %q, want the logged file name", got[0]["name"])
	}
	out := got.String()
	if !strings.Contains(out, "DENIED") || !strings.Contains(out, "vlc") || !strings.Contains(out, "open") {
		t.Errorf("the displayed line shows neither the state, the profile nor the operation: %q", out)
	}
	if _, ok := got.ParseToProfiles()["vlc"]; !ok {
		t.Errorf("aa-log -r: no block for profile vlc: %v", got.ParseToProfiles())
	}
}

// Same root cause, selection side: the decoded value is put back between quotes
// unescaped, and the profile filter is matched on that text. A record of profile
// "bar" is reported for the filter "foo".
func TestCE1_QuoteInNameFoolsFilter(t *testing.T) {
	line := `type=AVC msg=audit(1111111111.111:1): apparmor="DENIED" operation="open" class="file" profile="bar" name=` + ce1Hex(`/tmp/x profile="foo`) +
		` pid=4242 comm="cat" requested_mask="r" denied_mask="r" fsuid=0 ouid=0` + "\n"
	if got := GetApparmorLogs(strings.NewReader(line), "foo"); len(got) != 0 {
		t.Errorf("filter foo selected a record of profile bar: %q", got)
	}
}

// Same root cause, malformed input: a record cut in the middle of a quoted value
// (last line of a log being written) loses the fields that were complete, it is
// shown as an empty line and gives an empty nameless block in rules mode.
func TestCE1_TruncatedRecord(t *testing.T) {
	line := `type=AVC msg=audit(1111111111.111:1): apparmor="DENIED" operation="open" profile="foo" name="/etc/shad` + "\n"
	got := New(strings.NewReader(line), "foo")
	if len(got) != 1 {
		t.Fatalf("want 1 record, got %d", len(got))
	}
	if got[0]["apparmor"] != "DENIED" || got[0]["profile"] != "foo" || got[0]["operation"] != "open" {
		t.Errorf("complete fields of the truncated record are lost: %q -> displayed as %q", got[0], got.String())
	}
}
