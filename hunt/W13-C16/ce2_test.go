// Counterexample 2 (property C16): the noise filter of aa-log drops a record by
// its path alone, whatever access was requested. A write to /dev/urandom (or
// /dev/random, /etc/ld.so.cache, @{lib}/locale/locale-archive ...) is not
// covered by abstractions/base, yet no rule at all is generated for it.
//
// Drop this file in:  pkg/logs/
// Run from the worktree root:
//   go test -p 1 -vet=off -count=1 -run TestCE2 ./pkg/logs/
package logs

import (
	"regexp"
	"strings"
	"testing"
)

func TestCE2_NoiseFilterIgnoresTheMask(t *testing.T) {
	tests := []struct {
		profile string
		name    string
		op      string
		mask    string
		want    string // regexp the printed rules have to match
	}{
		// shipped: groups/systemd/systemd-random-seed has `/dev/urandom w,`; abstractions/base only has `/dev/urandom r,`
		{"systemd-random-seed", "/dev/urandom", "open", "w", `(?m)^\s*/dev/urandom\s+r?w,`},
		// shipped: profiles-m-r/rngd and profiles-g-l/haveged have `/dev/random w,`
		{"rngd", "/dev/random", "open", "w", `(?m)^\s*/dev/random\s+r?w,`},
		// ldconfig replaces the cache; abstractions/base only has `@{etc_ro}/ld.so.cache mr,`
		{"ldconfig", "/etc/ld.so.cache", "rename_dest", "wc", `(?m)^\s*/etc/ld\.so\.cache\s+w,`},
	}
	for _, tt := range tests {
		record := `type=AVC msg=audit(1111111111.111:1111): apparmor="DENIED" operation="` + tt.op +
			`" class="file" profile="` + tt.profile + `" name="` + tt.name + `" pid=1234 comm="x" requested_mask="` +
			tt.mask + `" denied_mask="` + tt.mask + `" fsuid=0 ouid=0` + "\n"
		profiles := New(strings.NewReader(record), "").ParseToProfiles()
		p, ok := profiles[tt.profile]
		if !ok {
			t.Errorf("%s %s (%s): the record was discarded, no rule is generated", tt.profile, tt.name, tt.mask)
			continue
		}
		p.Merge(nil)
		p.Sort()
		p.Format()
		if out := p.String(); !regexp.MustCompile(tt.want).MatchString(out) {
			t.Errorf("%s %s (%s): no rule covers the write access:\n%s", tt.profile, tt.name, tt.mask, out)
		}
	}
}
