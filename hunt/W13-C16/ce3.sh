#!/bin/sh
# Counterexample 3 (property C16), checked with the reference parser.
#
# Run from the worktree root:   sh .seed/ce3.sh
# Exit status 1 (FAIL) when the rules aa-log generates for two setrlimit records
# (nofile 65536 and nofile 8192) compile to the very same policy as
# `set rlimit nofile <= 8192,` alone, i.e. the request for 65536 is not covered.
export GOFLAGS=-mod=mod GOPROXY=off GOSUMDB=off GOTOOLCHAIN=local GOCACHE=${GOCACHE:-/tmp/gocache-$(basename "$PWD")}
tmp=$(mktemp -d /tmp/w13-C16-ce3.XXXXXX) || exit 2
trap 'rm -rf "$tmp"' EXIT
cat > "$tmp/audit.log" <<'LOG'
type=AVC msg=audit(1111111111.111:1): apparmor="DENIED" operation="setrlimit" class="rlimits" profile="foo" pid=1 comm="x" rlimit=nofile value=65536
type=AVC msg=audit(1111111111.111:2): apparmor="DENIED" operation="setrlimit" class="rlimits" profile="foo" pid=1 comm="x" rlimit=nofile value=8192
LOG
go run ./cmd/aa-log -f "$tmp/audit.log" -r > "$tmp/generated.aa" || exit 2
printf 'profile foo {\n  set rlimit nofile <= 8192,\n}\n'  > "$tmp/only8192.aa"
printf 'profile foo {\n  set rlimit nofile <= 65536,\n}\n' > "$tmp/only65536.aa"
parse() {
	/usr/sbin/apparmor_parser -Q -K --policy-features /etc/apparmor.d/abi/3.0 \
		--kernel-features /etc/apparmor.d/abi/3.0 -S "$1" | md5sum | cut -d' ' -f1
}
echo "generated rules:"; cat "$tmp/generated.aa"
gen=$(parse "$tmp/generated.aa"); low=$(parse "$tmp/only8192.aa"); high=$(parse "$tmp/only65536.aa")
echo "generated=$gen  only-8192=$low  only-65536=$high"
if [ "$gen" = "$low" ] && [ "$gen" != "$high" ]; then
	echo "FAIL: the generated profile is the policy 'nofile <= 8192': the logged request for 65536 is not covered"
	exit 1
fi
echo "PASS"
