// Counterexample 3 (property C16): two setrlimit records on the same resource
// give two `set rlimit` rules (rlimit rules are never merged) sorted as
// strings. apparmor_parser keeps the LAST `set rlimit <key>` of a profile, so
// with the values 65536 and 8192 the profile compiles to `nofile <= 8192`:
// the recorded request for 65536 is not covered. (ce3.sh shows it with the
// reference parser.)
//
// Drop this file in:  pkg/logs/
// Run from the worktree root:
//   go test -p 1 -vet=off -count=1 -run TestCE3 ./pkg/logs/
package logs

import (
	"regexp"
	"strconv"
	"strings"
	"testing"
)

func TestCE3_RlimitLastRuleWins(t *testing.T) {
	values := []int{65536, 8192}
	records := ""
	for i, v := range values {
		records += `type=AVC msg=audit(1111111111.111:` + strconv.Itoa(i) + `): apparmor="DENIED" operation="setrlimit" ` +
			`class="rlimits" profile="foo" pid=1 comm="x" rlimit=nofile value=` + strconv.Itoa(v) + "\n"
	}
	profiles := New(strings.NewReader(records), "").ParseToProfiles()
	p, ok := profiles["foo"]
	if !ok {
		t.Fatalf("no rules under profile foo")
	}
	p.Merge(nil)
	p.Sort()
	p.Format()
	out := p.String()

	// What the profile means once parsed: the last rule of a resource replaces the others
	effective := -1
	for _, m := range regexp.MustCompile(`set rlimit nofile\s*<=\s*([0-9]+),`).FindAllStringSubmatch(out, -1) {
		effective, _ = strconv.Atoi(m[1])
	}
	for _, v := range values {
		if effective < v {
			t.Errorf("the generated rules limit nofile to %d: the recorded request for %d is not covered:\n%s",
				effective, v, out)
		}
	}
}
