// Counterexample 1 (property C16): a D-Bus unique name above :1.69999 is
// rewritten to @{busname}, whose shipped value (:1.@{u16}) does not match it.
//
// Drop this file in:  pkg/logs/
// Run from the worktree root:
//   go test -p 1 -vet=off -count=1 -run TestCE1 ./pkg/logs/
//
// The test runs the same pipeline as `aa-log --rules` (logs.New,
// ParseToProfiles, Merge, Sort, Format, String), takes the peer name of the
// generated dbus rule, expands it with the tunables shipped in
// apparmor.d/tunables/multiarch.d/{base,system} and checks that it still
// matches the name that was logged.
package logs

import (
	"os"
	"regexp"
	"strings"
	"testing"
)

// ce1Vars reads `@{name}=v1 v2` / `@{name}+=v3` lines of the shipped tunables.
func ce1Vars(t *testing.T, files ...string) map[string][]string {
	vars := map[string][]string{}
	def := regexp.MustCompile(`^@\{([A-Za-z0-9_]+)\}\s*(\+?=)\s*(.*)$`)
	for _, file := range files {
		raw, err := os.ReadFile(file)
		if err != nil {
			t.Fatal(err)
		}
		for _, line := range strings.Split(string(raw), "\n") {
			if idx := strings.Index(line, " #"); idx != -1 {
				line = line[:idx]
			}
			m := def.FindStringSubmatch(strings.TrimSpace(line))
			if m == nil {
				continue
			}
			values := strings.Fields(m[3])
			if m[2] == "=" {
				vars[m[1]] = values
			} else {
				vars[m[1]] = append(vars[m[1]], values...)
			}
		}
	}
	return vars
}

// ce1Expand replaces every @{var} by the alternation of its values.
func ce1Expand(t *testing.T, vars map[string][]string, in string) string {
	ref := regexp.MustCompile(`@\{([A-Za-z0-9_]+)\}`)
	for i := 0; i < 50 && ref.MatchString(in); i++ {
		in = ref.ReplaceAllStringFunc(in, func(s string) string {
			name := ref.FindStringSubmatch(s)[1]
			values, ok := vars[name]
			if !ok {
				t.Fatalf("variable @{%s} is not defined in the shipped tunables", name)
			}
			if len(values) == 1 {
				return values[0]
			}
			return "{" + strings.Join(values, ",") + "}"
		})
	}
	return in
}

// ce1ToRegexp converts an (expanded) AARE to a Go regexp.
func ce1ToRegexp(aare string) *regexp.Regexp {
	var res strings.Builder
	res.WriteString("^")
	depth := 0
	for i := 0; i < len(aare); i++ {
		c := aare[i]
		switch {
		case c == '[': // a character class is copied as it is
			end := strings.IndexByte(aare[i+1:], ']')
			res.WriteString(aare[i : i+end+2])
			i += end + 1
		case c == '{':
			depth++
			res.WriteString("(?:")
		case c == '}':
			depth--
			res.WriteString(")")
		case c == ',' && depth > 0:
			res.WriteString("|")
		case c == '*' && i+1 < len(aare) && aare[i+1] == '*':
			res.WriteString(".*")
			i++
		case c == '*':
			res.WriteString("[^/]*")
		case c == '?':
			res.WriteString("[^/]")
		default:
			res.WriteString(regexp.QuoteMeta(string(c)))
		}
	}
	res.WriteString("$")
	return regexp.MustCompile(res.String())
}

func TestCE1_BusnameAboveU16(t *testing.T) {
	const logged = ":1.70000" // a valid unique name: the counter of dbus-daemon is not bounded by 65535
	record := `type=USER_AVC msg=audit(1111111111.111:1111): pid=1780 uid=102 auid=4294967295 ses=4294967295 subj=? ` +
		`msg='apparmor="DENIED" operation="dbus_method_call"  bus="session" path="/org/gtk/Settings" ` +
		`interface="org.freedesktop.DBus.Properties" member="GetAll" mask="send" name="` + logged + `" pid=1794 ` +
		`label="foo" peer_pid=1790 peer_label="gsd-xsettings" exe="/usr/bin/dbus-daemon" sauid=102 hostname=? addr=? terminal=?'` + "\n"

	profiles := New(strings.NewReader(record), "").ParseToProfiles()
	p, ok := profiles["foo"]
	if !ok {
		t.Fatalf("no rules under profile foo: %v", profiles)
	}
	p.Merge(nil)
	p.Sort()
	p.Format()
	out := p.String()

	m := regexp.MustCompile(`peer=\(name=([^,)]+)`).FindStringSubmatch(out)
	if m == nil {
		t.Fatalf("no peer name in the generated rule:\n%s", out)
	}
	vars := ce1Vars(t,
		"../../apparmor.d/tunables/multiarch.d/base",
		"../../apparmor.d/tunables/multiarch.d/system",
	)
	expanded := ce1Expand(t, vars, m[1])
	if !ce1ToRegexp(expanded).MatchString(logged) {
		t.Errorf("the generated rule does not cover the logged peer name %q:\n%s\npeer name %s expands to %s",
			logged, out, m[1], expanded)
	}

	// Sanity of the helper: a small number is covered
	if !ce1ToRegexp(expanded).MatchString(":1.45") {
		t.Fatalf("helper: %s does not even match :1.45", expanded)
	}
}
