#!/bin/sh
# Counterexample 1 for property C17 (no unconfined fallback left on rewritten exec rules in --full builds).
#
# Drop in: nowhere (stand-alone script, does not modify the source tree).
# Run from the worktree root:   sh .seed/ce1.sh
# Exit status 1 (FAIL) + the offending built lines = property violated; exit 0 = property holds.
#
# What it does: copies the shipped inputs (apparmor.d dists share systemd debian) to a scratch
# directory, adds four small generated profiles, runs the real `prebuild --full` there for a few
# points of the matrix, and greps the built host profiles for a surviving r(PU|U)x, rule.
#   case a: aaa-host  `#aa:stack X zzz-stacked`, zzz-stacked has top level `rPUx,` and `rUx,` rules
#   case b: aab-host  `#aa:stack zzy-stacked` (no X), zzy-stacked has a sub-profile with an `rPUx,` rule
#   control: zzz-host `#aa:stack X aaa-stacked` (stacked file sorts BEFORE the host): correctly rewritten
set -u
export GOFLAGS=-mod=mod GOPROXY=off GOSUMDB=off GOTOOLCHAIN=local GOCACHE=/tmp/gocache-$(basename "$PWD")
ROOT=$PWD
T=$(mktemp -d /tmp/c17-ce1.XXXXXX)
trap 'rm -rf "$T"' EXIT
go build -o "$T/prebuild" ./cmd/prebuild || exit 2
cp -a apparmor.d dists share systemd debian "$T/" || exit 2
cd "$T" || exit 2

mk() { # mk <dir> <name> <body>
cat > "apparmor.d/$1/$2" <<EOF
# apparmor.d - Full set of apparmor profiles
# SPDX-License-Identifier: GPL-2.0-only

abi <abi/4.0>,

include <tunables/global>

@{exec_path} = @{bin}/$2
profile $2 @{exec_path} {
  include <abstractions/base>

  @{exec_path} mr,

$3

  include if exists <local/$2>
}

# vim:syntax=apparmor
EOF
}
mk profiles-a-f aaa-host    '  @{bin}/own-helper rPUx,

  #aa:stack X zzz-stacked'
mk profiles-s-z zzz-stacked '  @{bin}/helper rPUx,
  @{bin}/other  rUx,'
mk profiles-a-f aab-host    '  #aa:stack zzy-stacked'
mk profiles-s-z zzy-stacked '  @{bin}/child rCx -> child,

  profile child {
    include <abstractions/base>

    @{bin}/helper rPUx,
  }'
mk profiles-s-z zzz-host    '  #aa:stack X aaa-stacked'
mk profiles-a-f aaa-stacked '  @{bin}/helper rPUx,'

rc=0
for cfg in "arch 4 4.1 " "debian 3 3.0 --enforce" "ubuntu 4 4.0 --complain"; do
	set -- $cfg
	DISTRIBUTION=$1 ./prebuild --abi "$2" --version "$3" ${4:-} --full > build.log 2>&1 || { cat build.log; exit 2; }
	for host in aaa-host aab-host zzz-host; do
		if grep -nE 'r(PU|U|pu|u)x,' ".build/apparmor.d/$host"; then
			echo "FAIL [$cfg] built $host still permits the unconfined fallback (lines above)"
			rc=1
		else
			echo "ok   [$cfg] $host"
		fi
	done
done
cd "$ROOT"
exit $rc
