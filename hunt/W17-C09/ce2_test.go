// Counterexample 2 for C09 -- a path with an unbalanced bracket character.
// ( and ) are plain characters of an AppArmor path (apparmor_parser accepts
// them bare and quoted; quoteAARE does not escape them), but
//   - tokenizeRule pushes / pops its block stack for brackets that stand
//     between double quotes, and while the stack is not empty it neither closes
//     the quote nor splits on blanks:  "/home/bob/Music/1) Intro.mp3" r,
//     panics with 'Unbalanced block', and  "/home/bob/a (b" r,  is one token
//     ('missing file or access');
//   - parseCommaRules counts the brackets of a bare path as blocks:
//     /srv/share/1)intro.txt r,  leaves the counter at -1, so the rule and every
//     rule after it in the paragraph silently disappear.
// The first rule is what aa-log -r writes for a file called "1) Intro.mp3".
//
// Drop in:  pkg/aa/
// Run from the worktree root:
//   export GOFLAGS=-mod=mod GOPROXY=off GOSUMDB=off GOTOOLCHAIN=local GOCACHE=/tmp/gocache-$(basename $PWD)
//   cp .seed/ce2_test.go pkg/aa/ce2_test.go
//   go test -vet=off -count=1 -run 'TestCE2' ./pkg/aa/ ; rm pkg/aa/ce2_test.go
//
// FAILS on the unmodified tree (all sub-tests).

package aa

import (
	"testing"
)

func ce2Parse(t *testing.T, text string) Rules {
	t.Helper()
	var got Rules
	func() {
		defer func() {
			if r := recover(); r != nil {
				t.Fatalf("ParseRules(%q) panicked: %v", text, r)
			}
		}()
		pr, _, err := ParseRules(text + "\n")
		if err != nil {
			t.Fatalf("ParseRules(%q) failed: %v", text, err)
		}
		got = pr.Flatten()
	}()
	return got
}

func TestCE2_FromLog(t *testing.T) {
	p := &Profile{}
	p.AddRule(map[string]string{
		"apparmor": "ALLOWED", "operation": "open", "class": "file", "profile": "player",
		"name": "/home/bob/Music/1) Intro.mp3", "requested_mask": "r", "denied_mask": "r",
		"fsuid": "1000", "ouid": "1000",
	})
	if len(p.Rules) != 1 {
		t.Fatalf("no rule from the log")
	}
	want := p.Rules[0].(*File)
	text := p.Rules.String() // owner "/home/bob/Music/1) Intro.mp3" r,
	t.Logf("rendered: %q", text)
	got := ce2Parse(t, text)
	if len(got) != 1 {
		t.Fatalf("got %d rules, want 1", len(got))
	}
	if f := got[0].(*File); f.Path != want.Path || f.Owner != want.Owner || f.Compare(want) != 0 {
		t.Errorf("got %v, want %v", f, want)
	}
}

func TestCE2_QuotedOpen(t *testing.T) {
	want := &File{Path: `"/home/bob/a (b"`, Access: []string{"r"}}
	text := Rules{want}.String()
	got := ce2Parse(t, text)
	if len(got) != 1 || got[0].(*File).Path != want.Path {
		t.Errorf("ParseRules(%q) = %v", text, got)
	}
}

func TestCE2_BareClose(t *testing.T) {
	rules := Rules{
		&File{Path: `/srv/share/1)intro.txt`, Access: []string{"r"}},
		&File{Path: `/srv/share/other`, Access: []string{"r"}},
	}
	text := rules.String()
	got := ce2Parse(t, text)
	if len(got) != 2 {
		t.Fatalf("ParseRules(%q): got %d rules %v, want 2", text, len(got), got)
	}
	if again := got.String(); again != text {
		t.Errorf("rendered again %q, want %q", again, text)
	}
}
