// Counterexample 3 for C09 -- a parenthesised list that holds two blanks in a
// row (hand alignment, as the shipped profiles align their columns) makes the
// parser panic: toValues deletes the empty item from the slice it is ranging
// over and then indexes past its end.
//
//   signal receive set=(int  quit term),        <- apparmor.d/groups/utils/su, line 19
//
// `aa --format apparmor.d/groups/utils/su` dies with
//   panic: runtime error: index out of range [3] with length 3   (pkg/aa/util.go, toValues)
// The same happens for an access list ( `signal (send  receive),` ,
// `signal ( send receive ),` ) and for mount options ( `options=(rw  bind)` ).
// apparmor_parser reads all of them.
//
// Drop in:  pkg/aa/
// Run from the worktree root:
//   export GOFLAGS=-mod=mod GOPROXY=off GOSUMDB=off GOTOOLCHAIN=local GOCACHE=/tmp/gocache-$(basename $PWD)
//   cp .seed/ce3_test.go pkg/aa/ce3_test.go
//   go test -vet=off -count=1 -run 'TestCE3' ./pkg/aa/ ; rm pkg/aa/ce3_test.go
// or, with the CLI, on a copy of the shipped file:
//   cp apparmor.d/groups/utils/su /tmp/su && go run ./cmd/aa -f /tmp/su
//
// FAILS on the unmodified tree (all sub-tests).

package aa

import (
	"os"
	"reflect"
	"strings"
	"testing"
)

func ce3Parse(t *testing.T, text string) Rules {
	t.Helper()
	var got Rules
	func() {
		defer func() {
			if r := recover(); r != nil {
				t.Fatalf("ParseRules(%q) panicked: %v", text, r)
			}
		}()
		pr, _, err := ParseRules(text)
		if err != nil {
			t.Fatalf("ParseRules(%q) failed: %v", text, err)
		}
		got = pr.Flatten()
	}()
	return got
}

func TestCE3_Minimal(t *testing.T) {
	for text, want := range map[string]Rule{
		"signal receive set=(int  quit term),\n\n": &Signal{Access: []string{"receive"}, Set: []string{"int", "quit", "term"}},
		"signal (send  receive),\n\n":              &Signal{Access: []string{"send", "receive"}},
		"signal ( send receive ),\n\n":             &Signal{Access: []string{"send", "receive"}},
		"mount options=(rw  bind) /a/ -> /b/,\n\n": &Mount{MountConditions: MountConditions{Options: []string{"rw", "bind"}}, Source: "/a/", MountPoint: "/b/"},
	} {
		t.Run(strings.TrimSpace(text), func(t *testing.T) {
			got := ce3Parse(t, text)
			if len(got) != 1 || reflect.TypeOf(got[0]) != reflect.TypeOf(want) || got[0].Compare(want) != 0 {
				t.Errorf("got %v, want %v", got, want)
			}
		})
	}
}

// What cmd/aa does with the shipped profile (formatFile -> parse).
func TestCE3_ShippedSu(t *testing.T) {
	raw, err := os.ReadFile("../../apparmor.d/groups/utils/su")
	if err != nil {
		t.Skip(err)
	}
	profile := string(raw)
	f := &AppArmorProfileFile{}
	nb, err := f.Parse(profile)
	if err != nil {
		t.Fatal(err)
	}
	body := strings.Join(strings.Split(profile, "\n")[nb:], "\n")
	rules := ce3Parse(t, body)
	found := false
	for _, r := range rules {
		if s, ok := r.(*Signal); ok && reflect.DeepEqual(s.Set, []string{"int", "quit", "term"}) {
			found = true
		}
	}
	if !found {
		t.Errorf("signal receive set=(int quit term) not recovered from the shipped profile")
	}
}
