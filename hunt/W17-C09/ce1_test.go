// Counterexample 1 for C09 -- a rule that starts with a keyword (link, mount,
// umount, pivot_root, change_profile, alias) or a profile header whose path
// contains '(' or '=' does not parse back: parseRule decides once per rule
// whether '(' and '=' open lists / maps, from the first token that is not a
// qualifier. For these rules that token is the keyword, so the path is cut up.
//
// Drop in:  pkg/aa/
// Run from the worktree root:
//   export GOFLAGS=-mod=mod GOPROXY=off GOSUMDB=off GOTOOLCHAIN=local GOCACHE=/tmp/gocache-$(basename $PWD)
//   cp .seed/ce1_test.go pkg/aa/ce1_test.go
//   go test -vet=off -count=1 -run 'TestCE1' ./pkg/aa/ ; rm pkg/aa/ce1_test.go
//
// FAILS on the unmodified tree (all sub-tests).

package aa

import (
	"reflect"
	"testing"
)

// render a block, read it back, return the rules (or the error / panic)
func ce1RoundTrip(t *testing.T, rules Rules) Rules {
	t.Helper()
	text := rules.String()
	t.Logf("rendered: %q", text)
	var got Rules
	func() {
		defer func() {
			if r := recover(); r != nil {
				t.Fatalf("ParseRules(%q) panicked: %v", text, r)
			}
		}()
		pr, _, err := ParseRules(text + "\n")
		if err != nil {
			t.Fatalf("ParseRules(%q) failed: %v", text, err)
		}
		got = pr.Flatten()
	}()
	if len(got) != len(rules) {
		t.Fatalf("ParseRules(%q): got %d rules, want %d", text, len(got), len(rules))
	}
	if again := got.String(); again != text {
		t.Errorf("rendering the parsed rules gives\n  %q\nwant\n  %q", again, text)
	}
	return got
}

// The rule aa-log writes for a link record on "report (1).pdf" (the name file
// managers and browsers give to a second copy).
func TestCE1_LinkFromLog(t *testing.T) {
	p := &Profile{}
	p.AddRule(map[string]string{
		"apparmor": "ALLOWED", "operation": "link", "class": "file", "profile": "foo",
		"name": "/srv/share/report (1).pdf", "target": "/srv/share/report.pdf",
		"requested_mask": "l", "denied_mask": "l", "fsuid": "0", "ouid": "1000",
	})
	if len(p.Rules) != 1 {
		t.Fatalf("no rule from the log")
	}
	want := p.Rules[0].(*Link)
	got := ce1RoundTrip(t, p.Rules)[0].(*Link)
	if got.Path != want.Path || got.Target != want.Target {
		t.Errorf("link: got %q -> %q, want %q -> %q", got.Path, got.Target, want.Path, want.Target)
	}
}

// '=' is a plain character of a file name (KDE's ksycoca5_..._<base64>=.<rand>)
func TestCE1_LinkEqual(t *testing.T) {
	want := &Link{Path: "/var/cache/ksycoca5_de_LQ6f0J2qZg4vOKgw2NbXuW7iuVU=.isNSBz", Target: "/var/cache/x"}
	got := ce1RoundTrip(t, Rules{want})[0].(*Link)
	if got.Path != want.Path || got.Target != want.Target {
		t.Errorf("link: got %q -> %q, want %q -> %q", got.Path, got.Target, want.Path, want.Target)
	}
}

func TestCE1_Mount(t *testing.T) {
	want := &Mount{
		MountConditions: MountConditions{Options: []string{"rw", "bind"}},
		Source:          `"/media/bob/My Disk (1)/"`, MountPoint: "/mnt/",
	}
	got := ce1RoundTrip(t, Rules{want})[0].(*Mount)
	if got.Source != want.Source || got.MountPoint != want.MountPoint {
		t.Errorf("mount: got %q -> %q, want %q -> %q", got.Source, got.MountPoint, want.Source, want.MountPoint)
	}
}

func TestCE1_Umount(t *testing.T) {
	want := &Umount{MountPoint: `"/media/bob/My Disk (1)/"`}
	got := ce1RoundTrip(t, Rules{want})[0].(*Umount)
	if got.MountPoint != want.MountPoint {
		t.Errorf("umount: got %q, want %q", got.MountPoint, want.MountPoint)
	}
}

func TestCE1_ChangeProfile(t *testing.T) {
	want := &ChangeProfile{Exec: `"/opt/a (b)/x"`, ProfileName: "foo"}
	got := ce1RoundTrip(t, Rules{want})[0].(*ChangeProfile)
	if got.Exec != want.Exec || got.ProfileName != want.ProfileName {
		t.Errorf("change_profile: got %q -> %q, want %q -> %q", got.Exec, got.ProfileName, want.Exec, want.ProfileName)
	}
}

// The profile header: the attachment is lost or cut in three.
func TestCE1_Header(t *testing.T) {
	for _, attachment := range []string{
		`/usr/lib/foo=bar/x`,
		`"/opt/My App (x86)/bin/foo"`,
		`/usr/bin/foo\(1\)`,
	} {
		f := &AppArmorProfileFile{Profiles: []*Profile{{Header: Header{
			Name: "foo", Attachments: []string{attachment},
		}}}}
		text := f.String()
		g := &AppArmorProfileFile{}
		if _, err := g.Parse(text); err != nil {
			t.Errorf("Parse(%q): %v", text, err)
			continue
		}
		if len(g.Profiles) != 1 {
			t.Errorf("Parse(%q): no header", text)
			continue
		}
		if got := g.Profiles[0].Attachments; !reflect.DeepEqual(got, []string{attachment}) {
			t.Errorf("Parse(%q): attachments %q, want %q", text, got, []string{attachment})
		}
	}
}

// An alias of the preamble.
func TestCE1_Alias(t *testing.T) {
	f := &AppArmorProfileFile{
		Preamble: Rules{&Alias{Path: `"/srv/data (old)/"`, RewrittenPath: "/srv/data/"}},
		Profiles: []*Profile{{Header: Header{Name: "foo", Attachments: []string{"/usr/bin/foo"}}}},
	}
	text := f.String()
	g := &AppArmorProfileFile{}
	if _, err := g.Parse(text); err != nil {
		t.Fatalf("Parse(%q): %v", text, err)
	}
	if len(g.Preamble) != 1 || g.Preamble[0].Compare(f.Preamble[0]) != 0 {
		t.Errorf("Parse(%q): preamble %v", text, g.Preamble)
	}
}
