// Counterexample 1 for property C03 (only/exclude keep exactly the rules meant for the target).
//
// Drop this file in:   pkg/prebuild/cli/
// Run (worktree root): go test -p 1 -vet=off -count=1 -run 'TestCE1' ./pkg/prebuild/cli/
//
// A guarded `@{exec_path} += ... #aa:only whonix` line is removed from the text on arch,
// but its value is still present in the built profile: the userspace builder (and the
// exec directive of any profile built earlier) resolve @{exec_path} from the text BEFORE
// the only/exclude directives have been applied (cli.Build: builder.Run, then directive.Run).
package cli

import (
	"strings"
	"testing"

	"github.com/roddhjav/apparmor.d/pkg/paths"
	"github.com/roddhjav/apparmor.d/pkg/prebuild"
	"github.com/roddhjav/apparmor.d/pkg/prebuild/builder"
)

const ce1Target = `# ce1
abi <abi/4.0>,

include <tunables/global>

@{exec_path} = @{bin}/zztarget
@{exec_path} += /opt/whonix-only/zztarget #aa:only whonix
profile zztarget @{exec_path} {
  include <abstractions/base>

  @{exec_path} mr,

  include if exists <local/zztarget>
}
`

const ce1Caller = `# ce1
abi <abi/4.0>,

include <tunables/global>

@{exec_path} = @{bin}/aacaller
profile aacaller @{exec_path} {
  include <abstractions/base>

  @{exec_path} mr,
  #aa:exec zztarget

  include if exists <local/aacaller>
}
`

func ce1Build(t *testing.T, dist, family string) (target string, caller string) {
	t.Helper()
	oldRoot, oldRootAa := prebuild.Root, prebuild.RootApparmord
	oldDist, oldFam, oldABI, oldVer := prebuild.Distribution, prebuild.Family, prebuild.ABI, prebuild.Version
	oldBuilds := builder.Builds
	defer func() {
		prebuild.Root, prebuild.RootApparmord = oldRoot, oldRootAa
		prebuild.Distribution, prebuild.Family, prebuild.ABI, prebuild.Version = oldDist, oldFam, oldABI, oldVer
		builder.Builds = oldBuilds
	}()

	prebuild.Root = paths.New(t.TempDir())
	prebuild.RootApparmord = prebuild.Root.Join("apparmor.d")
	prebuild.Distribution, prebuild.Family, prebuild.ABI, prebuild.Version = dist, family, 4, 4.1
	builder.Builds = []builder.Builder{}
	builder.Register("userspace", "hotfix") // the default builders of cmd/prebuild

	if err := prebuild.RootApparmord.MkdirAll(); err != nil {
		t.Fatal(err)
	}
	if err := prebuild.RootApparmord.Join("zztarget").WriteFile([]byte(ce1Target)); err != nil {
		t.Fatal(err)
	}
	if err := prebuild.RootApparmord.Join("aacaller").WriteFile([]byte(ce1Caller)); err != nil {
		t.Fatal(err)
	}
	if err := Build(); err != nil {
		t.Fatal(err)
	}
	return prebuild.RootApparmord.Join("zztarget").MustReadFileAsString(),
		prebuild.RootApparmord.Join("aacaller").MustReadFileAsString()
}

func TestCE1_GuardedExecPath(t *testing.T) {
	target, caller := ce1Build(t, "arch", "pacman")
	if strings.Contains(target, "#aa:") || strings.Contains(caller, "#aa:") {
		t.Fatalf("a directive marker survived")
	}
	if strings.Contains(target, "@{exec_path} += /opt/whonix-only/zztarget") {
		t.Fatalf("the guarded line itself survived on arch:\n%s", target)
	}
	// The line guarded by `only whonix` is gone on arch, so must be what it defines
	if strings.Contains(target, "whonix-only") {
		t.Errorf("arch build of zztarget still carries the whonix-only attachment:\n%s", target)
	}
	if strings.Contains(caller, "whonix-only") {
		t.Errorf("arch build of aacaller still carries a transition to the whonix-only path:\n%s", caller)
	}

	// Sanity: on whonix the value must be there
	target, caller = ce1Build(t, "whonix", "apt")
	if !strings.Contains(target, "whonix-only") || !strings.Contains(caller, "whonix-only") {
		t.Errorf("whonix build lost the whonix-only path:\n%s\n%s", target, caller)
	}
}
