// Counterexample 2 for property C03 (only/exclude keep exactly the rules meant for the target).
//
// Drop this file in:   pkg/prebuild/cli/
// Run (worktree root): go test -p 1 -vet=off -count=1 -run 'TestCE2' ./pkg/prebuild/cli/
//
// A profile that carries a PARAGRAPH only/exclude directive is stacked (#aa:stack) into two
// otherwise identical hosts. The stack directive strips every empty line from the stacked
// rules, so the empty line that ends the guarded paragraph is gone when the only directive
// is applied (second pass of directive.Run): on a target the filter does not name, the
// unguarded rules that follow the paragraph are removed too. The host that is built after
// the stacked profile (file order) gets the correct text: same input, different result.
package cli

import (
	"strings"
	"testing"

	"github.com/roddhjav/apparmor.d/pkg/paths"
	"github.com/roddhjav/apparmor.d/pkg/prebuild"
	"github.com/roddhjav/apparmor.d/pkg/prebuild/builder"
)

const ce2Stacked = `# ce2
abi <abi/4.0>,

include <tunables/global>

@{exec_path} = @{bin}/mmstacked
profile mmstacked @{exec_path} {
  include <abstractions/base>

  @{exec_path} mr,

  /a r,

  #aa:only opensuse
  /zypp r,

  /b r,
  /c r,

  include if exists <local/mmstacked>
}
`

func ce2Host(name string) string {
	return `# ce2
abi <abi/4.0>,

include <tunables/global>

@{exec_path} = @{bin}/` + name + `
profile ` + name + ` @{exec_path} {
  include <abstractions/base>

  @{exec_path} mr,

  /host r,
  #aa:stack mmstacked

  include if exists <local/` + name + `>
}
`
}

func ce2Build(t *testing.T, dist, family string) map[string]string {
	t.Helper()
	oldRoot, oldRootAa := prebuild.Root, prebuild.RootApparmord
	oldDist, oldFam, oldABI, oldVer := prebuild.Distribution, prebuild.Family, prebuild.ABI, prebuild.Version
	oldBuilds := builder.Builds
	defer func() {
		prebuild.Root, prebuild.RootApparmord = oldRoot, oldRootAa
		prebuild.Distribution, prebuild.Family, prebuild.ABI, prebuild.Version = oldDist, oldFam, oldABI, oldVer
		builder.Builds = oldBuilds
	}()

	prebuild.Root = paths.New(t.TempDir())
	prebuild.RootApparmord = prebuild.Root.Join("apparmor.d")
	prebuild.Distribution, prebuild.Family, prebuild.ABI, prebuild.Version = dist, family, 4, 4.1
	builder.Builds = []builder.Builder{}
	builder.Register("userspace", "hotfix") // the default builders of cmd/prebuild

	if err := prebuild.RootApparmord.MkdirAll(); err != nil {
		t.Fatal(err)
	}
	files := map[string]string{
		"aahost":    ce2Host("aahost"), // built before mmstacked
		"mmstacked": ce2Stacked,
		"zzhost":    ce2Host("zzhost"), // built after mmstacked
	}
	for name, content := range files {
		if err := prebuild.RootApparmord.Join(name).WriteFile([]byte(content)); err != nil {
			t.Fatal(err)
		}
	}
	if err := Build(); err != nil {
		t.Fatal(err)
	}
	res := map[string]string{}
	for name := range files {
		res[name] = prebuild.RootApparmord.Join(name).MustReadFileAsString()
	}
	return res
}

func TestCE2_StackedParagraph(t *testing.T) {
	got := ce2Build(t, "arch", "pacman")
	for _, name := range []string{"aahost", "mmstacked", "zzhost"} {
		text := got[name]
		if strings.Contains(text, "#aa:") {
			t.Errorf("%s: a directive marker survived:\n%s", name, text)
		}
		if strings.Contains(text, "/zypp r,") {
			t.Errorf("%s: the rule guarded by `only opensuse` is present on arch:\n%s", name, text)
		}
		// Not guarded by anything: must be carried through on every target
		for _, rule := range []string{"  /a r,", "  /b r,", "  /c r,", "  include if exists <local/mmstacked>"} {
			if !strings.Contains(text, rule+"\n") {
				t.Errorf("%s (arch): unguarded line %q was lost:\n%s", name, rule, text)
			}
		}
	}

	// Sanity: on opensuse everything is there in the three files
	got = ce2Build(t, "opensuse", "zypper")
	for _, name := range []string{"aahost", "mmstacked", "zzhost"} {
		for _, rule := range []string{"  /a r,", "  /zypp r,", "  /b r,", "  /c r,"} {
			if !strings.Contains(got[name], rule+"\n") {
				t.Errorf("%s (opensuse): line %q was lost:\n%s", name, rule, got[name])
			}
		}
	}
}
