// Counterexample 3 for property C03 (only/exclude keep exactly the rules meant for the target).
//
// Drop this file in:   pkg/prebuild/directive/
// Run (worktree root): go test -p 1 -vet=off -count=1 -run 'TestCE3' ./pkg/prebuild/directive/
//
// An inline only/exclude directive guards a RULE; rules may span several lines (the shipped
// dbus rules all do). The inline removal works on the single line that carries the marker:
// on a target the filter does not name, only the last line of the rule goes, the head of the
// rule survives and swallows the next (unguarded) rule.
package directive

import (
	"strings"
	"testing"

	"github.com/roddhjav/apparmor.d/pkg/paths"
	"github.com/roddhjav/apparmor.d/pkg/prebuild"
)

const ce3Profile = `profile ce3 {
  dbus send bus=system path=/org/freedesktop/PackageKit
       interface=org.freedesktop.DBus.Introspectable
       member=Introspect, #aa:only apt
  /b r,

}
`

func TestCE3_MultiLineRule(t *testing.T) {
	defer func(d, f string, a int, v float64) {
		prebuild.Distribution, prebuild.Family, prebuild.ABI, prebuild.Version = d, f, a, v
	}(prebuild.Distribution, prebuild.Family, prebuild.ABI, prebuild.Version)

	// Target named by the filter: the rule is kept, the marker is gone (works)
	prebuild.Distribution, prebuild.Family, prebuild.ABI, prebuild.Version = "debian", "apt", 4, 4.1
	got, err := Run(paths.New("ce3"), ce3Profile)
	if err != nil {
		t.Fatal(err)
	}
	if want := strings.Replace(ce3Profile, " #aa:only apt", "", 1); got != want {
		t.Errorf("debian: got\n%s\nwant\n%s", got, want)
	}

	// Target not named by the filter: the whole dbus rule must be absent, `/b r,` untouched
	prebuild.Distribution, prebuild.Family, prebuild.ABI, prebuild.Version = "arch", "pacman", 4, 4.1
	got, err = Run(paths.New("ce3"), ce3Profile)
	if err != nil {
		t.Fatal(err)
	}
	if strings.Contains(got, "#aa:") {
		t.Errorf("arch: a directive marker survived:\n%s", got)
	}
	if strings.Contains(got, "dbus send") || strings.Contains(got, "interface=") {
		t.Errorf("arch: the rule guarded by `only apt` is still (partly) present, and now runs into `/b r,`:\n%s", got)
	}
}
