// C06 counterexample 3 -- two exec directives in one host profile, the first
// naming a profile whose name is a prefix of the second one (shipped pairs:
// drkonqi / drkonqi-coredump-cleanup, baloo / baloorunner): the first directive
// is substituted with strings.ReplaceAll over the whole text, which also eats the
// beginning of the second directive line. The exec rules of the second profile
// are never generated and a rule of the first gets the rest of the name glued on.
//
// Drop this file in:  pkg/prebuild/directive/
// Run (from the worktree root):
//   export GOFLAGS=-mod=mod GOPROXY=off GOSUMDB=off GOTOOLCHAIN=local GOCACHE=/tmp/gocache-$(basename $PWD)
//   go test -vet=off -count=1 -run TestC06CE3 ./pkg/prebuild/directive/
//
// FAILS on the unmodified tree. Output for the host below:
//   profile host {
//     /{,usr/}lib{,exec,32,64}/*-linux-gnu*/{,libexec/}drkonqi Px,
//     /{,usr/}lib{,exec,32,64}/drkonqi Px,
//     /{,usr/}lib{,exec,32,64}/*-linux-gnu*/{,libexec/}drkonqi Px,
//     /{,usr/}lib{,exec,32,64}/drkonqi Px,-coredump-cleanup
//   }
// With the two directives written in the other order the result is correct.

package directive

import (
	"strings"
	"testing"

	"github.com/roddhjav/apparmor.d/pkg/paths"
	"github.com/roddhjav/apparmor.d/pkg/prebuild"
)

func TestC06CE3(t *testing.T) {
	prebuild.RootApparmord = paths.New("../../../apparmor.d/groups/kde/")
	file := paths.New("/tmp/c06/apparmor.d/host")

	// What each directive generates on its own (the real shipped target profiles)
	rules := map[string][]string{}
	for _, name := range []string{"drkonqi", "drkonqi-coredump-cleanup"} {
		got, err := Run(file, "  #aa:exec "+name)
		if err != nil {
			t.Fatal(err)
		}
		rules[name] = strings.Split(got, "\n")
		if len(rules[name]) != 2 {
			t.Fatalf("%s: expected the 2 values of its @{exec_path}, got %q", name, got)
		}
	}

	host := "profile host {\n  #aa:exec drkonqi\n  #aa:exec drkonqi-coredump-cleanup\n}\n"
	got, err := Run(file, host)
	if err != nil {
		t.Fatal(err)
	}
	lines := strings.Split(got, "\n")
	for name, want := range rules {
		for _, rule := range want {
			found := false
			for _, line := range lines {
				found = found || line == rule
			}
			if !found {
				t.Errorf("exec rule of %s lost: %q is not a line of\n%s", name, rule, got)
			}
		}
	}
	for _, line := range lines {
		trimmed := strings.TrimSpace(line)
		if strings.HasPrefix(trimmed, "/") && !strings.HasSuffix(trimmed, " Px,") {
			t.Errorf("mangled rule: %q", line)
		}
	}
}
