// C06 counterexample 1 -- a multi-valued variable referenced twice in one value
// is substituted "diagonally": the cross combinations are lost.
//
// Drop this file in:  pkg/prebuild/builder/
// Run (from the worktree root):
//   export GOFLAGS=-mod=mod GOPROXY=off GOSUMDB=off GOTOOLCHAIN=local GOCACHE=/tmp/gocache-$(basename $PWD)
//   go test -vet=off -count=1 -run TestC06CE1 ./pkg/prebuild/builder/
//
// FAILS on the unmodified tree: the built header is
//   profile ce1 /{opt/a/a,opt/b/b} {
// while @{exec_path} expands (apparmor_parser 3.0.8 -D expanded-variables) to
//   "/opt/a/a" "/opt/a/b" "/opt/b/a" "/opt/b/b"
// When /usr/sbin/apparmor_parser is present the expected set is taken from it,
// otherwise from the hard-coded list below.

package builder

import (
	"os"
	"os/exec"
	"regexp"
	"slices"
	"strings"
	"testing"

	"github.com/roddhjav/apparmor.d/pkg/paths"
)

const c06ce1Profile = `abi <abi/3.0>,

@{name} = a b
@{exec_path} = /opt/@{name}/@{name}
profile ce1 @{exec_path} {
}
`

// c06Braces expands every {a,b} alternation of a glob (no escapes needed here).
func c06Braces(s string) []string {
	start := strings.Index(s, "{")
	if start == -1 {
		return []string{s}
	}
	depth, end := 0, -1
	parts, last := []string{}, start+1
	for i := start; i < len(s) && end == -1; i++ {
		switch s[i] {
		case '{':
			depth++
		case '}':
			depth--
			if depth == 0 {
				parts = append(parts, s[last:i])
				end = i
			}
		case ',':
			if depth == 1 {
				parts = append(parts, s[last:i])
				last = i + 1
			}
		}
	}
	res := []string{}
	for _, p := range parts {
		res = append(res, c06Braces(s[:start]+p+s[end+1:])...)
	}
	return res
}

// c06Reference asks the reference parser what @{exec_path} expands to.
func c06Reference(t *testing.T, profile string, fallback []string) []string {
	const parser = "/usr/sbin/apparmor_parser"
	if _, err := os.Stat(parser); err != nil {
		return fallback
	}
	file := t.TempDir() + "/profile"
	if err := os.WriteFile(file, []byte(profile), 0o644); err != nil {
		t.Fatal(err)
	}
	out, err := exec.Command(parser, "-Q", "-K",
		"--policy-features", "/etc/apparmor.d/abi/3.0",
		"--kernel-features", "/etc/apparmor.d/abi/3.0",
		"-D", "expanded-variables", file).CombinedOutput()
	if err != nil {
		t.Logf("reference parser unusable (%v): %s", err, out)
		return fallback
	}
	for _, line := range strings.Split(string(out), "\n") {
		if strings.HasPrefix(line, "@exec_path = ") {
			res := []string{}
			for _, m := range regexp.MustCompile(`"([^"]*)"`).FindAllStringSubmatch(line, -1) {
				res = append(res, m[1])
			}
			return res
		}
	}
	return fallback
}

func c06Set(globs []string) []string {
	res := []string{}
	for _, g := range globs {
		res = append(res, c06Braces(g)...)
	}
	slices.Sort(res)
	return slices.Compact(res)
}

func TestC06CE1(t *testing.T) {
	want := c06Set(c06Reference(t, c06ce1Profile,
		[]string{"/opt/a/a", "/opt/a/b", "/opt/b/a", "/opt/b/b"}))

	opt := NewOption(paths.New("/tmp/c06/apparmor.d/ce1"))
	got, err := Builders["userspace"].Apply(opt, c06ce1Profile)
	if err != nil {
		t.Fatal(err)
	}
	m := regexp.MustCompile(`(?m)^profile ce1 (\S+) \{$`).FindStringSubmatch(got)
	if m == nil {
		t.Fatalf("no header in:\n%s", got)
	}
	have := c06Set([]string{m[1]})
	if !slices.Equal(have, want) {
		t.Errorf("built header %q matches %v, @{exec_path} matches %v", m[0], have, want)
	}
}
