// C06 counterexample 2 -- a '+' or '=' inside a variable value (g++, c++filt,
// notepad++, a=b) is taken for an assignment operator by the tokenizer: the
// value is cut in pieces and the pieces become attachments of their own.
//
// Drop this file in:  pkg/prebuild/builder/
// Run (from the worktree root):
//   export GOFLAGS=-mod=mod GOPROXY=off GOSUMDB=off GOTOOLCHAIN=local GOCACHE=/tmp/gocache-$(basename $PWD)
//   go test -vet=off -count=1 -run TestC06CE2 ./pkg/prebuild/builder/
//
// FAILS on the unmodified tree. Built headers:
//   @{exec_path} = /usr/bin/g++                ->  profile ce2 /{usr/bin/g,+=} {
//   @{exec_path} = /usr/bin/c++filt /usr/bin/x ->  profile ce2 /{usr/bin/c,+=,filt,usr/bin/x} {
//   @{exec_path} = /usr/lib/foo/a=b            ->  profile ce2 /{usr/lib/foo/a,=,b} {
// apparmor_parser 3.0.8 (-D expanded-variables) keeps each of these values whole:
//   @exec_path = "/usr/bin/g++"   |   "/usr/bin/c++filt" "/usr/bin/x"   |   "/usr/lib/foo/a=b"
// so /usr/bin/g++ is lost and /usr/bin/g, /+= are added.

package builder

import (
	"os"
	"os/exec"
	"regexp"
	"strings"
	"testing"

	"github.com/roddhjav/apparmor.d/pkg/paths"
)

func TestC06CE2(t *testing.T) {
	tests := []struct {
		values string // right-hand side of @{exec_path} =
		want   string // the only correct header attachment (GetAttachments nesting of the values)
	}{
		{"/usr/bin/g++", "/usr/bin/g++"},
		{"/usr/bin/c++filt /usr/bin/x", "/{usr/bin/c++filt,usr/bin/x}"},
		{"/usr/lib/foo/a=b", "/usr/lib/foo/a=b"},
	}
	for _, tt := range tests {
		profile := "abi <abi/3.0>,\n\n@{exec_path} = " + tt.values + "\nprofile ce2 @{exec_path} {\n}\n"

		// The input is valid AppArmor and the reference parser keeps the values whole
		if _, err := os.Stat("/usr/sbin/apparmor_parser"); err == nil {
			file := t.TempDir() + "/profile"
			_ = os.WriteFile(file, []byte(profile), 0o644)
			out, err := exec.Command("/usr/sbin/apparmor_parser", "-Q", "-K",
				"--policy-features", "/etc/apparmor.d/abi/3.0",
				"--kernel-features", "/etc/apparmor.d/abi/3.0",
				"-D", "expanded-variables", file).CombinedOutput()
			if err != nil {
				t.Fatalf("reference parser rejects the input: %v\n%s", err, out)
			}
			ref := `@exec_path = "` + strings.Join(strings.Fields(tt.values), `" "`) + `"`
			if !strings.Contains(string(out), ref) {
				t.Fatalf("reference parser does not expand to %s:\n%s", ref, out)
			}
		}

		opt := NewOption(paths.New("/tmp/c06/apparmor.d/ce2"))
		got, err := Builders["userspace"].Apply(opt, profile)
		if err != nil {
			t.Errorf("%s: %v", tt.values, err)
			continue
		}
		m := regexp.MustCompile(`(?m)^profile ce2 (\S+) \{$`).FindStringSubmatch(got)
		if m == nil {
			t.Errorf("%s: no header in:\n%s", tt.values, got)
			continue
		}
		if m[1] != tt.want {
			t.Errorf("@{exec_path} = %s: built attachment %q, want %q", tt.values, m[1], tt.want)
		}
	}
}
