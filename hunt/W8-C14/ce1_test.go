// Counterexample 1 to property C14 (aa-log shows every matching event exactly once).
//
// A value the kernel logs hex-encoded because it contains a double quote is
// decoded by util.DecodeHexInString and wrapped in plain double quotes, without
// any escaping. Every later stage (noise filter, field splitter) works on that
// flat text, so the decoded quote ends the value early:
//   - a file called `/tmp/5" disk.img` turns the whole record into garbage
//     (no DENIED state, no profile, no operation, no name),
//   - a process whose comm is ` name="/dev/log` (15 bytes, fits TASK_COMM_LEN)
//     makes the noise filter drop every record of that process.
//
// Drop this file in: pkg/logs/
// Run from the worktree root:
//   go test -vet=off -count=1 -run 'TestCE1' ./pkg/logs
// Both tests FAIL on the unmodified tree.

package logs

import (
	"encoding/hex"
	"strings"
	"testing"
)

func ce1Hex(s string) string { return strings.ToUpper(hex.EncodeToString([]byte(s))) }

func TestCE1_QuoteInDecodedName(t *testing.T) {
	// What the kernel writes for open("/tmp/5\" disk.img"): name is hex-encoded
	// (audit_string_contains_control: '"', < 0x21 or > 0x7e).
	in := `type=AVC msg=audit(1111111111.111:1): apparmor="DENIED" operation="open" profile="foo" name=` +
		ce1Hex(`/tmp/5" disk.img`) +
		` pid=12 comm="cat" requested_mask="r" denied_mask="r" fsuid=1000 ouid=0` + "\n"

	got := New(strings.NewReader(in), "")
	if len(got) != 1 {
		t.Fatalf("want 1 event, got %d: %v", len(got), got)
	}
	for key, want := range map[string]string{
		"apparmor": "DENIED", "operation": "open", "profile": "foo",
		"comm": "cat", "requested_mask": "r", "denied_mask": "r",
	} {
		if got[0][key] != want {
			t.Errorf("event[%q] = %q, want %q (event: %v)", key, got[0][key], want, got[0])
		}
	}
	if name := got[0]["name"]; !strings.HasPrefix(name, "/tmp/5") || !strings.HasSuffix(name, "disk.img") {
		t.Errorf("event[name] = %q, want the logged path /tmp/5\" disk.img", name)
	}
	if out := got.String(); !strings.Contains(out, "DENIED") || !strings.Contains(out, "foo") {
		t.Errorf("displayed line lost the state and the profile: %q", out)
	}
}

func TestCE1_CommHidesRecord(t *testing.T) {
	// prctl(PR_SET_NAME, " name=\"/dev/log") then open("/etc/shadow") under profile evil.
	evil := `type=AVC msg=audit(1111111111.111:1): apparmor="DENIED" operation="open" profile="evil" name="/etc/shadow" pid=12 comm=` +
		ce1Hex(` name="/dev/log`) +
		` requested_mask="r" denied_mask="r" fsuid=1000 ouid=0`
	good := `type=AVC msg=audit(1111111111.111:2): apparmor="DENIED" operation="open" profile="good" name="/etc/shadow" pid=13 comm="cat" requested_mask="r" denied_mask="r" fsuid=1000 ouid=0`

	got := New(strings.NewReader(evil+"\n"+good+"\n"), "")
	if len(got) != 2 {
		t.Fatalf("want 2 events (evil, good), got %d: %v", len(got), got)
	}
	if got[0]["profile"] != "evil" || got[0]["name"] != "/etc/shadow" {
		t.Errorf("first event = %v, want the DENIED open of /etc/shadow by profile evil", got[0])
	}
}
