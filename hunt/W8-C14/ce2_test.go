// Counterexample 2 to property C14 (aa-log reports nothing that is not in the input).
//
// util.regHex = `(name|comm|profile|target)=[0-9A-F]+` is not anchored to a
// field boundary, so it also fires INSIDE a quoted value: in the path
// /srv/dl/get.php?filename=2024.pdf the text "name=2024" is taken for a
// hex-encoded field, "2024" is decoded to the two bytes 0x20 0x24 (` $`) and
// wrapped in quotes. The record is then shown with the path
// /srv/dl/get.php?filename=  -- a path that is not in the log -- and
// `aa-log -r` emits a rule for that wrong path.
//
// Drop this file in: pkg/logs/
// Run from the worktree root:
//   go test -vet=off -count=1 -run 'TestCE2' ./pkg/logs
// FAILS on the unmodified tree.

package logs

import (
	"strings"
	"testing"
)

func TestCE2_HexDecodingInsideQuotedValue(t *testing.T) {
	const path = `/srv/dl/get.php?filename=2024.pdf`
	in := `type=AVC msg=audit(1111111111.111:1): apparmor="DENIED" operation="mknod" profile="wget" name="` + path +
		`" pid=12 comm="wget" requested_mask="c" denied_mask="c" fsuid=1000 ouid=1000` + "\n"

	raw := GetApparmorLogs(strings.NewReader(in), "")
	if len(raw) != 1 || !strings.Contains(raw[0], `name="`+path+`"`) {
		t.Errorf("raw record altered: %q, want it to contain name=%q", raw, path)
	}

	got := New(strings.NewReader(in), "")
	if len(got) != 1 {
		t.Fatalf("want 1 event, got %d: %v", len(got), got)
	}
	if got[0]["name"] != path {
		t.Errorf("event[name] = %q, want %q", got[0]["name"], path)
	}
}
