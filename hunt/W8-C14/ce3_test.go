// Counterexample 3 to property C14 (every matching record is reported; malformed
// lines do no harm).
//
// A record cut in the middle of a quoted value (last line of a log being
// written, printk/syslog line-length truncation of a record with a long path)
// still carries apparmor="DENIED", its operation and its profile, and it is
// selected (also by the profile filter). logs.New then loses EVERY field of it:
// the package-level `quoted` flag is left `true` by the first pass
// (strings.FieldsFunc(log, splitQuoted)) because of the unbalanced quote, it is
// not reset before the key=value pass, so every `=` is seen "inside quotes" and
// no pair is recognised. aa-log prints an empty line for the record;
// `aa-log -r` prints "unknown log type: :map[]" and an empty `profile  { }`.
//
// Drop this file in: pkg/logs/
// Run from the worktree root:
//   go test -vet=off -count=1 -run 'TestCE3' ./pkg/logs
// FAILS on the unmodified tree.

package logs

import (
	"strings"
	"testing"
)

func TestCE3_TruncatedRecordLosesAllFields(t *testing.T) {
	in := `type=AVC msg=audit(1111111111.111:2): apparmor="DENIED" operation="open" profile="bar" name="/tmp/ok" pid=12 comm="cat" requested_mask="r" denied_mask="r" fsuid=1000 ouid=0` + "\n" +
		`type=AVC msg=audit(1111111111.111:3): apparmor="DENIED" operation="open" profile="foo" name="/etc/shadow" pid=13 comm="ca` + "\n"

	for _, filter := range []string{"", "foo"} {
		got := New(strings.NewReader(in), filter)
		if len(got) == 0 {
			t.Fatalf("filter %q: no event at all", filter)
		}
		last := got[len(got)-1]
		for key, want := range map[string]string{
			"apparmor": "DENIED", "operation": "open", "profile": "foo", "name": "/etc/shadow",
		} {
			if last[key] != want {
				t.Errorf("filter %q: event[%q] = %q, want %q (event: %v)", filter, key, last[key], want, last)
			}
		}
		lines := strings.Split(strings.TrimSuffix(got.String(), "\n"), "\n")
		if l := lines[len(lines)-1]; !strings.Contains(l, "DENIED") || !strings.Contains(l, "foo") {
			t.Errorf("filter %q: the record is displayed as %q", filter, l)
		}
	}
}
