// Counterexample 1 for property C13 (variable resolution is plain substitution).
//
// Drop this file in:  pkg/aa/   (package aa)
// Run from the worktree root:
//   export GOFLAGS=-mod=mod GOPROXY=off GOSUMDB=off GOTOOLCHAIN=local
//   go test -vet=off -count=1 -run 'TestCE1' ./pkg/aa/
//
// resolveValues rewrites every "//" of the WHOLE value to "/" each time it
// substitutes one reference.  That is not plain substitution and disagrees with
// the reference parser:
//   (a) a value that is not a path (a profile label with the stacking operator
//       "//&", or a child profile "parent//child") is changed into another label;
//   (b) a leading "//" (which apparmor_parser 3.0.8 keeps: filter_slashes treats
//       it as a distinct namespace) is turned into "/", so the attachment names
//       another file than the one the reference parser attaches to.
//
// Reference (apparmor_parser 3.0.8):
//   $ cat l1.aa
//   @{p_dbus_system}=dbus-system//&unconfined
//   @{peers} = @{p_dbus_system} other
//   @{root} = /
//   @{exec_path} = @{root}/bin/foo
//   profile t @{exec_path} {
//   }
//   $ apparmor_parser -Q -K --policy-features /etc/apparmor.d/abi/3.0 \
//        --kernel-features /etc/apparmor.d/abi/3.0 -D expanded-variables -d l1.aa
//   @exec_path = "//bin/foo"
//   @p_dbus_system = "dbus-system//&unconfined"
//   @peers = "dbus-system//&unconfined" "other"
//   @root = "/"
// (and with -S: `signal send peer=@{peers},` compiles to the same policy as the
// literal `peer=dbus-system//&unconfined`, not as `peer=dbus-system/&unconfined`;
// `profile t @{root}/bin/foo` compiles to the same policy as `profile t //bin/foo`,
// not as `profile t /bin/foo`.)
package aa

import (
	"reflect"
	"testing"
)

const ce1Input = `# labels as shipped in apparmor.d/tunables/multiarch.d/profiles
@{p_dbus_system}=dbus-system//&unconfined
@{peers} = @{p_dbus_system} other
@{root} = /
@{exec_path} = @{root}/bin/foo
profile t @{exec_path} {
}
`

func ce1Resolve(t *testing.T) *AppArmorProfileFile {
	t.Helper()
	f := &AppArmorProfileFile{}
	if _, err := f.Parse(ce1Input); err != nil {
		t.Fatalf("Parse: %v", err)
	}
	if err := f.Resolve(); err != nil {
		t.Fatalf("Resolve: %v", err)
	}
	return f
}

func ce1Values(f *AppArmorProfileFile, name string) []string {
	for _, v := range f.Preamble.GetVariables() {
		if v.Name == name {
			return v.Values
		}
	}
	return nil
}

// (a) the value of a referenced variable must be substituted unchanged.
func TestCE1_LabelWithDoubleSlash(t *testing.T) {
	f := ce1Resolve(t)
	want := []string{"dbus-system//&unconfined", "other"}
	if got := ce1Values(f, "peers"); !reflect.DeepEqual(got, want) {
		t.Errorf("@{peers} = %q, want %q (as apparmor_parser -D expanded-variables)", got, want)
	}
}

// (b) a leading // is kept by the reference parser (it is not the same path as /).
func TestCE1_LeadingDoubleSlash(t *testing.T) {
	f := ce1Resolve(t)
	want := []string{"//bin/foo"}
	if got := ce1Values(f, "exec_path"); !reflect.DeepEqual(got, want) {
		t.Errorf("@{exec_path} = %q, want %q (as apparmor_parser -D expanded-variables)", got, want)
	}
	if got := f.Profiles[0].Attachments; !reflect.DeepEqual(got, want) {
		t.Errorf("attachments = %q, want %q", got, want)
	}
}
