// Counterexample 3 for property C13 (... keeps the rest of the preamble / no crash).
//
// Drop this file in:  pkg/aa/   (package aa)
// Run from the worktree root:
//   export GOFLAGS=-mod=mod GOPROXY=off GOSUMDB=off GOTOOLCHAIN=local
//   go test -vet=off -count=1 -run 'TestCE3' ./pkg/aa/
//
// A line rule of the preamble (include, variable) is tokenised as a whole,
// trailing comment included: tokenizeRule counts the brackets of the comment text
// and panics ("Unbalanced block") on a closing ) ] } that has no opening one.
// parseRule knows trailing comments (case strings.HasPrefix(token, "#")), but it
// only sees the tokens afterwards.
//
// The preamble below is accepted by apparmor_parser 3.0.8
// (apparmor_parser -Q -K ... -D expanded-variables -d ce3.aa prints @a = "/x",
// @b = "/x/y" "/z" and exits 0).
package aa

import (
	"reflect"
	"testing"
)

const ce3Input = `# two ways to get the tunables:
include <tunables/global> # a) the usual one
@{a} = /x
@{b} = @{a}/y
@{b} += /z
profile t @{b} {
}
`

func TestCE3_ClosingBracketInTrailingComment(t *testing.T) {
	f := &AppArmorProfileFile{}
	defer func() {
		if r := recover(); r != nil {
			inHeader = false
			t.Fatalf("Parse/Resolve panicked on a valid preamble: %v", r)
		}
	}()
	if _, err := f.Parse(ce3Input); err != nil {
		t.Fatalf("Parse: %v", err)
	}
	if err := f.Resolve(); err != nil {
		t.Fatalf("Resolve: %v", err)
	}
	want := []string{"/x/y", "/z"}
	if got := f.Profiles[0].Attachments; !reflect.DeepEqual(got, want) {
		t.Errorf("attachments = %q, want %q", got, want)
	}
	if len(f.Preamble.GetIncludes()) != 1 {
		t.Errorf("include rule lost: %s", f.Preamble.String())
	}
}
