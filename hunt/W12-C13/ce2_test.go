// Counterexample 2 for property C13 (... keeps the rest of the preamble).
//
// Drop this file in:  pkg/aa/   (package aa)
// Run from the worktree root:
//   export GOFLAGS=-mod=mod GOPROXY=off GOSUMDB=off GOTOOLCHAIN=local
//   go test -vet=off -count=1 -run 'TestCE2' ./pkg/aa/
//
// parseLineRules removes each line rule (comment, include, variable) from the
// text that is handed to the comma-rule parser with
//     input = strings.Replace(input, line, "", 1)
// i.e. it removes the FIRST occurrence of the line's text, wherever it is.  When
// the text of a comment line also occurs earlier, inside the inline comment of an
// abi/alias rule (the only lines that are still in the text), the inline comment
// is cut instead, the comment line stays in the text, and the leftovers are glued
// in front of the next comma rule: that rule becomes "Unknown rule" (printed on
// stdout) and silently disappears from the preamble.
//
// The preamble below is accepted by apparmor_parser 3.0.8
// (apparmor_parser -Q -K ... -d ce2.aa: exit 0).
package aa

import (
	"testing"
)

const ce2Input = `# header
abi <abi/3.0>, # needed
#
# Some comment
include <tunables/global>
alias /a/ -> /b/,
@{a} = /x
@{b} = @{a}/y
@{b} += /z
profile t @{b} {
}
`

func TestCE2_AliasLostAfterInlineComment(t *testing.T) {
	f := &AppArmorProfileFile{}
	if _, err := f.Parse(ce2Input); err != nil {
		t.Fatalf("Parse: %v", err)
	}
	if err := f.Resolve(); err != nil {
		t.Fatalf("Resolve: %v", err)
	}
	count := map[Kind]int{}
	for _, r := range f.Preamble {
		count[r.Kind()]++
	}
	want := map[Kind]int{COMMENT: 3, ABI: 1, INCLUDE: 1, ALIAS: 1, VARIABLE: 2}
	for kind, n := range want {
		if count[kind] != n {
			t.Errorf("%d %s rule(s) in the resolved preamble, want %d\npreamble:\n%s", count[kind], kind, n, f.Preamble.String())
		}
	}
	for _, r := range f.Preamble {
		if abi, ok := r.(*Abi); ok && abi.Comment != " needed" {
			t.Errorf("inline comment of the abi rule = %q, want %q", abi.Comment, " needed")
		}
	}
}
