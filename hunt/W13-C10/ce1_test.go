// CE1 (property C10) -- a peer=(k=v,k=v) list written without a blank after the
// comma is read as "no peer at all": two dbus (or unix) rules that differ only
// in their peer become identical, Rules.Merge deletes one of them, and the
// surviving rule has lost its peer condition (widened).
//
// Drop this file in:  pkg/aa/
// Run (from the worktree root):
//   export GOFLAGS=-mod=mod GOPROXY=off GOSUMDB=off GOTOOLCHAIN=local
//   go test -vet=off -count=1 -run 'TestCE1' ./pkg/aa/
//
// The reference parser (apparmor_parser 3.0.8) accepts both spellings and
// compiles `peer=(name=a.b,label=c)` and `peer=(name=a.b, label=c)` to the
// same policy.
package aa

import (
	"strings"
	"testing"
)

func ce1Merge(t *testing.T, input string) (Rules, string) {
	t.Helper()
	paras, _, err := ParseRules(input) // what `aa --format` does with each paragraph
	if err != nil {
		t.Fatalf("ParseRules: %v", err)
	}
	if len(paras) != 1 {
		t.Fatalf("want 1 paragraph, got %d", len(paras))
	}
	merged := paras[0].Merge()
	return merged, merged.String()
}

func TestCE1_DbusPeerListWithoutBlank(t *testing.T) {
	input := "  dbus send bus=session peer=(name=a.b,label=c),\n" +
		"  dbus send bus=session peer=(name=x.b,label=d),\n\n"
	merged, out := ce1Merge(t, input)
	if len(merged) != 2 {
		t.Errorf("two rules with different peers went in, %d came out:\n%s", len(merged), out)
	}
	for _, want := range []string{"name=a.b", "name=x.b", "label=c", "label=d"} {
		if !strings.Contains(out, want) {
			t.Errorf("merged list lost %q:\n%s", want, out)
		}
	}
}

func TestCE1_UnixPeerListWithoutBlank(t *testing.T) {
	input := "  unix (send) type=stream peer=(label=a,addr=@b),\n" +
		"  unix (send) type=stream peer=(label=c,addr=@d),\n\n"
	merged, out := ce1Merge(t, input)
	if len(merged) != 2 {
		t.Errorf("two rules with different peers went in, %d came out:\n%s", len(merged), out)
	}
	for _, want := range []string{"label=a", "addr=@b", "label=c", "addr=@d"} {
		if !strings.Contains(out, want) {
			t.Errorf("merged list lost %q:\n%s", want, out)
		}
	}
}
