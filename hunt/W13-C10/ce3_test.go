// CE3 (property C10) -- `owner file /a r,` (the owner qualifier in front of the
// optional `file` keyword; apparmor_parser 3.0.8 compiles it like
// `owner /a r,`) is read without its owner flag. Merged with `file /a w,` it
// becomes `/a rw,`: the read access moves from "owner only" to everybody.
// With `file /a r,` next to it the owner rule is deleted as a "duplicate".
//
// Drop this file in:  pkg/aa/
// Run (from the worktree root):
//   export GOFLAGS=-mod=mod GOPROXY=off GOSUMDB=off GOTOOLCHAIN=local
//   go test -vet=off -count=1 -run 'TestCE3' ./pkg/aa/
package aa

import (
	"testing"
)

func TestCE3_OwnerFileKeyword(t *testing.T) {
	input := "  owner file /a r,\n" +
		"  file /a w,\n\n"
	paras, _, err := ParseRules(input)
	if err != nil {
		t.Fatalf("ParseRules: %v", err)
	}
	merged := paras[0].Merge()
	out := merged.String()

	// Facts of the input: (owner, /a, r) and (anyone, /a, w). Nothing else.
	for _, r := range merged {
		f, ok := r.(*File)
		if !ok {
			continue
		}
		for _, a := range f.Access {
			if a == "r" && !f.Owner {
				t.Errorf("read access on /a is no longer limited to the owner:\n%s", out)
			}
		}
	}
	if len(merged) != 2 {
		t.Errorf("an owner rule and a plain rule cannot be one rule; got %d rule(s):\n%s", len(merged), out)
	}
}
