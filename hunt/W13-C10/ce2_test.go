// CE2 (property C10) -- a signal rule that gives its set= condition more than
// once (`signal send set=hup set=term,`, accepted by apparmor_parser 3.0.8 and
// compiled like set=(hup term)) keeps the first set only. Next to
// `signal send set=hup,` it is "identical", Rules.Merge deletes it, and the
// permission to send term is gone from the merged list.
//
// Drop this file in:  pkg/aa/
// Run (from the worktree root):
//   export GOFLAGS=-mod=mod GOPROXY=off GOSUMDB=off GOTOOLCHAIN=local
//   go test -vet=off -count=1 -run 'TestCE2' ./pkg/aa/
package aa

import (
	"strings"
	"testing"
)

func TestCE2_SignalRepeatedSet(t *testing.T) {
	input := "  signal send set=hup set=term,\n" +
		"  signal send set=hup,\n\n"
	paras, _, err := ParseRules(input)
	if err != nil {
		t.Fatalf("ParseRules: %v", err)
	}
	merged := paras[0].Merge()
	out := merged.String()
	// (send, term) is a fact of the input list; it has to be one of the merged list
	if !strings.Contains(out, "term") {
		t.Errorf("the merged list no longer allows to send term:\n%s", out)
	}
	// the same through the struct: no surviving signal rule carries term
	found := false
	for _, r := range merged {
		if s, ok := r.(*Signal); ok {
			for _, v := range s.Set {
				found = found || v == "term"
			}
		}
	}
	if !found {
		t.Errorf("no merged signal rule has term in its set: %s", out)
	}
}
