// Counterexample 2 (property C10) -- the `all` rule has no qualifier in the model:
// `deny all,` (or `audit all,`) and `all,` compare equal, so merging keeps a
// single `all,`: a deny (or an audit) is turned into / absorbed by an allow.
// NOTE: same symptom as the already repaired `deny userns,` + `userns,`, but a
// different root cause (type All has no Qualifier, newAll drops it, All.Compare
// returns 0 unconditionally, All.Merge always merges).
//
// Drop this file in:  pkg/aa/            (package aa)
// Run from the worktree root:
//
//	export GOFLAGS=-mod=mod GOPROXY=off GOSUMDB=off GOTOOLCHAIN=local GOCACHE=/tmp/gocache-$(basename $PWD)
//	go test -vet=off -count=1 -run TestCE2 ./pkg/aa/
//
// Expected on the unmodified tree: FAIL.
package aa

import (
	"strings"
	"testing"
)

func TestCE2_AllRuleQualifierLostByMerge(t *testing.T) {
	for _, input := range []string{
		"deny all,\nall,\n\n",
		"audit all,\nall,\n\n",
		"audit deny all,\ndeny all,\n\n",
	} {
		paragraphs, _, err := ParseRules(input)
		if err != nil {
			t.Fatalf("ParseRules(%q): %v", input, err)
		}
		rules := paragraphs.Flatten().Merge()
		got := rules.String()
		if len(rules) != 2 {
			t.Errorf("input:\n%smerged into %d rule(s):\n%s", input, len(rules), got)
		}
		for _, line := range strings.Split(strings.TrimSpace(input), "\n") {
			if !strings.Contains(got, line) {
				t.Errorf("rule %q is not in the merged list:\n%s", line, got)
			}
		}
	}
}
