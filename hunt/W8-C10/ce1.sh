#!/bin/bash
# Counterexample 1 (property C10), end to end with the real CLI and the reference parser.
# Run from the worktree root:   bash .seed/ce1.sh
# Exits 1 (FAIL) on the unmodified tree: the policy compiled from the formatted file differs.
set -u
export GOFLAGS=-mod=mod GOPROXY=off GOSUMDB=off GOTOOLCHAIN=local GOCACHE=/tmp/gocache-$(basename "$PWD")
T=$(mktemp -d)
trap 'rm -rf "$T"' EXIT
go build -o "$T/aa" ./cmd/aa || exit 2
P="/usr/sbin/apparmor_parser -Q -K --policy-features /etc/apparmor.d/abi/3.0 --kernel-features /etc/apparmor.d/abi/3.0"

cat > "$T/before" <<'AA'
profile t {
  /a r,
  /a w,

  deny  /a r,
  /a w,

}
AA
cp "$T/before" "$T/after"
"$T/aa" -f "$T/after" >/dev/null || exit 2
echo "--- before"; cat "$T/before"; echo "--- after aa -f"; cat "$T/after"
a=$($P -S "$T/before" | sha1sum) || exit 2
b=$($P -S "$T/after" | sha1sum) || exit 2
echo "compiled before: $a"; echo "compiled after:  $b"
if [ "$a" != "$b" ]; then echo "FAIL: aa -f changed the compiled policy (second paragraph: 'deny /a r,' + '/a w,' became 'deny /a rw,': write access to /a is now denied)"; exit 1; fi
echo PASS
