// Counterexample 3 (property C10, idempotence only; no access is changed) --
// Qualifier.Equal / Qualifier.Compare treat the explicit `allow` qualifier and no
// qualifier as different, while the templates print both the same way. Two rules
// that differ only by an explicit `allow` are neither merged nor de-duplicated,
// but their printed form is: merging the printed (already merged) list again
// changes it. `aa --format` run twice gives two different files.
//
// Drop this file in:  pkg/aa/            (package aa)
// Run from the worktree root:
//
//	export GOFLAGS=-mod=mod GOPROXY=off GOSUMDB=off GOTOOLCHAIN=local GOCACHE=/tmp/gocache-$(basename $PWD)
//	go test -vet=off -count=1 -run TestCE3 ./pkg/aa/
//
// Expected on the unmodified tree: FAIL.
package aa

import "testing"

func ce3MergeText(t *testing.T, input string) string {
	t.Helper()
	paragraphs, _, err := ParseRules(input)
	if err != nil {
		t.Fatalf("ParseRules(%q): %v", input, err)
	}
	return paragraphs.Flatten().Merge().String()
}

func TestCE3_AllowQualifierMergeNotIdempotent(t *testing.T) {
	for _, input := range []string{
		"allow /a r,\n/a w,\n\n",                  // second pass merges into `/a rw,`
		"allow /a r,\n/a r,\n\n",                  // second pass removes the duplicate
		"allow signal send,\nsignal receive,\n\n", // same for every kind with a qualifier
		"audit allow /a r,\naudit /a w,\n\n",
	} {
		once := ce3MergeText(t, input)
		twice := ce3MergeText(t, once+"\n")
		if once != twice {
			t.Errorf("merging the merged list changes it\ninput:\n%sfirst merge:\n%ssecond merge:\n%s", input, once, twice)
		}
	}
}
