// Counterexample 1 (property C10) -- `aa --format` merges one paragraph and, through
// strings.ReplaceAll, rewrites the same text where it occurs in the middle of a
// line of ANOTHER paragraph: `deny /a r,` + `/a w,` becomes `deny /a rw,`.
//
// Drop this file in:  cmd/aa/            (package main)
// Run from the worktree root:
//
//	export GOFLAGS=-mod=mod GOPROXY=off GOSUMDB=off GOTOOLCHAIN=local GOCACHE=/tmp/gocache-$(basename $PWD)
//	go test -vet=off -count=1 -run TestCE1 ./cmd/aa/
//
// Expected on the unmodified tree: FAIL (both sub-tests).
package main

import (
	"fmt"
	"sort"
	"strings"
	"testing"

	"github.com/roddhjav/apparmor.d/pkg/aa"
)

// facts returns, per paragraph, the set of (audit, allow/deny, owner, path, access) facts of the file rules.
func ce1Facts(t *testing.T, text string) []string {
	t.Helper()
	paragraphs, _, err := aa.ParseRules(text)
	if err != nil {
		t.Fatalf("ParseRules: %v", err)
	}
	res := []string{}
	for idx, rules := range paragraphs {
		set := map[string]bool{}
		for _, rule := range rules {
			if f, ok := rule.(*aa.File); ok {
				for _, access := range f.Access {
					set[fmt.Sprintf("audit=%v %q owner=%v %s %s", f.Audit, f.AccessType, f.Owner, f.Path, access)] = true
				}
			}
		}
		keys := []string{}
		for k := range set {
			keys = append(keys, k)
		}
		sort.Strings(keys)
		res = append(res, fmt.Sprintf("paragraph %d: %s", idx, strings.Join(keys, "; ")))
	}
	return res
}

func TestCE1_FormatMergeRewritesOtherParagraph(t *testing.T) {
	for _, tt := range []struct {
		name  string
		kind  kind
		input string
	}{
		{
			// An abstraction: two paragraphs. The qualifier of the second one is
			// aligned by hand with two blanks (valid AppArmor syntax).
			name:  "abstraction",
			kind:  isAbstraction,
			input: "  /a r,\n  /a w,\n\n  deny  /a r,\n  /a w,\n\n",
		},
		{
			// Same text without any indentation (upstream abstraction style): no
			// hand alignment is needed at all.
			name:  "column-0",
			kind:  isAbstraction,
			input: "/a r,\n/a w,\n\ndeny /a r,\n/a w,\n\n",
		},
	} {
		t.Run(tt.name, func(t *testing.T) {
			want := ce1Facts(t, tt.input)
			out, err := formatFile(tt.kind, tt.input)
			if err != nil {
				t.Fatalf("formatFile: %v", err)
			}
			got := ce1Facts(t, out)
			if strings.Join(got, "\n") != strings.Join(want, "\n") {
				t.Errorf("aa --format changed what the rules deny\ninput:\n%s\noutput:\n%s\nfacts before:\n  %s\nfacts after:\n  %s",
					tt.input, out, strings.Join(want, "\n  "), strings.Join(got, "\n  "))
			}
		})
	}
}
