#!/bin/bash
# C01 counterexample 3: `#aa:stack` copies the rules of the stacked profile
# into the host but not the variables its preamble defines (@{config_dirs},
# @{lib_dirs}, @{name}, ...: 80 shipped profiles define some). The host
# then refers to a variable that is never declared and is rejected.
#
# Drop in: anywhere (kept in .seed/); run from the worktree root:
#     bash .seed/ce3.sh
# Exit status 1 (FAIL) on the unmodified tree, 0 once the defect is repaired.
set -u
ROOT=${ROOT:-$PWD}
[ -f "$ROOT/cmd/prebuild/main.go" ] || { echo "run me from the worktree root (or set ROOT)"; exit 2; }
export GOFLAGS=${GOFLAGS:--mod=mod} GOPROXY=${GOPROXY:-off} GOSUMDB=${GOSUMDB:-off} GOTOOLCHAIN=${GOTOOLCHAIN:-local}
export GOCACHE=${GOCACHE:-/tmp/gocache-$(basename "$ROOT")}
SCRATCH=$(mktemp -d "${TMPDIR:-/tmp}/c01-ce.XXXXXX")
trap 'rm -rf "$SCRATCH"' EXIT
PARSER="/usr/sbin/apparmor_parser -Q -K --policy-features /etc/apparmor.d/abi/3.0 --kernel-features /etc/apparmor.d/abi/3.0 -S"

# Nothing is written into the source tree: it is copied to a scratch directory,
# prebuild is built from the worktree and run inside the copy.
( cd "$ROOT" && go build -o "$SCRATCH/prebuild" ./cmd/prebuild ) || { echo "cannot build prebuild"; exit 2; }
mkdir "$SCRATCH/src"
cp -r "$ROOT/apparmor.d" "$ROOT/dists" "$ROOT/share" "$ROOT/systemd" "$ROOT/debian" "$SCRATCH/src/"
G="$SCRATCH/src/apparmor.d/groups/zzseed"; mkdir -p "$G"

# build DIST ARGS... : run the real prebuild in the copy, then lay the output
# over the stock /etc/apparmor.d (upstream abstractions and tunables) as the
# package does at install time. abi/4.0 is served by the 3.0 feature file: the
# reference parser is 3.0.8.
build() {
	local dist=$1; shift
	( cd "$SCRATCH/src" && DISTRIBUTION=$dist "$SCRATCH/prebuild" "$@" > "$SCRATCH/prebuild.log" 2>&1 ) ||
		{ echo "prebuild failed"; tail -5 "$SCRATCH/prebuild.log"; exit 2; }
	rm -rf "$SCRATCH/base"; mkdir "$SCRATCH/base"
	cp -r /etc/apparmor.d/. "$SCRATCH/base/"
	cp /etc/apparmor.d/abi/3.0 "$SCRATCH/base/abi/4.0"
	cp -r "$SCRATCH/src/.build/apparmor.d/." "$SCRATCH/base/"
}

# loads FILE : the reference parser compiles FILE against the built tree
loads() { ( cd "$SCRATCH/base" && $PARSER -b . "$1" > /dev/null 2> "$SCRATCH/err" ); }

# profile NAME PREAMBLE BODY : a profile written the way the shipped ones are
profile() {
	printf '# apparmor.d - Full set of apparmor profiles\n# SPDX-License-Identifier: GPL-2.0-only\n\nabi <abi/4.0>,\n\ninclude <tunables/global>\n\n%b@{exec_path} = %s\nprofile %s @{exec_path} {\n  include <abstractions/base>\n\n  @{exec_path} mr,\n\n%b\n  include if exists <local/%s>\n}\n\n# vim:syntax=apparmor\n' "$2" "$3" "$1" "$4" "$1" > "$G/$1"
}

# (a) a generated child, written like the shipped profiles that keep their
#     directories in preamble variables
profile zzseed-child '@{config_dirs} = @{user_config_dirs}/zzseed\n\n' '@{bin}/zzseed-child' '  owner @{config_dirs}/{,**} rw,\n'
profile zzseed-host "" '@{bin}/zzseed-host' '  @{bin}/zzseed-child rPx -> zzseed-host//&zzseed-child,\n\n  #aa:stack zzseed-child\n'
# (b) a host that stacks a shipped profile (profiles-a-f/dropbox defines
#     @{config_dirs}, @{demon_dirs} and @{share_dirs} in its preamble)
profile zzseed-host2 "" '@{bin}/zzseed-host2' '  #aa:stack dropbox\n'

rc=0
for cfg in "arch --abi 3 --version 3.0" "ubuntu --abi 4 --version 4.0 --complain"; do
	build $cfg
	for p in zzseed-child dropbox dropbox.apparmor.d; do
		[ -f "$SCRATCH/base/$p" ] || continue
		loads $p || { echo "unexpected: $p itself does not load"; cat "$SCRATCH/err"; exit 2; }
	done
	for p in zzseed-host zzseed-host2; do
		if loads $p; then
			echo "ok   [$cfg] built $p loads"
		else
			echo "FAIL [$cfg] built $p is rejected: $(head -1 "$SCRATCH/err")"
			rc=1
		fi
	done
done
exit $rc
