#!/bin/bash
# C01 counterexample 2: the abi3 builder only comments out the bare `userns,`
# rule and lines that start with `mqueue`. The same AppArmor-4-only rule kinds
# behind a qualifier (deny / audit / allow), `userns create,`, `io_uring` and
# `all` reach the ABI 3 output untouched (of a rule written on several lines
# only the first line is commented out), and AppArmor 3 rejects the profile.
#
# Drop in: anywhere (kept in .seed/); run from the worktree root:
#     bash .seed/ce2.sh
# Exit status 1 (FAIL) on the unmodified tree, 0 once the defect is repaired.
set -u
ROOT=${ROOT:-$PWD}
[ -f "$ROOT/cmd/prebuild/main.go" ] || { echo "run me from the worktree root (or set ROOT)"; exit 2; }
export GOFLAGS=${GOFLAGS:--mod=mod} GOPROXY=${GOPROXY:-off} GOSUMDB=${GOSUMDB:-off} GOTOOLCHAIN=${GOTOOLCHAIN:-local}
export GOCACHE=${GOCACHE:-/tmp/gocache-$(basename "$ROOT")}
SCRATCH=$(mktemp -d "${TMPDIR:-/tmp}/c01-ce.XXXXXX")
trap 'rm -rf "$SCRATCH"' EXIT
PARSER="/usr/sbin/apparmor_parser -Q -K --policy-features /etc/apparmor.d/abi/3.0 --kernel-features /etc/apparmor.d/abi/3.0 -S"

# Nothing is written into the source tree: it is copied to a scratch directory,
# prebuild is built from the worktree and run inside the copy.
( cd "$ROOT" && go build -o "$SCRATCH/prebuild" ./cmd/prebuild ) || { echo "cannot build prebuild"; exit 2; }
mkdir "$SCRATCH/src"
cp -r "$ROOT/apparmor.d" "$ROOT/dists" "$ROOT/share" "$ROOT/systemd" "$ROOT/debian" "$SCRATCH/src/"
G="$SCRATCH/src/apparmor.d/groups/zzseed"; mkdir -p "$G"

# build DIST ARGS... : run the real prebuild in the copy, then lay the output
# over the stock /etc/apparmor.d (upstream abstractions and tunables) as the
# package does at install time. abi/4.0 is served by the 3.0 feature file: the
# reference parser is 3.0.8.
build() {
	local dist=$1; shift
	( cd "$SCRATCH/src" && DISTRIBUTION=$dist "$SCRATCH/prebuild" "$@" > "$SCRATCH/prebuild.log" 2>&1 ) ||
		{ echo "prebuild failed"; tail -5 "$SCRATCH/prebuild.log"; exit 2; }
	rm -rf "$SCRATCH/base"; mkdir "$SCRATCH/base"
	cp -r /etc/apparmor.d/. "$SCRATCH/base/"
	cp /etc/apparmor.d/abi/3.0 "$SCRATCH/base/abi/4.0"
	cp -r "$SCRATCH/src/.build/apparmor.d/." "$SCRATCH/base/"
}

# loads FILE : the reference parser compiles FILE against the built tree
loads() { ( cd "$SCRATCH/base" && $PARSER -b . "$1" > /dev/null 2> "$SCRATCH/err" ); }

# profile NAME PREAMBLE BODY : a profile written the way the shipped ones are
profile() {
	printf '# apparmor.d - Full set of apparmor profiles\n# SPDX-License-Identifier: GPL-2.0-only\n\nabi <abi/4.0>,\n\ninclude <tunables/global>\n\n%b@{exec_path} = %s\nprofile %s @{exec_path} {\n  include <abstractions/base>\n\n  @{exec_path} mr,\n\n%b\n  include if exists <local/%s>\n}\n\n# vim:syntax=apparmor\n' "$2" "$3" "$1" "$4" "$1" > "$G/$1"
}

# One profile per spelling, plus the control the builder does handle
profile zzseed-ctl   "" '@{bin}/zzseed-ctl'   '  userns,\n  mqueue r type=posix /,\n'
profile zzseed-deny  "" '@{bin}/zzseed-deny'  '  deny userns,\n'
profile zzseed-audit "" '@{bin}/zzseed-audit' '  audit userns,\n'
profile zzseed-perm  "" '@{bin}/zzseed-perm'  '  userns create,\n'
profile zzseed-dmq   "" '@{bin}/zzseed-dmq'   '  deny mqueue,\n'
profile zzseed-uring "" '@{bin}/zzseed-uring' '  io_uring sqpoll,\n'
profile zzseed-all   "" '@{bin}/zzseed-all'   '  audit deny all,\n'
profile zzseed-ml    "" '@{bin}/zzseed-ml'    '  mqueue (read getattr)\n         type=posix /zzseed,\n'

rc=0
for cfg in "arch --abi 3 --version 3.0" "debian --abi 3 --version 4.0 --complain"; do
	build $cfg
	for p in zzseed-ctl zzseed-deny zzseed-audit zzseed-perm zzseed-dmq zzseed-uring zzseed-all zzseed-ml; do
		rule=$(sed -n '14,15p' "$SCRATCH/base/$p" | tr -s '\n ' ' ' | sed 's/^ //; s/ $//')
		if loads $p; then
			echo "ok   [$cfg] $p loads          (built rule: '$rule')"
		else
			echo "FAIL [$cfg] $p is rejected    (built rule: '$rule'): $(head -1 "$SCRATCH/err")"
			rc=1
		fi
	done
done
exit $rc
