#!/bin/bash
# C01 counterexample 1: the rules written by `#aa:exec` escape the hotfix builder
# (Px stays Px while every other rule of the profile became px) and the built
# profile is rejected: "conflicting x modifiers".
#
# Drop in: anywhere (kept in .seed/); run from the worktree root:
#     bash .seed/ce1.sh
# Exit status 1 (FAIL) on the unmodified tree, 0 once the defect is repaired.
set -u
ROOT=${ROOT:-$PWD}
[ -f "$ROOT/cmd/prebuild/main.go" ] || { echo "run me from the worktree root (or set ROOT)"; exit 2; }
export GOFLAGS=${GOFLAGS:--mod=mod} GOPROXY=${GOPROXY:-off} GOSUMDB=${GOSUMDB:-off} GOTOOLCHAIN=${GOTOOLCHAIN:-local}
export GOCACHE=${GOCACHE:-/tmp/gocache-$(basename "$ROOT")}
SCRATCH=$(mktemp -d "${TMPDIR:-/tmp}/c01-ce.XXXXXX")
trap 'rm -rf "$SCRATCH"' EXIT
PARSER="/usr/sbin/apparmor_parser -Q -K --policy-features /etc/apparmor.d/abi/3.0 --kernel-features /etc/apparmor.d/abi/3.0 -S"

# Nothing is written into the source tree: it is copied to a scratch directory,
# prebuild is built from the worktree and run inside the copy.
( cd "$ROOT" && go build -o "$SCRATCH/prebuild" ./cmd/prebuild ) || { echo "cannot build prebuild"; exit 2; }
mkdir "$SCRATCH/src"
cp -r "$ROOT/apparmor.d" "$ROOT/dists" "$ROOT/share" "$ROOT/systemd" "$ROOT/debian" "$SCRATCH/src/"
G="$SCRATCH/src/apparmor.d/groups/zzseed"; mkdir -p "$G"

# build DIST ARGS... : run the real prebuild in the copy, then lay the output
# over the stock /etc/apparmor.d (upstream abstractions and tunables) as the
# package does at install time. abi/4.0 is served by the 3.0 feature file: the
# reference parser is 3.0.8.
build() {
	local dist=$1; shift
	( cd "$SCRATCH/src" && DISTRIBUTION=$dist "$SCRATCH/prebuild" "$@" > "$SCRATCH/prebuild.log" 2>&1 ) ||
		{ echo "prebuild failed"; tail -5 "$SCRATCH/prebuild.log"; exit 2; }
	rm -rf "$SCRATCH/base"; mkdir "$SCRATCH/base"
	cp -r /etc/apparmor.d/. "$SCRATCH/base/"
	cp /etc/apparmor.d/abi/3.0 "$SCRATCH/base/abi/4.0"
	cp -r "$SCRATCH/src/.build/apparmor.d/." "$SCRATCH/base/"
}

# loads FILE : the reference parser compiles FILE against the built tree
loads() { ( cd "$SCRATCH/base" && $PARSER -b . "$1" > /dev/null 2> "$SCRATCH/err" ); }

# profile NAME PREAMBLE BODY : a profile written the way the shipped ones are
profile() {
	printf '# apparmor.d - Full set of apparmor profiles\n# SPDX-License-Identifier: GPL-2.0-only\n\nabi <abi/4.0>,\n\ninclude <tunables/global>\n\n%b@{exec_path} = %s\nprofile %s @{exec_path} {\n  include <abstractions/base>\n\n  @{exec_path} mr,\n\n%b\n  include if exists <local/%s>\n}\n\n# vim:syntax=apparmor\n' "$2" "$3" "$1" "$4" "$1" > "$G/$1"
}

# The helper is versioned on disk (zzseed-helper-1, -2, ...), like the shipped
# polkit-agent-helper-[0-9] or polkit-kde-authentication-agent-[0-9].
profile zzseed-helper "" '@{lib}/zzseed/zzseed-helper-[0-9]' ''
# The application may run whatever sits in its private lib directory under that
# program's own profile, and names the helper with the exec directive.
profile zzseed "" '@{bin}/zzseed' '  @{lib}/zzseed/*  rPx,\n  #aa:exec zzseed-helper\n'

# What the directive stands for, written by hand (both rules Px): accepted
build arch --abi 3 --version 3.0
sed 's|^  #aa:exec zzseed-helper$|  @{lib}/zzseed/zzseed-helper-[0-9] Px,|' "$G/zzseed" > "$SCRATCH/base/zzseed.byhand"
loads zzseed.byhand || { echo "unexpected: the hand written equivalent does not load"; cat "$SCRATCH/err"; exit 2; }
echo "source with the directive written out by hand: loads"

rc=0
for cfg in "arch --abi 3 --version 3.0" "debian --abi 3 --version 4.0 --complain" "ubuntu --abi 4 --version 4.0 --enforce"; do
	build $cfg
	grep -n 'zzseed/' "$SCRATCH/base/zzseed" | sed 's/^/    /'
	if loads zzseed; then
		echo "ok   [$cfg] built zzseed loads"
	else
		echo "FAIL [$cfg] built zzseed is rejected: $(head -2 "$SCRATCH/err" | tr '\n' ' ')"
		rc=1
	fi
done
exit $rc
