// Counterexample 1 for property C15 (aa-log reports each record's own field values).
//
// Drop this file in:  pkg/logs/   (package logs)
// Run from the worktree root:
//   export GOFLAGS=-mod=mod GOPROXY=off GOSUMDB=off GOTOOLCHAIN=local
//   go test -vet=off -count=1 -run TestCE1 ./pkg/logs/
//
// FAILS on the unmodified tree: a path component literally called "one" that
// follows "/proc/" is reported as "1", i.e. as a different concrete path
// (/proc/one/... becomes @{PROC}/1/... = /proc/1/...). This is not a
// generalisation: the reported value no longer covers the logged one.
package logs

import (
	"strings"
	"testing"
)

func TestCE1ProcOneSentinel(t *testing.T) {
	tests := []struct {
		name  string
		log   string
		key   string
		want  string // what the generalisation rules, taken one by one, give
		wrong string // what the code reports
	}{
		{
			name:  "name",
			log:   `type=AVC msg=audit(1.1:1): apparmor="DENIED" operation="open" class="file" profile="p" name="/srv/chroot/proc/one/status" pid=1 comm="x" requested_mask="r" denied_mask="r" fsuid=0 ouid=0`,
			key:   "name",
			want:  "/srv/chroot@{PROC}/one/status",
			wrong: "/srv/chroot@{PROC}/1/status",
		},
		{
			name:  "name at the root",
			log:   `type=AVC msg=audit(1.1:2): apparmor="DENIED" operation="open" class="file" profile="p" name="/proc/one/x" pid=1 comm="x" requested_mask="r" denied_mask="r" fsuid=0 ouid=0`,
			key:   "name",
			want:  "@{PROC}/one/x",
			wrong: "@{PROC}/1/x",
		},
		{
			name:  "hex-encoded name",
			log:   `type=AVC msg=audit(1.1:3): apparmor="DENIED" operation="open" class="file" profile="p" name=2F6D6E742F70726F632F6F6E652F6120622E747874 pid=1 comm="x" requested_mask="r" denied_mask="r" fsuid=0 ouid=0`,
			key:   "name", // /mnt/proc/one/a b.txt
			want:  "/mnt@{PROC}/one/a b.txt",
			wrong: "/mnt@{PROC}/1/a b.txt",
		},
		{
			name:  "profile",
			log:   `type=AVC msg=audit(1.1:4): apparmor="DENIED" operation="open" class="file" profile="/opt/proc/one/tool" name="/tmp/x" pid=1 comm="x" requested_mask="r" denied_mask="r" fsuid=0 ouid=0`,
			key:   "profile",
			want:  "/opt@{PROC}/one/tool",
			wrong: "/opt@{PROC}/1/tool",
		},
		{
			name:  "target",
			log:   `type=AVC msg=audit(1.1:5): apparmor="DENIED" operation="link" class="file" profile="p" name="/tmp/x" pid=1 comm="x" requested_mask="l" denied_mask="l" fsuid=0 ouid=0 target="/data/proc/one/y"`,
			key:   "target",
			want:  "/data@{PROC}/one/y",
			wrong: "/data@{PROC}/1/y",
		},
	}
	for _, tt := range tests {
		t.Run(tt.name, func(t *testing.T) {
			got := New(strings.NewReader(tt.log), "")
			if len(got) != 1 {
				t.Fatalf("want 1 event, got %d: %v", len(got), got)
			}
			if got[0][tt.key] != tt.want {
				t.Errorf("%s = %q, want %q (the component \"one\" is the record's own text)", tt.key, got[0][tt.key], tt.want)
			}
		})
	}
}
