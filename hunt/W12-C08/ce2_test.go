// Counterexample 2 for property C08 (everything a built policy refers to exists
// in that same build).
//
// Drop this file in:   pkg/prebuild/directive/
// Run from the root:   go test -p 1 -vet=off -count=1 -run TestCE2 ./pkg/prebuild/directive/
//
// The source profile is self-consistent on every distribution: `rCx -> helper`
// names the child profile `helper` defined below, and only the paragraph
// "#aa:only apt / dpkg rule" is meant to be distribution specific. The line
// that ends this paragraph is not zero-length: it holds the two blanks of the
// indentation (invisible in an editor, accepted by apparmor_parser, and treated
// as an empty line by the rest of the project: util.Filter, stack.go "Remove
// empty lines").
//
// On a distribution outside the apt family the paragraph removal of the
// only/exclude directive (`(?:.+\n?)*`) does not stop at that line: it goes on
// to the next zero-length line and removes the whole child profile `helper`
// as well. Braces stay balanced, apparmor_parser accepts the result, and the
// named transition `rCx -> helper` that is kept now names a profile that no
// longer exists in the build (arch, opensuse) whereas it exists on
// debian/ubuntu/whonix.

package directive

import (
	"strings"
	"testing"

	"github.com/roddhjav/apparmor.d/pkg/paths"
	"github.com/roddhjav/apparmor.d/pkg/prebuild"
)

var ce2Source = strings.Join([]string{
	"abi <abi/4.0>,",
	"",
	"include <tunables/global>",
	"",
	"@{exec_path} = @{bin}/ce2-tool",
	"profile ce2-tool @{exec_path} {",
	"  include <abstractions/base>",
	"",
	"  @{exec_path} mr,",
	"",
	"  @{bin}/ce2-helper rCx -> helper,",
	"",
	"  #aa:only apt",
	"  @{bin}/dpkg rPx -> child-dpkg,",
	"  ", // the paragraph ends here: a line that only holds the indentation
	"  profile helper {",
	"    include <abstractions/base>",
	"    @{bin}/ce2-helper mr,",
	"    include if exists <local/ce2-tool_helper>",
	"  }",
	"",
	"  include if exists <local/ce2-tool>",
	"}",
	"",
}, "\n")

func TestCE2_OnlyParagraphRunsOverBlankLineWithIndentation(t *testing.T) {
	dist, family := prebuild.Distribution, prebuild.Family
	defer func() { prebuild.Distribution, prebuild.Family = dist, family }()

	for _, tt := range []struct{ dist, family string }{
		{"debian", "apt"},
		{"arch", "pacman"},
		{"opensuse", "zypper"},
	} {
		prebuild.Distribution, prebuild.Family = tt.dist, tt.family
		got, err := Run(paths.New(".build/apparmor.d/ce2-tool"), ce2Source)
		if err != nil {
			t.Fatalf("%s: directive.Run() error = %v", tt.dist, err)
		}
		if !strings.Contains(got, "rCx -> helper,") {
			t.Fatalf("%s: the named child transition disappeared:\n%s", tt.dist, got)
		}
		if strings.Count(got, "{\n") != strings.Count(got, "}\n") {
			t.Fatalf("%s: unbalanced braces, the parser would refuse this:\n%s", tt.dist, got)
		}
		// C08: the target of `rCx -> helper` inside ce2-tool is ce2-tool//helper
		if !strings.Contains(got, "\n  profile helper {\n") {
			t.Errorf("%s: `rCx -> helper` dangles in the built profile: the child profile helper "+
				"was removed together with the '#aa:only apt' paragraph.\nbuilt profile:\n%s", tt.dist, got)
		}
	}
}
