// Counterexample 3 for property C08 (every systemd drop-in that sets
// AppArmorProfile= names a built profile).
//
// Drop this file in:   pkg/prebuild/builder/
// Run from the root:   go test -p 1 -vet=off -count=1 -run TestCE3 ./pkg/prebuild/builder/
//
// Input: a profile whose name holds one of the letter pairs the hotfix builder
// looks for (here QPxTool, the name of its binary) and a drop-in
// systemd/default/system/qpxtool.service with `AppArmorProfile=QPxTool`.
// Both agree in the source tree. The hotfix builder (always registered by
// cmd/prebuild) lower-cases `Px`, `Cx`, `Ux`, `PUx` wherever the two or three
// letters occur, not only in the access of a file rule: the built profile is
// called `QpxTool` (its attachment and its local include are rewritten too),
// while prepare/systemd.go copies the drop-in verbatim. The drop-in then names
// a profile that is not in the build: systemd refuses to start the unit.

package builder

import (
	"regexp"
	"testing"

	"github.com/roddhjav/apparmor.d/pkg/paths"
)

const ce3Source = `abi <abi/4.0>,

include <tunables/global>

@{exec_path} = @{bin}/QPxTool
profile QPxTool @{exec_path} {
  include <abstractions/base>

  @{exec_path} mr,
  @{bin}/readcd rPx,

  include if exists <local/QPxTool>
}
`

const ce3DropIn = "[Service]\nAppArmorProfile=QPxTool\n"

func TestCE3_HotfixRenamesProfileNamedByDropIn(t *testing.T) {
	opt := &Option{Name: "QPxTool", File: paths.New(".build/apparmor.d/QPxTool")}
	got := ce3Source
	var err error
	for _, name := range []string{"userspace", "hotfix"} { // the two builders cmd/prebuild always registers, in its order
		got, err = Builders[name].Apply(opt, got)
		if err != nil {
			t.Fatalf("%s.Apply() error = %v", name, err)
		}
	}

	wanted := regexp.MustCompile(`AppArmorProfile=(\S+)`).FindStringSubmatch(ce3DropIn)[1]
	built := regexp.MustCompile(`(?m)^profile\s+(\S+)`).FindStringSubmatch(got)[1]
	if built != wanted {
		t.Errorf("the drop-in sets AppArmorProfile=%s, the build only defines profile %s\nbuilt profile:\n%s", wanted, built, got)
	}
}
