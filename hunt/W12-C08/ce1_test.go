// Counterexample 1 for property C08 (everything a built policy refers to exists
// in that same build).
//
// Drop this file in:   pkg/prebuild/builder/
// Run from the root:   go test -p 1 -vet=off -count=1 -run TestCE1 ./pkg/prebuild/builder/
//
// The source profile below is self-consistent: `rCx -> worker` names the child
// profile `worker` defined a few lines below (apparmor_parser -N on the source
// lists `ce1-reexec` and `ce1-reexec//worker`). The child carries the same
// attachment as its parent (`@{exec_path}`), which AppArmor accepts.
//
// The userspace builder (always registered by cmd/prebuild) replaces EVERY
// match of `profile .* @{exec_path}` by the expanded header of the FIRST match,
// so the child header `profile worker @{exec_path}` becomes
// `profile ce1-reexec /{,usr/}{,s}bin/ce1-reexec`: the child is renamed to the
// name of its parent, `ce1-reexec//worker` is no longer defined anywhere in the
// build, and the named transition `rCx -> worker` dangles (apparmor_parser
// accepts the built file, exec of ce1-worker then fails at run time).

package builder

import (
	"regexp"
	"strings"
	"testing"

	"github.com/roddhjav/apparmor.d/pkg/paths"
)

const ce1Source = `abi <abi/4.0>,

include <tunables/global>

@{exec_path} = @{bin}/ce1-reexec
profile ce1-reexec @{exec_path} {
  include <abstractions/base>

  @{exec_path} mr,

  @{bin}/ce1-worker rCx -> worker,

  profile worker @{exec_path} {
    include <abstractions/base>

    @{exec_path} mr,
    @{bin}/ce1-worker mr,

    include if exists <local/ce1-reexec_worker>
  }

  include if exists <local/ce1-reexec>
}
`

// ce1Defined returns the full names (parent//child) of the blocks opened by a
// `profile NAME ... {` header line.
func ce1Defined(text string) map[string]bool {
	res := map[string]bool{}
	stack := []string{}
	header := regexp.MustCompile(`^\s*profile\s+(\S+).*\{\s*$`)
	for _, line := range strings.Split(text, "\n") {
		if m := header.FindStringSubmatch(line); m != nil {
			stack = append(stack, m[1])
			res[strings.Join(stack, "//")] = true
		} else if strings.TrimSpace(line) == "}" && len(stack) > 0 {
			stack = stack[:len(stack)-1]
		}
	}
	return res
}

func TestCE1_UserspaceRenamesAttachedChildProfile(t *testing.T) {
	before := ce1Defined(ce1Source)
	if !before["ce1-reexec"] || !before["ce1-reexec//worker"] {
		t.Fatalf("test input is wrong, defined in the source: %v", before)
	}

	opt := &Option{Name: "ce1-reexec", File: paths.New(".build/apparmor.d/ce1-reexec")}
	got, err := Builders["userspace"].Apply(opt, ce1Source)
	if err != nil {
		t.Fatalf("userspace.Apply() error = %v", err)
	}

	after := ce1Defined(got)
	if !strings.Contains(got, "rCx -> worker,") {
		t.Fatalf("the named child transition disappeared:\n%s", got)
	}
	// C08: the target of `rCx -> worker` inside ce1-reexec is ce1-reexec//worker
	if !after["ce1-reexec//worker"] {
		t.Errorf("`rCx -> worker` dangles in the built profile: ce1-reexec//worker is defined in the source but not in the output.\n"+
			"defined in the output: %v\nbuilt profile:\n%s", after, got)
	}
}
