// Counterexample 2 (property C01): text brought in by "#aa:stack" never goes
// through the builder chain when the stacked profile sorts AFTER the profile
// that stacks it (cli.Build walks the files in name order and reads the stacked
// file from the output directory: not built yet => raw source text).
//
// Drop this file in:   pkg/prebuild/cli/
// Run (worktree root): export GOFLAGS=-mod=mod GOPROXY=off GOSUMDB=off GOTOOLCHAIN=local GOCACHE=/tmp/gocache-$(basename $PWD)
//                      go test -p 1 -vet=off -count=1 -run 'TestCE2' ./pkg/prebuild/cli/
//
// FAILS on the unmodified tree (subtests "abi3-userns/host-sorts-first" and
// "hotfix-conflict/host-sorts-first"); the "host-sorts-last" controls use the
// very same profile texts with the two names swapped in the sort order and pass.

package cli

import (
	"os"
	"os/exec"
	"path/filepath"
	"strings"
	"testing"

	"github.com/roddhjav/apparmor.d/pkg/paths"
	"github.com/roddhjav/apparmor.d/pkg/prebuild"
	"github.com/roddhjav/apparmor.d/pkg/prebuild/builder"
)

const ce2Parser = "/usr/sbin/apparmor_parser"

func ce2Parse(t *testing.T, file string) (bool, string) {
	t.Helper()
	if _, err := os.Stat(ce2Parser); err != nil {
		t.Skip("reference apparmor_parser not available")
	}
	out, err := exec.Command(ce2Parser, "-Q", "-K",
		"--policy-features", "/etc/apparmor.d/abi/3.0",
		"--kernel-features", "/etc/apparmor.d/abi/3.0", file).CombinedOutput()
	return err == nil, strings.TrimSpace(string(out))
}

func ce2Build(t *testing.T, abi int, builders []string, files map[string]string) string {
	t.Helper()
	oldRoot, oldAA, oldABI, oldBuilds := prebuild.Root, prebuild.RootApparmord, prebuild.ABI, builder.Builds
	t.Cleanup(func() {
		prebuild.Root, prebuild.RootApparmord, prebuild.ABI, builder.Builds = oldRoot, oldAA, oldABI, oldBuilds
	})
	prebuild.Root = paths.New(t.TempDir())
	prebuild.RootApparmord = prebuild.Root.Join("apparmor.d")
	prebuild.ABI = abi
	builder.Builds = []builder.Builder{}
	builder.Register(builders...)
	if err := prebuild.RootApparmord.MkdirAll(); err != nil {
		t.Fatal(err)
	}
	for name, content := range files {
		if err := prebuild.RootApparmord.Join(name).WriteFile([]byte(content)); err != nil {
			t.Fatal(err)
		}
	}
	if err := Build(); err != nil {
		t.Fatalf("Build() error = %v", err)
	}
	return prebuild.RootApparmord.String()
}

func ce2Host(name, directive string) string {
	return `# apparmor.d - Full set of apparmor profiles

abi <abi/4.0>,

@{exec_path} = /usr/bin/` + name + `
profile ` + name + ` @{exec_path} {
  @{exec_path} mr,

  /usr/bin/ce2-tool rPx,

  /etc/` + name + `.conf r,

  ` + directive + `

  include if exists <local/` + name + `>
}
`
}

func ce2Stacked(name, rules string) string {
	return `# apparmor.d - Full set of apparmor profiles

abi <abi/4.0>,

@{exec_path} = /usr/bin/` + name + `
profile ` + name + ` @{exec_path} {
  @{exec_path} mr,

` + rules + `
  /etc/` + name + `.conf r,

  include if exists <local/` + name + `>
}
`
}

func TestCE2_StackedTextBypassesBuilders(t *testing.T) {
	tests := []struct {
		name     string
		abi      int
		builders []string
		host     string // profile holding the #aa:stack directive
		stacked  string // profile being stacked
		stackX   bool
		rules    string // rules of the stacked profile
	}{
		// ABI 3 target: the abi3 builder comments "userns," out of every file it is applied on...
		{"abi3-userns/host-sorts-first", 3, []string{"userspace", "hotfix", "abi3"}, "aa-ce2", "zz-ce2", false, "  userns,\n"},
		{"abi3-userns/host-sorts-last", 3, []string{"userspace", "hotfix", "abi3"}, "zz-ce2", "aa-ce2", false, "  userns,\n"},
		// Any target: the hotfix builder lowers Px to px in the host, the stacked rule stays Px: conflicting x modifiers
		{"hotfix-conflict/host-sorts-first", 4, []string{"userspace", "hotfix"}, "aa-ce2", "zz-ce2", true, "  /usr/bin/ce2-tool rPx,\n"},
		{"hotfix-conflict/host-sorts-last", 4, []string{"userspace", "hotfix"}, "zz-ce2", "aa-ce2", true, "  /usr/bin/ce2-tool rPx,\n"},
	}
	for _, tt := range tests {
		t.Run(tt.name, func(t *testing.T) {
			directive := "#aa:stack " + tt.stacked
			if tt.stackX {
				directive = "#aa:stack X " + tt.stacked
			}
			out := ce2Build(t, tt.abi, tt.builders, map[string]string{
				tt.host:    ce2Host(tt.host, directive),
				tt.stacked: ce2Stacked(tt.stacked, tt.rules),
			})
			for _, name := range []string{tt.host, tt.stacked} {
				built := filepath.Join(out, name)
				data, _ := os.ReadFile(built)
				// ABI 4 target: only the abi line needs AppArmor 4, set it aside for the 3.0 parser
				check := filepath.Join(t.TempDir(), name)
				if err := os.WriteFile(check, []byte(strings.ReplaceAll(string(data), "abi/4.0", "abi/3.0")), 0o644); err != nil {
					t.Fatal(err)
				}
				if ok, msg := ce2Parse(t, check); !ok {
					t.Errorf("built profile %s rejected by apparmor_parser: %s\n--- built file:\n%s", name, msg, data)
				}
			}
		})
	}
}
