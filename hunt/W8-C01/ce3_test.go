// Counterexample 3 (property C01): on an ABI 3 target the abi3 builder only
// comments out the two literal spellings "  userns," and "  mqueue...": every
// other valid spelling of an AppArmor-4-only rule (qualified: "deny userns,",
// "audit mqueue ..."; with a permission: "userns create,"; continued on a second
// line; the io_uring and all rule kinds) is left in the built file, which the
// AppArmor 3 parser then rejects.
//
// Drop this file in:   pkg/prebuild/cli/
// Run (worktree root): export GOFLAGS=-mod=mod GOPROXY=off GOSUMDB=off GOTOOLCHAIN=local GOCACHE=/tmp/gocache-$(basename $PWD)
//                      go test -p 1 -vet=off -count=1 -run 'TestCE3' ./pkg/prebuild/cli/
//
// FAILS on the unmodified tree for every case but the "control" ones.

package cli

import (
	"os"
	"os/exec"
	"path/filepath"
	"strings"
	"testing"

	"github.com/roddhjav/apparmor.d/pkg/paths"
	"github.com/roddhjav/apparmor.d/pkg/prebuild"
	"github.com/roddhjav/apparmor.d/pkg/prebuild/builder"
)

const ce3Parser = "/usr/sbin/apparmor_parser"

func ce3Parse(t *testing.T, file string) (bool, string) {
	t.Helper()
	if _, err := os.Stat(ce3Parser); err != nil {
		t.Skip("reference apparmor_parser not available")
	}
	out, err := exec.Command(ce3Parser, "-Q", "-K",
		"--policy-features", "/etc/apparmor.d/abi/3.0",
		"--kernel-features", "/etc/apparmor.d/abi/3.0", file).CombinedOutput()
	return err == nil, strings.TrimSpace(string(out))
}

func ce3Build(t *testing.T, abi int, builders []string, files map[string]string) string {
	t.Helper()
	oldRoot, oldAA, oldABI, oldBuilds := prebuild.Root, prebuild.RootApparmord, prebuild.ABI, builder.Builds
	t.Cleanup(func() {
		prebuild.Root, prebuild.RootApparmord, prebuild.ABI, builder.Builds = oldRoot, oldAA, oldABI, oldBuilds
	})
	prebuild.Root = paths.New(t.TempDir())
	prebuild.RootApparmord = prebuild.Root.Join("apparmor.d")
	prebuild.ABI = abi
	builder.Builds = []builder.Builder{}
	builder.Register(builders...)
	if err := prebuild.RootApparmord.MkdirAll(); err != nil {
		t.Fatal(err)
	}
	for name, content := range files {
		if err := prebuild.RootApparmord.Join(name).WriteFile([]byte(content)); err != nil {
			t.Fatal(err)
		}
	}
	if err := Build(); err != nil {
		t.Fatalf("Build() error = %v", err)
	}
	return prebuild.RootApparmord.String()
}

func TestCE3_Abi3LeavesAppArmor4Rules(t *testing.T) {
	tests := []struct {
		name string
		rule string
	}{
		{"control-userns", "  userns,"},
		{"control-mqueue", "  mqueue r type=posix /zzce3,"},
		{"deny-userns", "  deny userns,"},
		{"audit-userns", "  audit userns,"},
		{"userns-create", "  userns create,"},
		{"audit-mqueue", "  audit mqueue r type=posix /zzce3,"},
		{"mqueue-two-lines", "  mqueue (create, read, write)\n         type=posix /zzce3,"},
		{"io_uring", "  io_uring sqpoll,"},
		{"all", "  all,"},
	}
	for _, tt := range tests {
		t.Run(tt.name, func(t *testing.T) {
			profile := `# apparmor.d - Full set of apparmor profiles

abi <abi/4.0>,

@{exec_path} = /usr/bin/zzce3
profile zzce3 @{exec_path} {
  @{exec_path} mr,

` + tt.rule + `

  /etc/zzce3.conf r,

  include if exists <local/zzce3>
}
`
			// cmd/prebuild --abi 3: userspace, hotfix, abi3
			out := ce3Build(t, 3, []string{"userspace", "hotfix", "abi3"}, map[string]string{"zzce3": profile})
			built := filepath.Join(out, "zzce3")
			if ok, msg := ce3Parse(t, built); !ok {
				data, _ := os.ReadFile(built)
				t.Errorf("built profile rejected by apparmor_parser: %s\n--- built file:\n%s", msg, data)
			}
		})
	}
}
