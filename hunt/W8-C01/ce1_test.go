// Counterexample 1 (property C01): the userspace builder rewrites the profile
// header from a *comment* line that happens to contain "profile ... @{exec_path}".
//
// Drop this file in:   pkg/prebuild/cli/
// Run (worktree root): export GOFLAGS=-mod=mod GOPROXY=off GOSUMDB=off GOTOOLCHAIN=local GOCACHE=/tmp/gocache-$(basename $PWD)
//                      go test -p 1 -vet=off -count=1 -run 'TestCE1' ./pkg/prebuild/cli/
//
// The test builds one valid profile with the default builder chain
// (userspace, hotfix) through the real cli.Build() and feeds input and output
// to the reference parser. It FAILS on the unmodified tree: the input loads,
// the built file does not.

package cli

import (
	"os"
	"os/exec"
	"path/filepath"
	"strings"
	"testing"

	"github.com/roddhjav/apparmor.d/pkg/paths"
	"github.com/roddhjav/apparmor.d/pkg/prebuild"
	"github.com/roddhjav/apparmor.d/pkg/prebuild/builder"
)

const ce1Parser = "/usr/sbin/apparmor_parser"

func ce1Parse(t *testing.T, file string) (bool, string) {
	t.Helper()
	if _, err := os.Stat(ce1Parser); err != nil {
		t.Skip("reference apparmor_parser not available")
	}
	out, err := exec.Command(ce1Parser, "-Q", "-K",
		"--policy-features", "/etc/apparmor.d/abi/3.0",
		"--kernel-features", "/etc/apparmor.d/abi/3.0", file).CombinedOutput()
	return err == nil, strings.TrimSpace(string(out))
}

// ce1Build writes files in a fresh output policy directory and runs the real cli.Build() on it.
func ce1Build(t *testing.T, abi int, builders []string, files map[string]string) string {
	t.Helper()
	oldRoot, oldAA, oldABI, oldBuilds := prebuild.Root, prebuild.RootApparmord, prebuild.ABI, builder.Builds
	t.Cleanup(func() {
		prebuild.Root, prebuild.RootApparmord, prebuild.ABI, builder.Builds = oldRoot, oldAA, oldABI, oldBuilds
	})
	prebuild.Root = paths.New(t.TempDir())
	prebuild.RootApparmord = prebuild.Root.Join("apparmor.d")
	prebuild.ABI = abi
	builder.Builds = []builder.Builder{}
	builder.Register(builders...)
	if err := prebuild.RootApparmord.MkdirAll(); err != nil {
		t.Fatal(err)
	}
	for name, content := range files {
		if err := prebuild.RootApparmord.Join(name).WriteFile([]byte(content)); err != nil {
			t.Fatal(err)
		}
	}
	if err := Build(); err != nil {
		t.Fatalf("Build() error = %v", err)
	}
	return prebuild.RootApparmord.String()
}

func TestCE1_UserspaceHeaderFromComment(t *testing.T) {
	const profile = `# apparmor.d - Full set of apparmor profiles
# Note: this profile is attached to @{exec_path} only
# SPDX-License-Identifier: GPL-2.0-only

abi <abi/3.0>,

@{exec_path} = /usr/bin/zzce1
profile zzce1 @{exec_path} {
  @{exec_path} mr,

  /etc/zzce1.conf r,

  include if exists <local/zzce1>
}
`
	// The source is valid policy
	src := filepath.Join(t.TempDir(), "zzce1")
	if err := os.WriteFile(src, []byte(profile), 0o644); err != nil {
		t.Fatal(err)
	}
	if ok, msg := ce1Parse(t, src); !ok {
		t.Fatalf("the source profile must load: %s", msg)
	}

	// Default builder chain of cmd/prebuild (any distribution, ABI, version, mode)
	out := ce1Build(t, 4, []string{"userspace", "hotfix"}, map[string]string{"zzce1": profile})
	built := filepath.Join(out, "zzce1")
	if ok, msg := ce1Parse(t, built); !ok {
		data, _ := os.ReadFile(built)
		t.Errorf("built profile rejected by apparmor_parser: %s\n--- built file:\n%s", msg, data)
	}
}
