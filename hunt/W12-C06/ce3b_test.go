// Counterexample 3 for property C06 (exec directive side: same input as ce3_test.go).
//
// Drop this file in:   pkg/prebuild/directive/
// Run (from the worktree root):
//
//	export GOFLAGS=-mod=mod GOPROXY=off GOSUMDB=off GOTOOLCHAIN=local
//	go test -p 1 -vet=off -count=1 -run TestCE3b ./pkg/prebuild/directive/
//
// The target profile has `@{exec_path} = {@{bin},@{lib}}/foo` (valid: the
// reference parser takes the profile, and `@{exec_path} Px,` in a caller).
// Exec.Apply writes each resolved value as the path of a rule:
//
//	{/{,usr/}{,s}bin,/{,usr/}lib{,exec,32,64}}/foo Px,
//
// A file rule cannot start with "{": apparmor_parser 3.0.8 fails on the caller
// (syntax error, unexpected ... expecting TOK_ID or TOK_MODE or TOK_SET_VAR),
// so the exec rules match none of the paths of the target's @{exec_path}.
package directive

import (
	"os"
	"path/filepath"
	"strings"
	"testing"

	"github.com/roddhjav/apparmor.d/pkg/paths"
	"github.com/roddhjav/apparmor.d/pkg/prebuild"
)

func TestCE3b_ExecRuleStartingWithAnAlternation(t *testing.T) {
	dir := t.TempDir()
	target := "include <tunables/global>\n\n" +
		"@{exec_path} = {@{bin},@{lib}}/foo\n" +
		"profile foo @{exec_path} {\n  @{exec_path} mr,\n}\n"
	if err := os.WriteFile(filepath.Join(dir, "foo"), []byte(target), 0o644); err != nil {
		t.Fatal(err)
	}
	old := prebuild.RootApparmord
	prebuild.RootApparmord = paths.New(dir)
	defer func() { prebuild.RootApparmord = old }()

	caller := "profile caller /usr/bin/caller {\n  #aa:exec foo\n}\n"
	got, err := Run(paths.New(filepath.Join(dir, "caller")), caller)
	if err != nil {
		t.Fatalf("Run: %v", err)
	}
	n := 0
	for _, line := range strings.Split(got, "\n") {
		if !strings.HasSuffix(line, " Px,") {
			continue
		}
		n++
		if path := strings.Fields(line)[0]; !strings.HasPrefix(path, "/") {
			t.Errorf("generated rule %q: the path of a file rule has to start with / (or a variable)", strings.TrimSpace(line))
		}
	}
	if n == 0 {
		t.Errorf("no exec rule generated:\n%s", got)
	}
}
