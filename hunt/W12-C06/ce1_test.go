// Counterexample 1 for property C06.
//
// Drop this file in:   pkg/prebuild/builder/
// Run (from the worktree root):
//
//	export GOFLAGS=-mod=mod GOPROXY=off GOSUMDB=off GOTOOLCHAIN=local
//	go test -p 1 -vet=off -count=1 -run TestCE1 ./pkg/prebuild/builder/
//
// A profile header whose opening brace is followed by anything (a blank, a
// tab, a comment, a CR) is valid AppArmor. aa.AppArmorProfileFile.Parse only
// strips a brace that is the very last byte of the line, so the brace (and the
// comment words) are read as further attachments, and the userspace builder
// writes them into the header: `profile foo /{{,usr/}{,s}bin/foo,{ } { `.
// (Same result with `@{exec_path} = @{bin}/foo` after `include <tunables/global>`.)
// The reference parser accepts the source profile and rejects the built one.
package builder

import (
	"os"
	"os/exec"
	"strings"
	"testing"

	"github.com/roddhjav/apparmor.d/pkg/prebuild"
)

func ce1Header(t *testing.T, text string) string {
	t.Helper()
	for _, line := range strings.Split(text, "\n") {
		if strings.HasPrefix(strings.TrimSpace(line), "profile ") {
			return line
		}
	}
	t.Fatalf("no header in %q", text)
	return ""
}

// ce1Reference compiles a profile with the reference parser, when there is one.
func ce1Reference(t *testing.T, text string) (ok bool, ran bool, out string) {
	t.Helper()
	const parser = "/usr/sbin/apparmor_parser"
	if _, err := os.Stat(parser); err != nil {
		return false, false, ""
	}
	f, err := os.CreateTemp("", "ce1-*")
	if err != nil {
		t.Fatal(err)
	}
	defer os.Remove(f.Name())
	f.WriteString(text)
	f.Close()
	cmd := exec.Command(parser, "-Q", "-K",
		"--policy-features", "/etc/apparmor.d/abi/3.0",
		"--kernel-features", "/etc/apparmor.d/abi/3.0", "-S", f.Name())
	var stderr strings.Builder
	cmd.Stderr = &stderr
	_, err = cmd.Output()
	return err == nil, true, stderr.String()
}

func TestCE1_TextAfterTheOpeningBrace(t *testing.T) {
	const want = "profile foo /{,usr/}{,s}bin/foo"
	for name, tail := range map[string]string{
		"blank":   " ",
		"tab":     "\t",
		"comment": " # the main binary",
		"control": "", // nothing after the brace: passes
	} {
		t.Run(name, func(t *testing.T) {
			// (no include: the value is spelled out, so that the reference parser
			// needs no tunables; the builder has its own table anyway)
			src := "@{exec_path} = /{,usr/}{,s}bin/foo\n" +
				"profile foo @{exec_path} {" + tail + "\n" +
				"  @{exec_path} mr,\n" +
				"}\n"
			opt := &Option{File: prebuild.RootApparmord.Join("foo")}
			got, err := Builders["userspace"].Apply(opt, src)
			if err != nil {
				t.Fatalf("Apply: %v", err)
			}
			header := ce1Header(t, got)
			// @{exec_path} has one value: the header must carry exactly that value
			if !strings.HasPrefix(header, want+" {") {
				t.Errorf("built header = %q, want it to start with %q", header, want+" {")
			}
			if srcOK, ran, _ := ce1Reference(t, src); ran && srcOK {
				if ok, _, out := ce1Reference(t, got); !ok {
					t.Errorf("reference parser accepts the source profile but rejects the built one:\n%s\n%s", header, out)
				}
			}
		})
	}
}
