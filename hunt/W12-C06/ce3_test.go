// Counterexample 3 for property C06 (attachment side).
//
// Drop this file in:   pkg/prebuild/builder/
// Run (from the worktree root):
//
//	export GOFLAGS=-mod=mod GOPROXY=off GOSUMDB=off GOTOOLCHAIN=local
//	go test -p 1 -vet=off -count=1 -run TestCE3 ./pkg/prebuild/builder/
//
// A value of @{exec_path} may start with an alternation:
//
//	@{exec_path} = {@{bin},@{lib}}/foo        (valid: the reference parser takes it)
//
// Profile.GetAttachments assumes that every value starts with "/":
//   - several values: only a leading "/" is cut before the values are nested in
//     "/{...}", so the value above is nested whole and its paths get a second
//     slash: /{{/usr/bin,/usr/lib}/foo,opt/foo/foo} matches //usr/bin/foo, never
//     /usr/bin/foo. The reference parser loads it: the profile silently stops
//     attaching to these paths.
//   - one value: it is written as is, `profile foo {/usr/bin,/usr/lib}/foo {`,
//     which the reference parser rejects (a header attachment has to start with /).
//
// Checked with apparmor_parser 3.0.8 (-S, same binary or not): the profile with
// `@{exec_path}` in the header compiles to the same policy as the one with
// /{{usr/bin,usr/lib}/foo,opt/foo/foo}; the built literal compiles to the same
// policy as /{/usr/bin/foo,/usr/lib/foo,opt/foo/foo} (a doubled slash).
//
// The test expands the alternations of the literal (no wildcard involved) and
// compares the set of paths with the one of @{exec_path}.
package builder

import (
	"regexp"
	"slices"
	"strings"
	"testing"

	"github.com/roddhjav/apparmor.d/pkg/prebuild"
)

// ce3Expand returns all the strings a pattern made of literals and {a,b}
// alternations stands for.
func ce3Expand(p string) []string {
	depth, start := 0, -1
	for i, c := range p {
		switch c {
		case '{':
			if depth == 0 {
				start = i
			}
			depth++
		case '}':
			depth--
			if depth == 0 {
				// split the group on its top level commas
				alts, d, last := []string{}, 0, start+1
				for j := start + 1; j < i; j++ {
					switch p[j] {
					case '{':
						d++
					case '}':
						d--
					case ',':
						if d == 0 {
							alts = append(alts, p[last:j])
							last = j + 1
						}
					}
				}
				alts = append(alts, p[last:i])
				res := []string{}
				for _, alt := range alts {
					res = append(res, ce3Expand(p[:start]+alt+p[i+1:])...)
				}
				return res
			}
		}
	}
	return []string{p}
}

func ce3Set(patterns ...string) []string {
	res := []string{}
	for _, p := range patterns {
		res = append(res, ce3Expand(p)...)
	}
	slices.Sort(res)
	return slices.Compact(res)
}

func TestCE3_ValueStartingWithAnAlternation(t *testing.T) {
	tests := []struct {
		name     string
		preamble string
		values   []string // the values of @{exec_path}, variables spelled out
	}{
		{
			name:     "control",
			preamble: "@{exec_path} = /usr/{bin,lib}/foo /opt/foo/foo\n",
			values:   []string{"/usr/{bin,lib}/foo", "/opt/foo/foo"},
		},
		{
			name:     "two-values",
			preamble: "@{exec_path} = {/usr/bin,/usr/lib}/foo /opt/foo/foo\n",
			values:   []string{"{/usr/bin,/usr/lib}/foo", "/opt/foo/foo"},
		},
		{
			name:     "appended",
			preamble: "@{exec_path}  = /opt/foo/foo\n@{exec_path} += {@{bin},@{lib}}/foo\n",
			values:   []string{"/opt/foo/foo", "{/{,usr/}{,s}bin,/{,usr/}lib{,exec,32,64}}/foo"},
		},
		{
			name:     "one-value",
			preamble: "@{exec_path} = {/usr/bin,/usr/lib}/foo\n",
			values:   []string{"{/usr/bin,/usr/lib}/foo"},
		},
	}
	regHeader := regexp.MustCompile(`(?m)^profile foo (\S+) \{$`)
	for _, tt := range tests {
		t.Run(tt.name, func(t *testing.T) {
			src := "include <tunables/global>\n\n" + tt.preamble +
				"profile foo @{exec_path} {\n  @{exec_path} mr,\n}\n"
			opt := &Option{File: prebuild.RootApparmord.Join("foo")}
			got, err := Builders["userspace"].Apply(opt, src)
			if err != nil {
				t.Fatalf("Apply: %v", err)
			}
			m := regHeader.FindStringSubmatch(got)
			if m == nil {
				t.Fatalf("no header in:\n%s", got)
			}
			literal := m[1]
			if !strings.HasPrefix(literal, "/") {
				t.Errorf("attachment %q does not start with /: not a valid header", literal)
			}
			want, have := ce3Set(tt.values...), ce3Set(literal)
			lost, added := []string{}, []string{}
			for _, p := range want {
				if !slices.Contains(have, p) {
					lost = append(lost, p)
				}
			}
			for _, p := range have {
				if !slices.Contains(want, p) {
					added = append(added, p)
				}
			}
			if len(lost) > 0 || len(added) > 0 {
				t.Errorf("attachment %s\n  loses %d paths of @{exec_path}, e.g. %s\n  adds  %d paths, e.g. %s",
					literal, len(lost), strings.Join(lost[:min(2, len(lost))], " "),
					len(added), strings.Join(added[:min(2, len(added))], " "))
			}
		})
	}
}
