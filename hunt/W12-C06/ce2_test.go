// Counterexample 2 for property C06.
//
// Drop this file in:   pkg/prebuild/builder/
// Run (from the worktree root):
//
//	export GOFLAGS=-mod=mod GOPROXY=off GOSUMDB=off GOTOOLCHAIN=local
//	go test -p 1 -vet=off -count=1 -run TestCE2 ./pkg/prebuild/builder/
//
// regAttachments (`(profile .* @{exec_path})`) is searched in the whole file,
// not in the header line, and Userspace.Apply rewrites EVERY match with the
// text made from the FIRST one. A comment of the preamble that happens to
// contain the word "profile" and, later on the line, " @{exec_path}" is that
// first match: the real header is replaced by the words of the comment
// (`profile name in sync with /{,usr/}{,s}bin/foo {`), which the reference
// parser rejects (syntax error, unexpected TOK_IN) while it accepts the source.
package builder

import (
	"strings"
	"testing"

	"github.com/roddhjav/apparmor.d/pkg/prebuild"
)

func TestCE2_CommentBeforeTheHeader(t *testing.T) {
	src := `# apparmor.d - Full set of apparmor profiles

abi <abi/4.0>,

include <tunables/global>

# Keep the profile name in sync with @{exec_path}
@{exec_path} = @{bin}/foo
profile foo @{exec_path} {
  include <abstractions/base>

  @{exec_path} mr,

  include if exists <local/foo>
}
`
	opt := &Option{File: prebuild.RootApparmord.Join("foo")}
	got, err := Builders["userspace"].Apply(opt, src)
	if err != nil {
		t.Fatalf("Apply: %v", err)
	}
	const want = "profile foo /{,usr/}{,s}bin/foo {"
	if !strings.Contains(got, "\n"+want+"\n") {
		t.Errorf("header %q not found in the built profile:\n%s", want, got)
	}
}
