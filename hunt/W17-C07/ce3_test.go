// CE3 (C07): a stack directive without X copies a '#aa:stack X ...' line of the
// (not yet expanded) stacked profile as it is: the re-scan then stacks the
// inner profile WITH its exec transitions (and with the rules of its
// '#aa:exec' directives) into the host that asked for none.
//
// Drop in:  pkg/prebuild/directive/
// Run:      go test -vet=off -count=1 -run TestCE3 ./pkg/prebuild/directive/

package directive

import (
	"strings"
	"testing"

	"github.com/roddhjav/apparmor.d/pkg/paths"
	"github.com/roddhjav/apparmor.d/pkg/prebuild"
)

func TestCE3_StackWithoutXOfAProfileThatStacksWithX(t *testing.T) {
	oldRoot := prebuild.RootApparmord
	defer func() { prebuild.RootApparmord = oldRoot }()

	prof := func(name, body string) string {
		return "abi <abi/4.0>,\n\ninclude <tunables/global>\n\n@{exec_path} = @{bin}/" + name + "\n" +
			"profile " + name + " @{exec_path} {\n  include <abstractions/base>\n\n  @{exec_path} mr,\n\n" +
			body + "\n  include if exists <local/" + name + ">\n}\n"
	}
	prebuild.RootApparmord = paths.New(t.TempDir())
	files := map[string]string{
		"A":    prof("A", "  @{bin}/a1 rPx,\n  /etc/A r,\n\n  #aa:stack X B\n"),
		"B":    prof("B", "  @{bin}/b1 rPx,\n  /etc/B r,\n\n  #aa:exec C\n"),
		"C":    prof("C", "  /etc/C r,\n"),
		"host": prof("host", "  /etc/host r,\n\n  #aa:stack A\n"),
	}
	for name, content := range files {
		if err := prebuild.RootApparmord.Join(name).WriteFile([]byte(content)); err != nil {
			t.Fatal(err)
		}
	}

	// Profile A as built: it holds the exec transitions of B (stacked with X)
	builtA, err := Run(prebuild.RootApparmord.Join("A"), files["A"])
	if err != nil {
		t.Fatal(err)
	}
	for _, rule := range []string{"@{bin}/a1 rPx,", "@{bin}/b1 rPx,", "/{,usr/}{,s}bin/C Px,"} {
		if !strings.Contains(builtA, rule) {
			t.Fatalf("built A should hold %q:\n%s", rule, builtA)
		}
	}

	// The host stacks A without X: every rule of A but its exec transitions
	got, err := Run(prebuild.RootApparmord.Join("host"), files["host"])
	if err != nil {
		t.Fatal(err)
	}
	for _, rule := range []string{"/etc/A r,", "/etc/B r,"} {
		if !strings.Contains(got, rule) {
			t.Errorf("rule %q of the stacked profile is missing:\n%s", rule, got)
		}
	}
	if strings.Contains(got, "@{bin}/a1 rPx,") {
		t.Errorf("own exec transition of A kept")
	}
	for _, rule := range []string{"@{bin}/b1 rPx,", "/{,usr/}{,s}bin/C Px,"} {
		if strings.Contains(got, rule) {
			t.Errorf("'#aa:stack A' (no X) gave the host the exec transition %q of A:\n%s", rule, got)
		}
	}
}
