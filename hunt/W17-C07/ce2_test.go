// CE2 (C07): a stack directive without X drops the `deny ... x,` rules of the
// stacked profile. They are no exec transitions: the host loses a deny rule
// (and with `deny ... rx,` also the denied read).
//
// Drop in:  pkg/prebuild/directive/
// Run:      go test -vet=off -count=1 -run TestCE2 ./pkg/prebuild/directive/

package directive

import (
	"strings"
	"testing"

	"github.com/roddhjav/apparmor.d/pkg/paths"
	"github.com/roddhjav/apparmor.d/pkg/prebuild"
)

func TestCE2_StackWithoutXDropsDenyRules(t *testing.T) {
	oldRoot := prebuild.RootApparmord
	defer func() { prebuild.RootApparmord = oldRoot }()

	// The stacked profile is a shipped one. It holds, side by side:
	//   deny @{bin}/pass x,
	//   deny owner @{user_passwordstore_dirs}/** r,
	prebuild.RootApparmord = paths.New("../../../apparmor.d/profiles-m-r")
	stacked := prebuild.RootApparmord.Join("protonmail-bridge-core").MustReadFileAsString()
	for _, rule := range []string{"  deny @{bin}/pass x,\n", "  deny owner @{user_passwordstore_dirs}/** r,\n"} {
		if !strings.Contains(stacked, rule) {
			t.Fatalf("shipped protonmail-bridge-core no longer holds %q: test not applicable", rule)
		}
	}

	host := `abi <abi/4.0>,

include <tunables/global>

@{exec_path} = @{bin}/host
profile host @{exec_path} {
  include <abstractions/base>

  @{exec_path} mr,
  @{bin}/* rPx,

  #aa:stack protonmail-bridge-core

  include if exists <local/host>
}
`
	got, err := Run(paths.New("host"), host)
	if err != nil {
		t.Fatal(err)
	}
	if !strings.Contains(got, "  deny owner @{user_passwordstore_dirs}/** r,\n") {
		t.Fatalf("the stacked rules are not there at all:\n%s", got)
	}
	if !strings.Contains(got, "  deny @{bin}/pass x,\n") {
		t.Errorf("'deny @{bin}/pass x,' is a rule of the stacked profile and no exec transition, "+
			"but the stack without X dropped it (the host's own '@{bin}/* rPx,' now allows pass):\n%s", got)
	}

	// Same with a generated profile: 'deny ... rx,' also loses the denied read
	dir := t.TempDir()
	prebuild.RootApparmord = paths.New(dir)
	_ = prebuild.RootApparmord.Join("foo").WriteFile([]byte(`abi <abi/4.0>,
include <tunables/global>
@{exec_path} = @{bin}/foo
profile foo @{exec_path} {
  include <abstractions/base>

  @{exec_path} mr,
  @{bin}/bar rPx,

  audit deny @{bin}/gpg{,2} mrx,
  /etc/foo r,

  include if exists <local/foo>
}
`))
	got, err = Run(paths.New("host"), strings.Replace(host, "protonmail-bridge-core", "foo", 1))
	if err != nil {
		t.Fatal(err)
	}
	if strings.Contains(got, "@{bin}/bar rPx,") {
		t.Errorf("exec transition of the stacked profile kept:\n%s", got)
	}
	if !strings.Contains(got, "  audit deny @{bin}/gpg{,2} mrx,\n") {
		t.Errorf("'audit deny @{bin}/gpg{,2} mrx,' dropped by the stack without X:\n%s", got)
	}
}
