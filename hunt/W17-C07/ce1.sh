#!/bin/sh
# CE1 (C07), end-to-end variant of ce1_test.go, checked with the reference parser.
# Run from the worktree root (with the GOFLAGS/GOPROXY/... exports of the task):
#     sh .seed/ce1.sh
# Exit 1 (FAIL) on the unmodified tree. Rewrites .build/; restores debian/apparmor.d.hide.
set -e
DISTRIBUTION=opensuse go run ./cmd/prebuild --abi 3 --version 3.0 >/dev/null 2>&1
git checkout debian/apparmor.d.hide 2>/dev/null || true
cd .build/apparmor.d
P="/usr/sbin/apparmor_parser -Q -K --policy-features /etc/apparmor.d/abi/3.0 --kernel-features /etc/apparmor.d/abi/3.0 -I ."
echo "== executables of profile DiscoverNotifier (its attachment, as the parser expands it):"
$P -d DiscoverNotifier 2>&1 | grep -m1 "Mode:.*rm:rm.*DiscoverNotifier"
echo "== exec rules '#aa:exec DiscoverNotifier' gave ksmserver:"
$P -d ksmserver 2>&1 | grep "Mode:.*x:x.*DiscoverNotifier"
if $P -d DiscoverNotifier 2>&1 | grep -q "suse-linux.*DiscoverNotifier" && ! $P -d ksmserver 2>&1 | grep -q "suse-linux.*DiscoverNotifier"; then
	echo "FAIL: no exec rule for @{lib}/*-suse-linux*/{,libexec/}DiscoverNotifier in ksmserver"
	exit 1
fi
echo PASS
