// Counterexample 1 for property C02 (reproducible prebuild output).
//
// Drop in:  pkg/prebuild/cli/
// Run from the worktree root:
//   go test -p 1 -vet=off -count=1 -run 'TestCE1' ./pkg/prebuild/cli/
//
// The directive pass of cli.Build visits the files in directory order and
// writes each one back before the next is read. A stack/exec directive reads
// the file of the profile it names from the build directory, so it sees that
// profile either with its own directives already applied or not, depending
// only on which of the two file names sorts first. The text produced for the
// profile that holds the directive therefore depends on which other profiles
// were processed earlier in the same process.

package cli

import (
	"os"
	"testing"

	"github.com/roddhjav/apparmor.d/pkg/paths"
	"github.com/roddhjav/apparmor.d/pkg/prebuild"
	"github.com/roddhjav/apparmor.d/pkg/prebuild/builder"
	"github.com/roddhjav/apparmor.d/pkg/prebuild/directive"
)

const ce1Parent = `abi <abi/4.0>,
include <tunables/global>
@{exec_path} = @{bin}/parent
profile parent @{exec_path} {
  include <abstractions/base>

  @{exec_path} mr,

  #aa:stack child

  include if exists <local/parent>
}
`

const ce1Child = `abi <abi/4.0>,
include <tunables/global>
@{exec_path} = @{bin}/child
profile child @{exec_path} {
  include <abstractions/base>

  @{exec_path} mr,
  /etc/child r,

  #aa:stack X grandchild

  include if exists <local/child>
}
`

const ce1Grandchild = `abi <abi/4.0>,
include <tunables/global>
@{exec_path} = @{bin}/grandchild
profile grandchild @{exec_path} {
  include <abstractions/base>

  @{exec_path} mr,
  @{bin}/helper Px,
  /etc/grandchild r,

  include if exists <local/grandchild>
}
`

func ce1Tree(t *testing.T, files map[string]string) {
	t.Helper()
	root := paths.New(t.TempDir())
	prebuild.Root = root
	prebuild.RootApparmord = root.Join("apparmor.d")
	if err := prebuild.RootApparmord.MkdirAll(); err != nil {
		t.Fatal(err)
	}
	for name, text := range files {
		if err := prebuild.RootApparmord.Join(name).WriteFile([]byte(text)); err != nil {
			t.Fatal(err)
		}
	}
}

// ce1Directives does what the second loop of cli.Build does, on the given files in the given order
func ce1Directives(t *testing.T, order ...string) {
	t.Helper()
	for _, name := range order {
		file := prebuild.RootApparmord.Join(name)
		profile, err := file.ReadFileAsString()
		if err != nil {
			t.Fatal(err)
		}
		profile, err = directive.Run(file, profile)
		if err != nil {
			t.Fatal(err)
		}
		if err := file.WriteFile([]byte(profile)); err != nil {
			t.Fatal(err)
		}
	}
}

// ce1Build runs the real cli.Build (no builder registered: the directive pass is what matters)
func ce1Build(t *testing.T) {
	t.Helper()
	oldBuilds := builder.Builds
	builder.Builds = nil
	stdout := os.Stdout
	os.Stdout, _ = os.Open(os.DevNull)
	err := Build()
	os.Stdout = stdout
	builder.Builds = oldBuilds
	if err != nil {
		t.Fatal(err)
	}
}

// ce1Source finds the source apparmor.d directory from the package directory or from the root
func ce1Source(t *testing.T) *paths.Path {
	t.Helper()
	for _, dir := range []string{"../../../apparmor.d", "apparmor.d"} {
		if src := paths.New(dir); src.Join("groups/_full/systemd-user").Exist() {
			abs, _ := src.Abs()
			return abs
		}
	}
	t.Fatal("apparmor.d not found")
	return nil
}

func ce1Read(t *testing.T, name string) string {
	t.Helper()
	return prebuild.RootApparmord.Join(name).MustReadFileAsString()
}

// Same three profiles, same configuration: the text of `parent` must not
// depend on whether `child` went through the directives before it.
func TestCE1_StackOrder(t *testing.T) {
	oldRoot, oldAppd := prebuild.Root, prebuild.RootApparmord
	defer func() { prebuild.Root, prebuild.RootApparmord = oldRoot, oldAppd }()
	files := map[string]string{"parent": ce1Parent, "child": ce1Child, "grandchild": ce1Grandchild}

	// 1. The real build: directory order is child, grandchild, parent
	ce1Tree(t, files)
	ce1Build(t)
	built := ce1Read(t, "parent")

	// 2. Only `parent` is processed (subset), or `parent` first
	ce1Tree(t, files)
	ce1Directives(t, "parent")
	alone := ce1Read(t, "parent")

	ce1Tree(t, files)
	ce1Directives(t, "parent", "grandchild", "child")
	first := ce1Read(t, "parent")

	if alone != first {
		t.Errorf("parent alone / parent first differ:\n%s\n---\n%s", alone, first)
	}
	if built != alone {
		t.Errorf("text of `parent` depends on whether `child` was processed before it.\n"+
			"--- cli.Build (child, grandchild, parent):\n%s\n--- parent processed first/alone:\n%s", built, alone)
	}
}

// Same with exec: the generated rules depend on whether the target's own
// filter directives were applied before it is read.
func TestCE1_ExecOrder(t *testing.T) {
	oldRoot, oldAppd := prebuild.Root, prebuild.RootApparmord
	oldDist, oldFam := prebuild.Distribution, prebuild.Family
	defer func() {
		prebuild.Root, prebuild.RootApparmord = oldRoot, oldAppd
		prebuild.Distribution, prebuild.Family = oldDist, oldFam
	}()
	prebuild.Distribution, prebuild.Family = "arch", "pacman"

	session := `abi <abi/4.0>,
include <tunables/global>
@{exec_path} = @{bin}/session
profile session @{exec_path} {
  include <abstractions/base>

  @{exec_path} mr,
  #aa:exec agent

  include if exists <local/session>
}
`
	agent := `abi <abi/4.0>,
include <tunables/global>
@{exec_path}  = @{bin}/agent
@{exec_path} += @{lib}/agent #aa:only opensuse
profile agent @{exec_path} {
  include <abstractions/base>

  @{exec_path} mr,

  include if exists <local/agent>
}
`
	files := map[string]string{"session": session, "agent": agent}

	ce1Tree(t, files)
	ce1Directives(t, "agent", "session") // directory order
	sorted := ce1Read(t, "session")

	ce1Tree(t, files)
	ce1Directives(t, "session", "agent")
	reversed := ce1Read(t, "session")

	if sorted != reversed {
		t.Errorf("text of `session` depends on whether `agent` was processed before it.\n"+
			"--- agent, session:\n%s\n--- session, agent:\n%s", sorted, reversed)
	}
}

// The shipped profiles: systemd-user stacks pipewire, pulseaudio (sorted before
// it: read with their #aa:dbus already expanded) and wireplumber (sorted after
// it: read with the directive still in). Its bytes change with the order.
func TestCE1_ShippedSystemdUser(t *testing.T) {
	oldRoot, oldAppd := prebuild.Root, prebuild.RootApparmord
	defer func() { prebuild.Root, prebuild.RootApparmord = oldRoot, oldAppd }()
	src := ce1Source(t)
	files := map[string]string{
		"systemd-user": src.Join("groups/_full/systemd-user").MustReadFileAsString(),
	}
	for _, name := range []string{"pipewire", "pipewire-media-session", "pipewire-pulse", "pulseaudio", "wireplumber"} {
		files[name] = src.Join("groups/freedesktop", name).MustReadFileAsString()
	}

	ce1Tree(t, files)
	ce1Build(t) // directory order
	built := ce1Read(t, "systemd-user")

	ce1Tree(t, files)
	ce1Directives(t, "systemd-user") // alone: the stacked profiles as they are in the build directory
	alone := ce1Read(t, "systemd-user")

	ce1Tree(t, files)
	ce1Directives(t, "pipewire", "pipewire-media-session", "pipewire-pulse", "pulseaudio", "wireplumber", "systemd-user")
	last := ce1Read(t, "systemd-user")

	if built != alone || built != last {
		t.Errorf("systemd-user: %d bytes from cli.Build, %d bytes when processed alone, %d bytes when processed last",
			len(built), len(alone), len(last))
	}
}
