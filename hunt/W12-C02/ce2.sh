#!/bin/bash
# Counterexample 2 for property C02: the output of `prebuild --file F` depends
# on what an earlier run left in .build (.build/share is not wiped).
#
# Run from the worktree root:   bash .seed/ce2.sh
# Exit status 1 (FAIL) on the unmodified tree. Nothing is left in the source
# tree; .build is removed at the end.
set -u
export GOFLAGS=-mod=mod GOPROXY=off GOSUMDB=off GOTOOLCHAIN=local GOCACHE=${GOCACHE:-/tmp/gocache-$(basename "$PWD")}
tmp=$(mktemp -d /tmp/ce2.XXXXXX)
go build -o "$tmp/prebuild" ./cmd/prebuild || exit 2
file=apparmor.d/groups/apparmor/aa-log
manifest() { (cd .build && find . -printf '%y %p %l\n' | sort; find . -type f -print0 | sort -z | xargs -0 sha256sum); }
run() { DISTRIBUTION=arch "$tmp/prebuild" --abi 4 --version 4.1 "$@" >/dev/null 2>&1 || { echo "prebuild $* failed"; exit 2; }; }

rm -rf .build
run --file $file;  manifest > "$tmp/clean.man"      # on an empty build directory
run;               :                                 # a full run of the same distribution
run --file $file;  manifest > "$tmp/after.man"      # the same --file configuration again
rm -rf .build

if cmp -s "$tmp/clean.man" "$tmp/after.man"; then
	echo "PASS: same output"; rm -rf "$tmp"; exit 0
fi
echo "FAIL: 'prebuild --file $file' gives a different .build after a full run:"
diff "$tmp/clean.man" "$tmp/after.man" | head -20
rm -rf "$tmp"
exit 1
