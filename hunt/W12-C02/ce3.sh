#!/bin/bash
# Counterexample 3 for property C02 (weak: log only): what prebuild prints
# differs from run to run on the same tree and configuration, the files in
# .build do not.
#
# Run from the worktree root:   bash .seed/ce3.sh
# Exit status 1 (FAIL) on the unmodified tree (map iteration order: a run of
# 8 identical logs has a negligible probability).
set -u
export GOFLAGS=-mod=mod GOPROXY=off GOSUMDB=off GOTOOLCHAIN=local GOCACHE=${GOCACHE:-/tmp/gocache-$(basename "$PWD")}
tmp=$(mktemp -d /tmp/ce3.XXXXXX)
go build -o "$tmp/prebuild" ./cmd/prebuild || exit 2
for i in 1 2 3 4 5 6 7 8; do
	DISTRIBUTION=arch "$tmp/prebuild" --abi 4 --version 4.1 > "$tmp/log$i" 2>&1 || exit 2
done
rm -rf .build
n=$(md5sum "$tmp"/log? | awk '{print $1}' | sort -u | wc -l)
if [ "$n" -eq 1 ]; then echo "PASS: 8 identical logs"; rm -rf "$tmp"; exit 0; fi
echo "FAIL: $n different logs out of 8 runs, e.g.:"
diff "$tmp/log1" "$tmp/log2" | head -12
rm -rf "$tmp"
exit 1
