// Counterexample 2 for property C10 (merging never moves access between allow, deny and audit).
//
// Drop this file in:  pkg/aa/
// Run from the worktree root:
//   export GOFLAGS=-mod=mod GOPROXY=off GOSUMDB=off GOTOOLCHAIN=local GOCACHE=/tmp/gocache-$(basename $PWD)
//   go test -vet=off -count=1 -run TestCE2 ./pkg/aa/
//
// The `all` rule (AppArmor >= 4.0, abi 4.0 is a supported target of this
// project) takes the usual qualifiers: `deny all,`, `audit all,`, `audit deny all,`.
// pkg/aa/all.go has no Qualifier: newAll discards it, All.Compare returns 0 for
// every pair and All.Merge always succeeds. A list holding `deny all,` and
// `all,` is therefore reduced to the single rule `all,`: the deny is turned
// into an allow, and two rules that differ in qualifier are removed as
// duplicates. NOTE: the qualifier is already lost by the constructor; Merge is
// the step that deletes the second rule. The 3.0.8 reference parser of the
// sandbox does not know the `all` rule, so it cannot be used as an oracle here.
package aa

import (
	"strings"
	"testing"
)

func TestCE2_AllRuleQualifierLost(t *testing.T) {
	for _, tt := range []struct {
		name  string
		input string
		want  []string // qualifier words that must survive
	}{
		{"deny+plain", "  deny all,\n  all,\n\n", []string{"deny"}},
		{"plain+deny", "  all,\n  deny all,\n\n", []string{"deny"}},
		{"audit+plain", "  audit all,\n  all,\n\n", []string{"audit"}},
		{"audit-deny+audit", "  audit deny all,\n  audit all,\n\n", []string{"audit", "deny"}},
	} {
		t.Run(tt.name, func(t *testing.T) {
			para, _, err := ParseRules(tt.input)
			if err != nil {
				t.Fatal(err)
			}
			rules := para.Flatten()
			if len(rules) != 2 {
				t.Fatalf("parsed %d rules, want 2", len(rules))
			}
			merged := rules.Merge()
			out := merged.String()
			if len(merged) != 2 {
				t.Errorf("rules that differ in qualifier were removed as duplicates: %d rule(s) left: %q", len(merged), out)
			}
			for _, w := range tt.want {
				if !strings.Contains(out, w+" ") {
					t.Errorf("qualifier %q lost: input %q -> output %q", w, tt.input, out)
				}
			}
		})
	}
}
