// Counterexample 1 for property C10 (merging never changes what the rules grant).
//
// Drop this file in:  pkg/aa/
// Run from the worktree root:
//   export GOFLAGS=-mod=mod GOPROXY=off GOSUMDB=off GOTOOLCHAIN=local GOCACHE=/tmp/gocache-$(basename $PWD)
//   go test -vet=off -count=1 -run TestCE1 ./pkg/aa/
//
// Userns.Merge ignores the Create field: a Userns rule with Create=false
// (Validate() == nil, renders as nothing, grants nothing) absorbs a following
// `userns,` rule with the same qualifier. The grant disappears, and the result
// depends on the order of the list.
package aa

import (
	"strings"
	"testing"
)

func TestCE1_UsernsCreateDroppedByMerge(t *testing.T) {
	for _, tt := range []struct {
		name string
		in   Rules
	}{
		{"empty-first", Rules{&Userns{Create: false}, &Userns{Create: true}}},
		{"empty-last", Rules{&Userns{Create: true}, &Userns{Create: false}}},
		{"audit-empty-first", Rules{
			&Userns{Qualifier: Qualifier{Audit: true}, Create: false},
			&Userns{Qualifier: Qualifier{Audit: true}, Create: true},
		}},
	} {
		t.Run(tt.name, func(t *testing.T) {
			if err := tt.in.Validate(); err != nil {
				t.Fatalf("input is not valid: %v", err)
			}
			// The two rules are not identical for the project's own Compare
			if tt.in[0].Compare(tt.in[1]) == 0 {
				t.Fatalf("rules compare as identical")
			}
			before := tt.in.String()
			if !strings.Contains(before, "userns,") {
				t.Fatalf("input does not grant userns: %q", before)
			}
			merged := tt.in.Merge()
			after := merged.String()
			granted := false
			for _, r := range merged {
				if u, ok := r.(*Userns); ok && u.Create {
					granted = true
				}
			}
			if !granted || !strings.Contains(after, "userns,") {
				t.Errorf("userns grant lost by Merge:\n before: %q\n after:  %q (%d rule(s))", before, after, len(merged))
			}
		})
	}
}
