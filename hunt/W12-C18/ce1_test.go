// Counterexample 1 for property C18 (distribution axis, prepare/flags.go:SetFlags.Apply).
//
// Drop this file in:   pkg/prebuild/prepare/   (package prepare)
// Run from the worktree root:
//   export GOFLAGS=-mod=mod GOPROXY=off GOSUMDB=off GOTOOLCHAIN=local
//   go test -p 1 -vet=off -count=1 -run TestCE1 ./pkg/prebuild/prepare/
//
// It FAILS on the unmodified tree.
//
// The unmodified manifests are used: dists/flags/debian.flags lists
// "macchanger complain"; neither main.flags nor ubuntu.flags list macchanger.
// The only generated input is the text of the macchanger profile: a valid
// profile (accepted by apparmor_parser 3.0.8) that holds a qualifier block
// (owner { ... }) and a commented-out sub-profile, as apparmor.d/groups/virt/virtiofsd
// does. Two prepare runs that differ only by the distribution (ubuntu, debian)
// must differ only in block header lines (the re-flagging). They also differ in
// the qualifier block opener and in a comment, and the debian text is no longer
// valid policy.

package prepare

import (
	"os"
	"os/exec"
	"regexp"
	"strings"
	"testing"

	"github.com/roddhjav/apparmor.d/pkg/paths"
	"github.com/roddhjav/apparmor.d/pkg/prebuild"
)

const ce1Profile = `# apparmor.d - Full set of apparmor profiles
# Copyright (C) 2024 Test
# SPDX-License-Identifier: GPL-2.0-only

abi <abi/3.0>,

profile macchanger /usr/bin/macchanger flags=(attach_disconnected) {
  capability net_admin,

  network inet dgram,

  /usr/bin/macchanger mr,

  owner {
    /home/*/.config/macchanger/ r,
    /home/*/.config/macchanger/** rw,
  }

  # profile helper {
  #   /usr/share/macchanger/** r,
  # }

  profile sub {
    /usr/share/macchanger/** r,
  }

}
`

func ce1Prepare(t *testing.T, dist string) string {
	t.Helper()
	root := paths.New(t.TempDir())
	oldRoot, oldDist := prebuild.RootApparmord, prebuild.Distribution
	defer func() { prebuild.RootApparmord, prebuild.Distribution = oldRoot, oldDist }()
	prebuild.RootApparmord = root
	prebuild.Distribution = dist
	file := root.Join("macchanger")
	if err := file.WriteFile([]byte(ce1Profile)); err != nil {
		t.Fatal(err)
	}
	if _, err := Tasks["setflags"].Apply(); err != nil {
		t.Fatal(err)
	}
	out, err := file.ReadFileAsString()
	if err != nil {
		t.Fatal(err)
	}
	return out
}

func ce1Parses(t *testing.T, text string) (bool, string) {
	const parser = "/usr/sbin/apparmor_parser"
	if _, err := os.Stat(parser); err != nil {
		t.Log("apparmor_parser not available: parse check skipped")
		return true, ""
	}
	f := paths.New(t.TempDir()).Join("macchanger")
	if err := f.WriteFile([]byte(text)); err != nil {
		t.Fatal(err)
	}
	cmd := exec.Command(parser, "-Q", "-K",
		"--policy-features", "/etc/apparmor.d/abi/3.0",
		"--kernel-features", "/etc/apparmor.d/abi/3.0",
		"-S", f.String())
	var stderr strings.Builder
	cmd.Stderr = &stderr // the binary policy on stdout is dropped
	err := cmd.Run()
	return err == nil, strings.TrimSpace(stderr.String())
}

func TestCE1_SetFlagsOnlyEditsBlockHeaders(t *testing.T) {
	chdirGitRoot() // the real dists/flags manifests are read

	ubuntu := ce1Prepare(t, "ubuntu") // macchanger not in main.flags nor ubuntu.flags
	debian := ce1Prepare(t, "debian") // debian.flags: macchanger complain

	if ubuntu != ce1Profile {
		t.Fatalf("ubuntu: the profile is not in a manifest, it must be left as it is:\n%s", ubuntu)
	}
	if ok, msg := ce1Parses(t, ubuntu); !ok {
		t.Fatalf("the generated input is not valid policy: %s", msg)
	}

	// A block header: profile / hat / ^hat line that opens a block
	regHeader := regexp.MustCompile(`^[\t ]*(profile[\t ]|hat[\t ]|\^)[^\n]*{$`)
	lu, ld := strings.Split(ubuntu, "\n"), strings.Split(debian, "\n")
	if len(lu) != len(ld) {
		t.Fatalf("line count differs: %d / %d", len(lu), len(ld))
	}
	for i := range lu {
		if lu[i] != ld[i] && !regHeader.MatchString(lu[i]) {
			t.Errorf("line %d is not a profile header but differs between the ubuntu and debian builds:\n  ubuntu: %q\n  debian: %q", i+1, lu[i], ld[i])
		}
	}
	if ok, msg := ce1Parses(t, debian); !ok {
		t.Errorf("debian: the re-flagged profile is rejected by apparmor_parser: %s", msg)
	}
}
