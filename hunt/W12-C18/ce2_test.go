// Counterexample 2 for property C18 (mode axis, builder/complain.go:Complain.Apply,
// builder/enforce.go:Enforce.Apply). Severity: cosmetic (the damage stays inside a comment).
//
// Drop this file in:   pkg/prebuild/builder/   (package builder)
// Run from the worktree root:
//   export GOFLAGS=-mod=mod GOPROXY=off GOSUMDB=off GOTOOLCHAIN=local
//   go test -p 1 -vet=off -count=1 -run TestCE2 ./pkg/prebuild/builder/
//
// It FAILS on the unmodified tree.
//
// A rule followed by a comment that ends with an opening brace is taken for a
// block header (regBlockHeader: any non-comment line that ends with '{'), so
// --complain writes a flags list into the comment and --enforce removes
// 'complain' from a flags list quoted in such a comment: a line that is not a
// profile header differs between two builds that only differ by the mode.

package builder

import (
	"regexp"
	"strings"
	"testing"
)

const ce2Profile = `abi <abi/4.0>,

profile foo /usr/bin/foo {
  /etc/foo.conf r,        # read by the "section {
  /etc/foo.d/*.conf r,    # as set with flags=(complain) {

  profile bar {
    /etc/bar.conf r,
  }

}
`

func TestCE2_ModeOnlyEditsBlockHeaders(t *testing.T) {
	regHeader := regexp.MustCompile(`^[\t ]*(profile[\t ]|hat[\t ]|\^)[^\n]*{$`)
	for _, name := range []string{"complain", "enforce"} {
		got, err := Builders[name].Apply(nil, ce2Profile)
		if err != nil {
			t.Fatal(err)
		}
		lw, lg := strings.Split(ce2Profile, "\n"), strings.Split(got, "\n")
		if len(lw) != len(lg) {
			t.Fatalf("%s: line count differs", name)
		}
		for i := range lw {
			if lw[i] != lg[i] && !regHeader.MatchString(lw[i]) {
				t.Errorf("%s: line %d is not a profile header but is edited:\n  before: %q\n  after:  %q", name, i+1, lw[i], lg[i])
			}
		}
	}
}
