// CE3 (property C03) -- a guarded `@{exec_path}` line is consumed before the only/exclude
// step runs: its value ends up in the built profile (header attachment, and `#aa:exec`
// rules of profiles built earlier) on targets that none of its filters names.
//
// Drop this file in:  pkg/prebuild/cli/
// Run (from the worktree root):
//   export GOFLAGS=-mod=mod GOPROXY=off GOSUMDB=off GOTOOLCHAIN=local GOCACHE=/tmp/gocache-$(basename $PWD)
//   go test -p 1 -vet=off -count=1 -run 'TestCE3' ./pkg/prebuild/cli/
//
// FAILS on the unmodified tree. (Same thing with the real tool: put the two profiles in
// apparmor.d/profiles-a-f/ and run `DISTRIBUTION=arch go run ./cmd/prebuild --abi 4 --version 4.0`,
// then look at .build/apparmor.d/c03aaa and .build/apparmor.d/c03zzz.)
package cli

import (
	"os"
	"path/filepath"
	"strings"
	"testing"

	"github.com/roddhjav/apparmor.d/pkg/paths"
	"github.com/roddhjav/apparmor.d/pkg/prebuild"
	"github.com/roddhjav/apparmor.d/pkg/prebuild/builder"
)

// Target profile: one more attachment on openSUSE only.
const ce3Target = `abi <abi/4.0>,

include <tunables/global>

@{exec_path} = @{bin}/c03zzz
@{exec_path} += @{lib}/c03zzz-suse #aa:only opensuse
profile c03zzz @{exec_path} {
  include <abstractions/base>

  @{exec_path} mr,

  include if exists <local/c03zzz>
}
`

// Host profile, built BEFORE its target (files are processed in name order).
const ce3Host = `abi <abi/4.0>,

include <tunables/global>

@{exec_path} = @{bin}/c03aaa
profile c03aaa @{exec_path} {
  include <abstractions/base>

  @{exec_path} mr,

  #aa:exec c03zzz

  include if exists <local/c03aaa>
}
`

func TestCE3GuardedExecPathLeaks(t *testing.T) {
	root := paths.New(t.TempDir())
	oldRoot, oldRootAA := prebuild.Root, prebuild.RootApparmord
	oldDist, oldFam, oldABI, oldVer := prebuild.Distribution, prebuild.Family, prebuild.ABI, prebuild.Version
	oldBuilds := builder.Builds
	defer func() {
		prebuild.Root, prebuild.RootApparmord = oldRoot, oldRootAA
		prebuild.Distribution, prebuild.Family, prebuild.ABI, prebuild.Version = oldDist, oldFam, oldABI, oldVer
		builder.Builds = oldBuilds
	}()
	prebuild.Root = root
	prebuild.RootApparmord = root.Join("apparmor.d")
	if err := os.MkdirAll(prebuild.RootApparmord.String(), 0o755); err != nil {
		t.Fatal(err)
	}
	for name, txt := range map[string]string{"c03zzz": ce3Target, "c03aaa": ce3Host} {
		if err := os.WriteFile(filepath.Join(prebuild.RootApparmord.String(), name), []byte(txt), 0o644); err != nil {
			t.Fatal(err)
		}
	}
	// The default build tasks of cmd/prebuild
	builder.Builds = []builder.Builder{}
	builder.Register("userspace", "hotfix")
	prebuild.Distribution, prebuild.Family, prebuild.ABI, prebuild.Version = "arch", "pacman", 4, 4.0

	if err := Build(); err != nil {
		t.Fatal(err)
	}
	target := prebuild.RootApparmord.Join("c03zzz").MustReadFileAsString()
	host := prebuild.RootApparmord.Join("c03aaa").MustReadFileAsString()

	if strings.Contains(target, "#aa:") || strings.Contains(host, "#aa:") {
		t.Errorf("a directive marker survived")
	}
	// The guarded line itself is correctly removed on arch ...
	if strings.Contains(target, "@{exec_path} +=") {
		t.Errorf("arch: guarded variable line still present:\n%s", target)
	}
	// ... but what it guards must not be in the built profiles either.
	if strings.Contains(target, "c03zzz-suse") {
		t.Errorf("arch: the attachment guarded by `#aa:only opensuse` is present in the built profile:\n%s", target)
	}
	if strings.Contains(host, "c03zzz-suse") {
		t.Errorf("arch: the attachment guarded by `#aa:only opensuse` is present in the built host profile:\n%s", host)
	}
}
