// CE2 (property C03) -- a repeated, identical inline-guarded rule lets guarded rules of a
// later paragraph survive on a target that none of the filters names.
//
// Drop this file in:  pkg/prebuild/directive/
// Run (from the worktree root):
//   export GOFLAGS=-mod=mod GOPROXY=off GOSUMDB=off GOTOOLCHAIN=local GOCACHE=/tmp/gocache-$(basename $PWD)
//   go test -p 1 -vet=off -count=1 -run 'TestCE2' ./pkg/prebuild/directive/
//
// FAILS on the unmodified tree.
package directive

import (
	"strings"
	"testing"

	"github.com/roddhjav/apparmor.d/pkg/paths"
	"github.com/roddhjav/apparmor.d/pkg/prebuild"
)

const ce2Profile = `profile c03 @{exec_path} {
  include <abstractions/base>

  profile shell {
    @{bin}/run-parts rix, #aa:only apt

    /etc/shells r,

  }

  profile motd {
    #aa:only debian ubuntu
    /etc/update-motd.d/ r,
    @{bin}/run-parts rix, #aa:only apt
    /etc/update-motd.d/* rPx,
    /usr/share/landscape/landscape-sysinfo.wrapper rPx,

    /etc/motd r,

  }

  include if exists <local/c03>
}
`

func TestCE2RepeatedInlineSplitsParagraph(t *testing.T) {
	oldDist, oldFam, oldABI, oldVer := prebuild.Distribution, prebuild.Family, prebuild.ABI, prebuild.Version
	defer func() {
		prebuild.Distribution, prebuild.Family, prebuild.ABI, prebuild.Version = oldDist, oldFam, oldABI, oldVer
	}()
	prebuild.ABI, prebuild.Version = 4, 4.0

	// Sanity: on debian (named by every filter) all rules are kept.
	prebuild.Distribution, prebuild.Family = "debian", "apt"
	got, err := Run(paths.New("c03"), ce2Profile)
	if err != nil {
		t.Fatal(err)
	}
	for _, l := range []string{"    /etc/update-motd.d/ r,", "    /etc/update-motd.d/* rPx,", "    /usr/share/landscape/landscape-sysinfo.wrapper rPx,", "    /etc/motd r,"} {
		if !strings.Contains(got, l+"\n") {
			t.Errorf("debian: line %q missing from\n%s", l, got)
		}
	}

	// arch / opensuse: neither `debian ubuntu` nor `apt` names the target: the whole
	// `#aa:only debian ubuntu` paragraph (4 rules) and both run-parts lines must be absent,
	// every unguarded line must stay.
	for _, c := range [][2]string{{"arch", "pacman"}, {"opensuse", "zypper"}} {
		prebuild.Distribution, prebuild.Family = c[0], c[1]
		got, err := Run(paths.New("c03"), ce2Profile)
		if err != nil {
			t.Fatal(err)
		}
		if strings.Contains(got, Keyword) {
			t.Errorf("%s: a directive marker survived in\n%s", c[0], got)
		}
		for _, l := range []string{"/etc/update-motd.d/ r,", "run-parts", "/etc/update-motd.d/* rPx,", "landscape-sysinfo.wrapper"} {
			if strings.Contains(got, l) {
				t.Errorf("%s: GUARDED rule %q is present in the built profile:\n%s", c[0], l, got)
			}
		}
		for _, l := range []string{"    /etc/shells r,", "    /etc/motd r,", "  include if exists <local/c03>"} {
			if !strings.Contains(got, l+"\n") {
				t.Errorf("%s: unguarded line %q lost from\n%s", c[0], l, got)
			}
		}
	}
}
