// CE1 (property C03) -- a paragraph guard brought in by `#aa:stack` swallows unguarded lines.
//
// Drop this file in:  pkg/prebuild/directive/
// Run (from the worktree root):
//   export GOFLAGS=-mod=mod GOPROXY=off GOSUMDB=off GOTOOLCHAIN=local GOCACHE=/tmp/gocache-$(basename $PWD)
//   go test -p 1 -vet=off -count=1 -run 'TestCE1' ./pkg/prebuild/directive/
//
// FAILS on the unmodified tree.
package directive

import (
	"os"
	"path/filepath"
	"strings"
	"testing"

	"github.com/roddhjav/apparmor.d/pkg/paths"
	"github.com/roddhjav/apparmor.d/pkg/prebuild"
)

const ce1Stacked = `abi <abi/4.0>,

include <tunables/global>

@{exec_path} = @{bin}/c03stacked
profile c03stacked @{exec_path} {
  include <abstractions/base>

  @{exec_path} mr,

  #aa:only opensuse
  /etc/zypp/ r,
  /etc/zypp/** r,

  /etc/common r,

  include if exists <local/c03stacked>
}
`

const ce1Host = `abi <abi/4.0>,

include <tunables/global>

@{exec_path} = @{bin}/c03host
profile c03host @{exec_path} {
  include <abstractions/base>

  @{exec_path} mr,

  #aa:stack c03stacked

  /etc/host r,

  include if exists <local/c03host>
}
`

func TestCE1StackedParagraphGuard(t *testing.T) {
	dir := t.TempDir()
	if err := os.WriteFile(filepath.Join(dir, "c03stacked"), []byte(ce1Stacked), 0o644); err != nil {
		t.Fatal(err)
	}
	oldRoot := prebuild.RootApparmord
	oldDist, oldFam, oldABI, oldVer := prebuild.Distribution, prebuild.Family, prebuild.ABI, prebuild.Version
	defer func() {
		prebuild.RootApparmord = oldRoot
		prebuild.Distribution, prebuild.Family, prebuild.ABI, prebuild.Version = oldDist, oldFam, oldABI, oldVer
	}()
	prebuild.RootApparmord = paths.New(dir)
	prebuild.ABI, prebuild.Version = 4, 4.0

	// Sanity: on the target named by the filter everything is kept.
	prebuild.Distribution, prebuild.Family = "opensuse", "zypper"
	got, err := Run(paths.New(filepath.Join(dir, "c03host")), ce1Host)
	if err != nil {
		t.Fatal(err)
	}
	for _, l := range []string{"  /etc/zypp/ r,", "  /etc/zypp/** r,", "  /etc/common r,", "  include if exists <local/c03stacked>"} {
		if !strings.Contains(got, l+"\n") {
			t.Errorf("opensuse: line %q missing from\n%s", l, got)
		}
	}

	// arch: the guarded paragraph (the two zypp rules) must go, the unguarded
	// `/etc/common r,` and the local include of the stacked profile must stay.
	prebuild.Distribution, prebuild.Family = "arch", "pacman"
	got, err = Run(paths.New(filepath.Join(dir, "c03host")), ce1Host)
	if err != nil {
		t.Fatal(err)
	}
	if strings.Contains(got, Keyword) {
		t.Errorf("arch: a directive marker survived in\n%s", got)
	}
	if strings.Contains(got, "/etc/zypp/") {
		t.Errorf("arch: guarded rule present in\n%s", got)
	}
	for _, l := range []string{"  /etc/common r,", "  include if exists <local/c03stacked>", "  /etc/host r,", "  include if exists <local/c03host>"} {
		if !strings.Contains(got, l+"\n") {
			t.Errorf("arch: UNGUARDED line %q lost from\n%s", l, got)
		}
	}
}
