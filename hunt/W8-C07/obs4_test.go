// Observation 4 (not counted as a counterexample: sibling of the repaired
// "stack without X copied an '#aa:exec' line of a not yet built profile").
// A stack WITHOUT X of a not yet built profile that itself holds '#aa:stack X ...'
// (shipped: freetube, element-desktop, signal-desktop -> xdg-settings) copies that
// directive line; the re-scan expands it with X and the host receives the 27 exec
// transitions of xdg-settings. When the stacked profile is already built (host
// sorted after it) the same directive yields none: the result depends on the
// file order of the build.
//
// Drop in:  pkg/prebuild/directive/
// Run:      cd pkg/prebuild/directive && go test -vet=off -count=1 -run TestOBS4 .
// Fails on the unmodified tree.

package directive

import (
	"os"
	"regexp"
	"strings"
	"testing"

	"github.com/roddhjav/apparmor.d/pkg/paths"
	"github.com/roddhjav/apparmor.d/pkg/prebuild"
)

func TestOBS4_StackWithoutXOfProfileThatStacksWithX(t *testing.T) {
	saved := prebuild.RootApparmord
	defer func() { prebuild.RootApparmord = saved }()

	root := paths.New(t.TempDir())
	for name, src := range map[string]string{
		"freetube":     "../../../apparmor.d/profiles-a-f/freetube",
		"xdg-settings": "../../../apparmor.d/groups/freedesktop/xdg-settings",
	} {
		data, err := os.ReadFile(src)
		if err != nil {
			t.Fatal(err)
		}
		if err := root.Join(name).WriteFile(data); err != nil {
			t.Fatal(err)
		}
	}
	prebuild.RootApparmord = root

	host := `profile host @{exec_path} {
  include <abstractions/base>

  @{exec_path} mr,

  #aa:stack freetube

  include if exists <local/host>
}
`
	regExec := regexp.MustCompile(`(?m)^  \S+\s+[rwmlk]*[PpCcUu]*i?x( -> \S+)?,`)

	// 1. freetube not built yet (host sorted before it, e.g. "aaa-host")
	unbuilt, err := Run(paths.New("host"), host)
	if err != nil {
		t.Fatal(err)
	}
	// 2. freetube already built (host sorted after it, e.g. "zzz-host")
	built, err := Run(root.Join("freetube"), root.Join("freetube").MustReadFileAsString())
	if err != nil {
		t.Fatal(err)
	}
	if err := root.Join("freetube").WriteFile([]byte(built)); err != nil {
		t.Fatal(err)
	}
	after, err := Run(paths.New("host"), host)
	if err != nil {
		t.Fatal(err)
	}

	n1 := len(regExec.FindAllString(unbuilt, -1))
	n2 := len(regExec.FindAllString(after, -1))
	if n1 != 0 || n2 != 0 {
		t.Errorf("stack without X: %d exec transitions in the host when freetube is not built yet, %d when it is (want 0 and 0)", n1, n2)
	}
	if strings.Contains(unbuilt, Keyword) || strings.Contains(after, Keyword) {
		t.Errorf("directive left")
	}
}
