// Counterexample 3 (property C07): '#aa:stack X <profile>' must add every rule of
// the stacked profile except its base include and its entry point. The "entry
// point" pattern (?m)^.*@{exec_path}.*$ drops ANY line that mentions
// @{exec_path}: the helper exec transitions '@{exec_path}-subprocess rix,'
// (evolution-addressbook-factory, evolution-calendar-factory) and
// '@{exec_path}-ipam rix,' (cni-calico) are lost although X was given.
//
// Drop in:  pkg/prebuild/directive/
// Run:      cd pkg/prebuild/directive && go test -vet=off -count=1 -run TestCE3 .
// Fails on the unmodified tree.

package directive

import (
	"strings"
	"testing"

	"github.com/roddhjav/apparmor.d/pkg/paths"
	"github.com/roddhjav/apparmor.d/pkg/prebuild"
)

const ce3Host = `abi <abi/4.0>,

include <tunables/global>

@{exec_path} = @{bin}/host
profile host @{exec_path} {
  include <abstractions/base>

  @{exec_path} mr,

  #aa:stack X STACKED

  include if exists <local/host>
}
`

func TestCE3_StackXDropsHelperExecRule(t *testing.T) {
	saved := prebuild.RootApparmord
	defer func() { prebuild.RootApparmord = saved }()

	for _, tt := range []struct{ dir, stacked, helper string }{
		{"../../../apparmor.d/groups/gnome", "evolution-addressbook-factory", "-subprocess"},
		{"../../../apparmor.d/groups/gnome", "evolution-calendar-factory", "-subprocess"},
		{"../../../apparmor.d/groups/virt", "cni-calico", "-ipam"},
	} {
		t.Run(tt.stacked, func(t *testing.T) {
			prebuild.RootApparmord = paths.New(tt.dir)
			source := prebuild.RootApparmord.Join(tt.stacked).MustReadFileAsString()
			if !strings.Contains(source, "  @{exec_path}"+tt.helper+" rix,") {
				t.Skip("shipped profile changed")
			}
			got, err := Run(paths.New("host"), strings.Replace(ce3Host, "STACKED", tt.stacked, 1))
			if err != nil {
				t.Fatalf("Run() error = %v", err)
			}
			_, stacked, _ := strings.Cut(got, "# Stacked profile: "+tt.stacked)

			// The entry point of the stacked profile is gone, as documented
			if strings.Contains(stacked, "@{exec_path} mr,") {
				t.Errorf("entry point of %s kept", tt.stacked)
			}
			// ... but the exec transition to its helper must be there (X given),
			// verbatim or with the variable resolved
			found := false
			for _, line := range strings.Split(stacked, "\n") {
				if strings.Contains(line, tt.helper+" ") && strings.Contains(line, "ix,") {
					found = true
				}
			}
			if !found {
				t.Errorf("'#aa:stack X %s': the rule '@{exec_path}%s rix,' of the stacked profile is missing from the host",
					tt.stacked, tt.helper)
			}
		})
	}
}
