// Counterexample 2 (property C07): on every ABI 4 build the 'overwrite' prepare
// task renames the 25 profiles of dists/overwrite (firefox, plasmashell, steam,
// element-desktop, ...) to <name>.apparmor.d. '#aa:exec' and '#aa:stack' look
// their profiles up as <build>/apparmor.d/<name> only, so naming one of those
// shipped profiles panics (build aborted, directive left in the output) on ABI 4,
// while the very same directive expands correctly on ABI 3.
//
// Drop in:  pkg/prebuild/directive/
// Run:      cd pkg/prebuild/directive && go test -vet=off -count=1 -run TestCE2 .
// Fails on the unmodified tree (sub-tests abi4/*; abi3/* pass).
//
// End to end (same result): add a profile containing '  #aa:exec firefox' under
// apparmor.d/profiles-a-f/, then
//   DISTRIBUTION=arch go run ./cmd/prebuild --abi 3 --version 3.0   -> 3 'firefox ... Px,' rules
//   DISTRIBUTION=arch go run ./cmd/prebuild --abi 4 --version 4.1   -> panic: open .build/apparmor.d/firefox: no such file or directory

package directive

import (
	"fmt"
	"os"
	"strings"
	"testing"

	"github.com/roddhjav/apparmor.d/pkg/paths"
	"github.com/roddhjav/apparmor.d/pkg/prebuild"
	"github.com/roddhjav/apparmor.d/pkg/prebuild/prepare"
)

const ce2Host = `abi <abi/4.0>,

include <tunables/global>

@{exec_path} = @{bin}/host
profile host @{exec_path} {
  include <abstractions/base>

  @{exec_path} mr,

  DIRECTIVE

  include if exists <local/host>
}
`

func TestCE2_ExecStackOverwrittenProfile(t *testing.T) {
	savedRoot, savedABI, savedDist := prebuild.RootApparmord, prebuild.ABI, prebuild.DistDir
	defer func() {
		prebuild.RootApparmord, prebuild.ABI, prebuild.DistDir = savedRoot, savedABI, savedDist
	}()
	prebuild.DistDir = paths.New("../../../dists")

	for _, abi := range []int{3, 4} {
		for _, tt := range []struct{ directive, want string }{
			{"#aa:exec firefox", "/{,usr/}{,s}bin/firefox{,-esr,-bin} Px,"},
			{"#aa:stack X firefox", "  # Stacked profile: firefox"},
		} {
			t.Run(fmt.Sprintf("abi%d/%s", abi, tt.directive), func(t *testing.T) {
				// A build directory with the shipped firefox profile, prepared by the real task
				root := paths.New(t.TempDir()).Join("apparmor.d")
				if err := root.MkdirAll(); err != nil {
					t.Fatal(err)
				}
				src, err := os.ReadFile("../../../apparmor.d/groups/browsers/firefox")
				if err != nil {
					t.Fatal(err)
				}
				if err := root.Join("firefox").WriteFile(src); err != nil {
					t.Fatal(err)
				}
				prebuild.RootApparmord = root
				prebuild.ABI = abi
				if _, err := prepare.Tasks["overwrite"].Apply(); err != nil {
					t.Fatalf("overwrite: %v", err)
				}

				defer func() {
					if r := recover(); r != nil {
						t.Errorf("ABI %d: '%s' panics: %v", abi, tt.directive, r)
					}
				}()
				got, err := Run(paths.New("host"), strings.Replace(ce2Host, "DIRECTIVE", tt.directive, 1))
				if err != nil {
					t.Fatalf("Run() error = %v", err)
				}
				if strings.Contains(got, Keyword) || !strings.Contains(got, tt.want) {
					t.Errorf("ABI %d: '%s' not expanded:\n%s", abi, tt.directive, got)
				}
			})
		}
	}
}
