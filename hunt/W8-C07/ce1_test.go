// Counterexample 1 (property C07): stacking a profile whose file holds several
// top-level profiles (shipped: atril, man) copies the text up to the LAST '}' of
// the file, i.e. the closing brace of the stacked profile and the other profiles
// of the file. The host profile is closed early, loses its own local include,
// and the host file now (re)defines the other profiles of the stacked file.
//
// Drop in:  pkg/prebuild/directive/
// Run:      cd pkg/prebuild/directive && go test -vet=off -count=1 -run TestCE1 .
// Fails on the unmodified tree.

package directive

import (
	"strings"
	"testing"

	"github.com/roddhjav/apparmor.d/pkg/paths"
	"github.com/roddhjav/apparmor.d/pkg/prebuild"
)

const ce1Host = `abi <abi/4.0>,

include <tunables/global>

@{exec_path} = @{bin}/host
profile host @{exec_path} {
  include <abstractions/base>

  @{exec_path} mr,

  #aa:stack STACKED

  /etc/host.conf r,

  include if exists <local/host>
}
`

func TestCE1_StackFileWithSeveralProfiles(t *testing.T) {
	saved := prebuild.RootApparmord
	defer func() { prebuild.RootApparmord = saved }()

	for _, tt := range []struct{ dir, stacked, arg string }{
		{"../../../apparmor.d/profiles-a-f", "atril", "atril"},
		{"../../../apparmor.d/profiles-a-f", "atril", "X atril"},
		{"../../../apparmor.d/profiles-m-r", "man", "man"},
	} {
		t.Run(tt.arg, func(t *testing.T) {
			prebuild.RootApparmord = paths.New(tt.dir)
			got, err := Run(paths.New("host"), strings.Replace(ce1Host, "STACKED", tt.arg, 1))
			if err != nil {
				t.Fatalf("Run() error = %v", err)
			}

			// The host file held one top-level profile: it still has to
			closing, headers := 0, []string{}
			for _, line := range strings.Split(got, "\n") {
				if line == "}" {
					closing++
				}
				if strings.HasPrefix(line, "profile ") {
					headers = append(headers, line)
				}
			}
			if closing != 1 || len(headers) != 1 {
				t.Errorf("host file has %d top-level '}' and %d top-level profiles, want 1 and 1: %q",
					closing, len(headers), headers)
			}

			// The host's own rules stay as they were: its local include is the
			// last rule of the host profile
			hostBody, _, _ := strings.Cut(got, "\n}\n")
			if !strings.Contains(hostBody, "  include if exists <local/host>") {
				t.Errorf("the host profile lost its own 'include if exists <local/host>' (it is now in another profile)")
			}
			if !strings.Contains(hostBody, "  include if exists <local/"+tt.stacked+">") {
				t.Errorf("rules of %s missing from the host profile", tt.stacked)
			}
			if t.Failed() {
				t.Logf("built host:\n%s", got)
			}
		})
	}
}
