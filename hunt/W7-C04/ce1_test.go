// Counterexample 1 (property C04): the overwrite task ships a disable/ symlink
// for profiles that are NOT in the output policy set (ignored or non-existent),
// so an ignore-list entry leaks into the output as "disable upstream profile".
//
// Drop in:  pkg/prebuild/prepare/
// Run:      go test -p 1 -vet=off -count=1 -run TestCE1 ./pkg/prebuild/prepare/
// Expected on the unmodified tree: FAIL (disable/steam and disable/mullvad have
// no steam.apparmor.d / mullvad.apparmor.d; on whonix also loupe and nautilus).

package prepare

import (
	"os"
	"testing"

	"github.com/roddhjav/apparmor.d/pkg/paths"
	"github.com/roddhjav/apparmor.d/pkg/prebuild"
)

func TestCE1_OverwriteDisablesProfilesThatAreNotShipped(t *testing.T) {
	chdirGitRoot()
	oldRoot, oldAa, oldDist, oldABI, oldVer := prebuild.Root, prebuild.RootApparmord, prebuild.Distribution, prebuild.ABI, prebuild.Version
	defer func() {
		prebuild.Root, prebuild.RootApparmord, prebuild.Distribution, prebuild.ABI, prebuild.Version = oldRoot, oldAa, oldDist, oldABI, oldVer
	}()

	for _, dist := range []string{"arch", "debian", "ubuntu", "opensuse", "whonix"} {
		tmp, err := os.MkdirTemp("", "ce1-")
		if err != nil {
			t.Fatal(err)
		}
		defer os.RemoveAll(tmp)
		prebuild.Root = paths.New(tmp)
		prebuild.RootApparmord = prebuild.Root.Join("apparmor.d")
		prebuild.Distribution = dist
		prebuild.ABI = 4
		prebuild.Version = 4.0

		// Same order as cmd/prebuild/main.go
		for _, name := range []string{"synchronise", "ignore", "merge", "configure", "setflags", "overwrite"} {
			if _, err := Tasks[name].Apply(); err != nil {
				t.Fatalf("%s: task %s: %v", dist, name, err)
			}
		}

		// The ignored profiles are, correctly, absent ...
		for _, gone := range []string{"steam", "steam.apparmor.d"} {
			if prebuild.RootApparmord.Join(gone).Exist() {
				t.Errorf("%s: ignored profile %s is shipped", dist, gone)
			}
		}
		// ... so nothing may refer to them: every disable/NAME must come with
		// the renamed profile NAME.apparmor.d (property: "every profile on the
		// overwrite list is renamed with the package suffix AND given a
		// disable/ symlink"; "nothing leaked").
		links, err := os.ReadDir(prebuild.RootApparmord.Join("disable").String())
		if err != nil {
			t.Fatal(err)
		}
		for _, l := range links {
			if !prebuild.RootApparmord.Join(l.Name() + ".apparmor.d").Exist() {
				target, _ := os.Readlink(prebuild.RootApparmord.Join("disable", l.Name()).String())
				t.Errorf("%s: disable/%s -> %s is shipped, but %s.apparmor.d is not in the output (upstream profile disabled without replacement)",
					dist, l.Name(), target, l.Name())
			}
		}
	}
}
