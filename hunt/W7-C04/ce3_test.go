// Counterexample 3 (property C04, "for any stale content of the build
// directory"): a stale entry .build/<name> whose name equals a by-name ignore
// entry (man, dunst, plasma-discover, chronyd, libvirt, virt-aa-helper) makes
// the ignore task delete the stale entry INSTEAD of the profile: the ignored
// profile ships. synchronise only cleans .build/{apparmor.d,share,systemd}.
//
// Drop in:  pkg/prebuild/prepare/
// Run:      go test -p 1 -vet=off -count=1 -run TestCE3 ./pkg/prebuild/prepare/
// Expected on the unmodified tree: FAIL (man and dunst are shipped).

package prepare

import (
	"os"
	"testing"

	"github.com/roddhjav/apparmor.d/pkg/paths"
	"github.com/roddhjav/apparmor.d/pkg/prebuild"
)

func TestCE3_StaleBuildEntryShadowsIgnoreEntry(t *testing.T) {
	chdirGitRoot()
	oldRoot, oldAa, oldDist, oldABI, oldVer := prebuild.Root, prebuild.RootApparmord, prebuild.Distribution, prebuild.ABI, prebuild.Version
	defer func() {
		prebuild.Root, prebuild.RootApparmord, prebuild.Distribution, prebuild.ABI, prebuild.Version = oldRoot, oldAa, oldDist, oldABI, oldVer
	}()
	tmp, err := os.MkdirTemp("", "ce3-")
	if err != nil {
		t.Fatal(err)
	}
	defer os.RemoveAll(tmp)
	prebuild.Root = paths.New(tmp)
	prebuild.RootApparmord = prebuild.Root.Join("apparmor.d")
	prebuild.Distribution = "arch"
	prebuild.ABI = 4
	prebuild.Version = 4.1

	// Stale content of the build directory (outside apparmor.d/share/systemd,
	// i.e. not cleaned by synchronise).
	if err := prebuild.Root.Join("man").WriteFile([]byte("stale\n")); err != nil {
		t.Fatal(err)
	}
	if err := prebuild.Root.Join("dunst").Mkdir(); err != nil {
		t.Fatal(err)
	}

	for _, name := range []string{"synchronise", "ignore", "merge", "configure", "setflags", "overwrite"} {
		if _, err := Tasks[name].Apply(); err != nil {
			t.Fatalf("task %s: %v", name, err)
		}
	}

	// main.ignore lists man, dunst and plasma-discover: none may be shipped.
	for _, ignored := range []string{"man", "dunst", "plasma-discover"} {
		if prebuild.RootApparmord.Join(ignored).Exist() {
			t.Errorf("profile %q is on dists/ignore/main.ignore but is shipped in the prepared policy directory", ignored)
		}
	}
}
