// Counterexample 2 (property C04): in --full mode the flags manifest is never
// applied to the full-system-policy profiles (bwrap, bwrap-app, default,
// default-sudo, systemd, systemd-service, systemd-user): the fsp task copies
// them into the output AFTER the setflags task ran, so their headers keep the
// source flags although dists/flags/main.flags rewrites them.
//
// Drop in:  pkg/prebuild/prepare/
// Run:      go test -p 1 -vet=off -count=1 -run TestCE2 ./pkg/prebuild/prepare/
// Expected on the unmodified tree: FAIL (7 profiles keep the source header).

package prepare

import (
	"os"
	"regexp"
	"strings"
	"testing"

	"github.com/roddhjav/apparmor.d/pkg/paths"
	"github.com/roddhjav/apparmor.d/pkg/prebuild"
)

func TestCE2_FullPolicyProfilesMissManifestFlags(t *testing.T) {
	chdirGitRoot()
	oldRoot, oldAa, oldDist, oldABI, oldVer := prebuild.Root, prebuild.RootApparmord, prebuild.Distribution, prebuild.ABI, prebuild.Version
	defer func() {
		prebuild.Root, prebuild.RootApparmord, prebuild.Distribution, prebuild.ABI, prebuild.Version = oldRoot, oldAa, oldDist, oldABI, oldVer
	}()
	tmp, err := os.MkdirTemp("", "ce2-")
	if err != nil {
		t.Fatal(err)
	}
	defer os.RemoveAll(tmp)
	prebuild.Root = paths.New(tmp)
	prebuild.RootApparmord = prebuild.Root.Join("apparmor.d")
	prebuild.Distribution = "arch"
	prebuild.ABI = 4
	prebuild.Version = 4.1

	// Order of cmd/prebuild/main.go followed by what cli.Configure registers
	// for --full (prepare.Register("fsp") is appended last).
	order := []string{"synchronise", "ignore", "merge", "configure", "setflags", "overwrite", "systemd-default", "fsp"}
	for _, name := range order {
		if _, err := Tasks[name].Apply(); err != nil {
			t.Fatalf("task %s: %v", name, err)
		}
	}

	manifest := prebuild.Flags.Read("main")
	header := regexp.MustCompile(`(?m)^profile .*\{$`)
	fsp, err := os.ReadDir("apparmor.d/groups/_full")
	if err != nil {
		t.Fatal(err)
	}
	for _, e := range fsp {
		flags, ok := manifest[e.Name()]
		if !ok || len(flags) == 0 {
			continue
		}
		out, err := prebuild.RootApparmord.Join(e.Name()).ReadFileAsString()
		if err != nil {
			t.Errorf("%s lost: %v", e.Name(), err)
			continue
		}
		got := header.FindString(out)
		want := "flags=(" + strings.Join(flags, ",") + ") {"
		if !strings.HasSuffix(got, want) {
			t.Errorf("%s: main.flags says %q but the prepared profile header is %q", e.Name(), want, got)
		}
	}
}
