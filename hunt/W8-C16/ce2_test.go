// Counterexample 2 for property C16 (rules generated from logs cover the logged access).
//
// Drop this file in:  pkg/logs/
// Run (from the worktree root):
//   export GOFLAGS=-mod=mod GOPROXY=off GOSUMDB=off GOTOOLCHAIN=local
//   go test -p 1 -vet=off -count=1 -run TestCE2 ./pkg/logs/
//
// regResolveLogs contains  `/att/[^/@]+` -> `@{att}/`  (meant for the
// attach_disconnected.path prefix /att/<profile>/ at the START of a name).  The
// expression is not anchored, so any directory called "att" anywhere in a name
// is rewritten and the component that follows it is DELETED from the rule:
//   /usr/share/att/logo/x.png   ->  /usr/share@{att}/x.png
//   /var/lib/att/db/x           ->  /var/lib@{att}/x
//   /home/alice/att/notes/x.txt ->  @{HOME}@{att}/x.txt
// Under the shipped tunables @{att}=/ (and even under a profile-local
// @{att}=/att/<profile>/) the pattern does not match the recorded name.
//
// The oracle is the reference parser (see ce1_test.go): overlapping x rules with
// different modifiers => "conflicting x modifiers".

package logs

import (
	"bytes"
	"fmt"
	"os"
	"os/exec"
	"path/filepath"
	"strings"
	"testing"

	"github.com/roddhjav/apparmor.d/pkg/aa"
)

const ce2Parser = "/usr/sbin/apparmor_parser"

// ce2Base builds a parser base directory: the upstream tunables of the
// reference parser plus the tunables shipped by this repository that define the
// variables aa-log writes (@{bin}, @{lib}, @{att}, @{busname}, @{int*}, ...).
func ce2Base(t *testing.T) string {
	t.Helper()
	base := t.TempDir()
	if out, err := exec.Command("cp", "-r", "/etc/apparmor.d/tunables", "/etc/apparmor.d/abi", base).CombinedOutput(); err != nil {
		t.Skipf("no reference tunables: %v %s", err, out)
	}
	for _, name := range []string{"base", "system"} {
		src := filepath.Join("..", "..", "apparmor.d", "tunables", "multiarch.d", name)
		data, err := os.ReadFile(src)
		if err != nil {
			t.Fatal(err)
		}
		if err := os.WriteFile(filepath.Join(base, "tunables", "multiarch.d", name), data, 0o644); err != nil {
			t.Fatal(err)
		}
	}
	return base
}

// ce2Matches reports whether the AARE pattern matches the plain name, as
// decided by the reference parser.
func ce2Matches(t *testing.T, base, pattern, name string) bool {
	t.Helper()
	idx := strings.LastIndexAny(name, "abcdefghijklmnopqrstuvwxyz0123456789")
	if idx < 0 {
		t.Fatalf("name %q has no plain character", name)
	}
	// the name as a non-exact pattern ([c] for its last plain character), and as it is
	literals := []string{name[:idx] + "[" + name[idx:idx+1] + "]" + name[idx+1:], name}
	for _, lit := range literals {
		profile := fmt.Sprintf("abi <abi/3.0>,\ninclude <tunables/global>\nprofile t {\n  %s px,\n  %s ux,\n}\n", pattern, lit)
		file := filepath.Join(t.TempDir(), "t.aa")
		if err := os.WriteFile(file, []byte(profile), 0o644); err != nil {
			t.Fatal(err)
		}
		cmd := exec.Command(ce2Parser, "-Q", "-K", "-S",
			"--policy-features", "/etc/apparmor.d/abi/3.0", "--kernel-features", "/etc/apparmor.d/abi/3.0",
			"-b", base, file)
		var stderr bytes.Buffer
		cmd.Stderr = &stderr
		err := cmd.Run()
		switch {
		case err == nil: // no overlap with this literal
		case strings.Contains(stderr.String(), "conflicting x modifiers"):
			return true
		default:
			t.Fatalf("parser rejects the generated rule %q: %s", pattern, stderr.String())
		}
	}
	return false
}

// ce2Rules runs the record through the same steps as `aa-log --rules`.
func ce2Rules(line string) aa.Rules {
	res := aa.Rules{}
	for _, p := range New(strings.NewReader(line), "").ParseToProfiles() {
		p.Merge(nil)
		p.Sort()
		p.Format()
		res = append(res, p.Rules...)
	}
	return res
}

func TestCE2_AttAnywhere(t *testing.T) {
	if _, err := os.Stat(ce2Parser); err != nil {
		t.Skip("reference parser not available")
	}
	base := ce2Base(t)

	// sanity of the oracle
	if !ce2Matches(t, base, "/usr/share/att/*/x.png", "/usr/share/att/logo/x.png") ||
		ce2Matches(t, base, "/usr/share/att/*/y.png", "/usr/share/att/logo/x.png") {
		t.Fatal("oracle broken")
	}

	for _, name := range []string{
		"/usr/share/attic/logo/x.png", // control: passes
		"/usr/share/att/logo/x.png",
		"/var/lib/att/db/x",
		"/opt/vendor/att/v2/bin/tool",
	} {
		line := `type=AVC msg=audit(1.1:1): apparmor="DENIED" operation="open" class="file" profile="foo" name="` + name +
			`" pid=1 comm="foo" requested_mask="r" denied_mask="r" fsuid=1000 ouid=0` + "\n"
		covered := false
		got := []string{}
		for _, rule := range ce2Rules(line) {
			file, ok := rule.(*aa.File)
			if !ok {
				continue
			}
			got = append(got, file.String())
			if ce2Matches(t, base, file.Path, name) {
				covered = true
			}
		}
		if !covered {
			t.Errorf("record for %s: no generated file rule matches the recorded name, got %q", name, got)
		}
	}
}
