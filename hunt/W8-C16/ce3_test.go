// Counterexample 3 for property C16 (rules generated from logs cover the logged access).
//
// Drop this file in:  pkg/logs/
// Run (from the worktree root):
//   export GOFLAGS=-mod=mod GOPROXY=off GOSUMDB=off GOTOOLCHAIN=local
//   go test -p 1 -vet=off -count=1 -run TestCE3 ./pkg/logs/
//
// Every kernel record of an AF_UNIX access carries `protocol=0` (see the
// records bundled in tests/testdata/logs/audit.log).  newUnixFromLog copies it
// and templates/rule/unix.j2 prints it:
//   unix bind type=stream protocol=0 addr=@/tmp/.X11-unix/X1,
// The reference parser does not implement that conditional and refuses the
// rule ("unknown rule: 'protocol' conditional is not currently supported"),
// and with it the whole generated profile: the recorded unix access is covered
// by no loadable rule.  Without `protocol=0` the same rule compiles.

package logs

import (
	"bytes"
	"os"
	"os/exec"
	"path/filepath"
	"strings"
	"testing"

	"github.com/roddhjav/apparmor.d/pkg/aa"
)

const ce3Parser = "/usr/sbin/apparmor_parser"

func ce3Compile(t *testing.T, rule string) (bool, string) {
	t.Helper()
	file := filepath.Join(t.TempDir(), "t.aa")
	profile := "abi <abi/3.0>,\ninclude <tunables/global>\nprofile t {\n  " + rule + "\n}\n"
	if err := os.WriteFile(file, []byte(profile), 0o644); err != nil {
		t.Fatal(err)
	}
	cmd := exec.Command(ce3Parser, "-Q", "-K", "-S",
		"--policy-features", "/etc/apparmor.d/abi/3.0", "--kernel-features", "/etc/apparmor.d/abi/3.0", file)
	var stderr bytes.Buffer
	cmd.Stderr = &stderr
	err := cmd.Run()
	return err == nil, strings.TrimSpace(stderr.String())
}

func TestCE3_UnixProtocol(t *testing.T) {
	if _, err := os.Stat(ce3Parser); err != nil {
		t.Skip("reference parser not available")
	}
	if ok, msg := ce3Compile(t, "unix bind type=stream addr=@/tmp/.X11-unix/X1,"); !ok {
		t.Fatalf("control rule rejected: %s", msg)
	}

	records := []string{
		// tests/testdata/logs/audit.log, line 33
		`type=AVC msg=audit(1111111111.111:1111): apparmor="ALLOWED" operation="bind" profile="gnome-shell" pid=2027 comm="gnome-shell" family="unix" sock_type="stream" protocol=0 requested_mask="bind" denied_mask="bind" addr="@/tmp/.X11-unix/X1"`,
		// kernel >= 6.2
		`type=AVC msg=audit(1.1:2): apparmor="DENIED" operation="connect" class="net" profile="foo" pid=1 comm="foo" family="unix" sock_type="stream" protocol=0 requested_mask="send receive connect" denied_mask="send connect" addr=none peer_addr="@/tmp/.X11-unix/X0" peer="xorg"`,
	}
	for _, line := range records {
		found := false
		for _, p := range New(strings.NewReader(line+"\n"), "").ParseToProfiles() {
			p.Merge(nil)
			p.Sort()
			p.Format()
			for _, rule := range p.Rules {
				unix, ok := rule.(*aa.Unix)
				if !ok {
					continue
				}
				found = true
				if ok, msg := ce3Compile(t, unix.String()); !ok {
					t.Errorf("the rule generated for a unix record is refused by the reference parser:\n  %s\n  %s", unix.String(), msg)
				}
			}
		}
		if !found {
			t.Errorf("no unix rule for %s", line)
		}
	}
}
