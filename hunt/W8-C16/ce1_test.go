// Counterexample 1 for property C16 (rules generated from logs cover the logged access).
//
// Drop this file in:  pkg/logs/
// Run (from the worktree root):
//   export GOFLAGS=-mod=mod GOPROXY=off GOSUMDB=off GOTOOLCHAIN=local
//   go test -p 1 -vet=off -count=1 -run TestCE1 ./pkg/logs/
//
// A file record whose name has, right after the home directory, a component
// that another rewrite of regResolveLogs turns into a variable
// (/home/alice/usr/bin/tool, /home/alice/run/foo, /home/alice/proc/x,
// /home/alice/sys/x, /home/alice/usr/lib/..., /run/proc/x, ...) is printed as
// two glued variables: `@{HOME}@{bin}/tool`, `@{HOME}@{run}/foo`.  @{HOME}
// (/home/*/ /root/), @{run}, @{etc_ro}, @{tmp} have values that END in '/',
// the second rewrite swallowed the '/' that separated the components, and the
// reference parser expands the rule to  {/home//*/,/root/}/{,usr/}{,s}bin/tool,
// i.e. /home/*//usr/bin/tool: a pattern with a double slash that matches no
// kernel path at all.  The recorded access is not covered.
//
// The test asks the reference parser (3.0.8) whether the generated pattern
// overlaps the recorded name: two x rules with different modifiers on
// overlapping non-exact patterns make the parser fail with
// "conflicting x modifiers"; no conflict = the pattern does not match the name.

package logs

import (
	"bytes"
	"fmt"
	"os"
	"os/exec"
	"path/filepath"
	"strings"
	"testing"

	"github.com/roddhjav/apparmor.d/pkg/aa"
)

const ce1Parser = "/usr/sbin/apparmor_parser"

// ce1Base builds a parser base directory: the upstream tunables of the
// reference parser plus the tunables shipped by this repository that define the
// variables aa-log writes (@{bin}, @{lib}, @{att}, @{busname}, @{int*}, ...).
func ce1Base(t *testing.T) string {
	t.Helper()
	base := t.TempDir()
	if out, err := exec.Command("cp", "-r", "/etc/apparmor.d/tunables", "/etc/apparmor.d/abi", base).CombinedOutput(); err != nil {
		t.Skipf("no reference tunables: %v %s", err, out)
	}
	for _, name := range []string{"base", "system"} {
		src := filepath.Join("..", "..", "apparmor.d", "tunables", "multiarch.d", name)
		data, err := os.ReadFile(src)
		if err != nil {
			t.Fatal(err)
		}
		if err := os.WriteFile(filepath.Join(base, "tunables", "multiarch.d", name), data, 0o644); err != nil {
			t.Fatal(err)
		}
	}
	return base
}

// ce1Matches reports whether the AARE pattern matches the plain name, as
// decided by the reference parser.
func ce1Matches(t *testing.T, base, pattern, name string) bool {
	t.Helper()
	idx := strings.LastIndexAny(name, "abcdefghijklmnopqrstuvwxyz0123456789")
	if idx < 0 {
		t.Fatalf("name %q has no plain character", name)
	}
	// the name as a non-exact pattern ([c] for its last plain character), and as it is
	literals := []string{name[:idx] + "[" + name[idx:idx+1] + "]" + name[idx+1:], name}
	for _, lit := range literals {
		profile := fmt.Sprintf("abi <abi/3.0>,\ninclude <tunables/global>\nprofile t {\n  %s px,\n  %s ux,\n}\n", pattern, lit)
		file := filepath.Join(t.TempDir(), "t.aa")
		if err := os.WriteFile(file, []byte(profile), 0o644); err != nil {
			t.Fatal(err)
		}
		cmd := exec.Command(ce1Parser, "-Q", "-K", "-S",
			"--policy-features", "/etc/apparmor.d/abi/3.0", "--kernel-features", "/etc/apparmor.d/abi/3.0",
			"-b", base, file)
		var stderr bytes.Buffer
		cmd.Stderr = &stderr
		err := cmd.Run()
		switch {
		case err == nil: // no overlap with this literal
		case strings.Contains(stderr.String(), "conflicting x modifiers"):
			return true
		default:
			t.Fatalf("parser rejects the generated rule %q: %s", pattern, stderr.String())
		}
	}
	return false
}

// ce1Rules runs the record through the same steps as `aa-log --rules`.
func ce1Rules(line string) aa.Rules {
	res := aa.Rules{}
	for _, p := range New(strings.NewReader(line), "").ParseToProfiles() {
		p.Merge(nil)
		p.Sort()
		p.Format()
		res = append(res, p.Rules...)
	}
	return res
}

func TestCE1_GluedVariables(t *testing.T) {
	if _, err := os.Stat(ce1Parser); err != nil {
		t.Skip("reference parser not available")
	}
	base := ce1Base(t)

	// sanity of the oracle
	if !ce1Matches(t, base, "@{HOME}/usr/bin/tool", "/home/alice/usr/bin/tool") ||
		ce1Matches(t, base, "@{HOME}/usr/bin/other", "/home/alice/usr/bin/tool") {
		t.Fatal("oracle broken")
	}

	for _, name := range []string{
		"/home/alice/Documents/usr/bin/tool", // control: passes
		"/home/alice/usr/bin/tool",
		"/home/alice/usr/lib/libx.so.1",
		"/home/alice/run/foo",
		"/home/alice/proc/x",
		"/home/alice/sys/x",
		"/run/proc/x",
	} {
		line := `type=AVC msg=audit(1.1:1): apparmor="DENIED" operation="open" class="file" profile="foo" name="` + name +
			`" pid=1 comm="foo" requested_mask="r" denied_mask="r" fsuid=1000 ouid=1000` + "\n"
		covered := false
		got := []string{}
		for _, rule := range ce1Rules(line) {
			file, ok := rule.(*aa.File)
			if !ok {
				continue
			}
			got = append(got, file.String())
			if ce1Matches(t, base, file.Path, name) {
				covered = true
			}
		}
		if !covered {
			t.Errorf("record for %s: no generated file rule matches the recorded name, got %q", name, got)
		}
	}
}
