#!/usr/bin/env bash
# Counterexample 3 for property C19 -- a flags manifest entry that names no profile
# file: dists/flags/debian.flags:15 `dpkg-status complain` (the profile file is
# apparmor.d/profiles-m-r/needrestart-dpkg-status, profile needrestart-dpkg-status).
#
# Directory: run from the worktree root (no file to drop in the tree).
# Command:   bash .seed/ce3.sh
#
# Part 1 (static): every name of dists/flags/*.flags must be the base name of a
# profile file of the source tree (that is the only way prepare/flags.go finds it).
# Part 2 (real code): the Debian build reports the entry as not found and ships
# needrestart-dpkg-status without the complain flag.
# FAILS on the unmodified tree (exit status 1).
set -u
export GOFLAGS=-mod=mod GOPROXY=off GOSUMDB=off GOTOOLCHAIN=local GOCACHE=/tmp/gocache-$(basename "$PWD")

rc=0
for manifest in dists/flags/*.flags; do
    while read -r name _; do
        case "$name" in ''|'#'*) continue ;; esac
        if [ -z "$(find apparmor.d/groups apparmor.d/profiles-*-* -maxdepth 2 -type f -name "$name" -print -quit)" ]; then
            echo "FAIL $manifest: '$name' is not the file name of any shipped profile"
            rc=1
        fi
    done <"$manifest"
done

log=$(DISTRIBUTION=debian go run ./cmd/prebuild --abi 4 --version 4.0 2>&1) || { echo "$log"; exit 2; }
git checkout -q debian/apparmor.d.hide 2>/dev/null
if grep -qF "Profile dpkg-status not found" <<<"$log"; then
    echo "FAIL build log: $(grep -F 'Profile dpkg-status not found' <<<"$log")"
    echo "     built: $(grep -E '^profile ' .build/apparmor.d/needrestart-dpkg-status)"
    rc=1
fi
[ $rc -eq 0 ] && echo "PASS"
exit $rc
