#!/usr/bin/env bash
# Counterexample 2 for property C19 -- the profiles of group apparmor.d/groups/_full
# are never found by the flags manifest (dists/flags/main.flags) in a --full build.
#
# Directory: run from the worktree root (no file to drop in the tree).
# Command:   bash .seed/ce2.sh
#
# It runs the real build tool (`prebuild --full`) and requires that every profile
# of group _full named in dists/flags/main.flags carries, in the built file, the
# flags the manifest gives it. FAILS on the unmodified tree: exit status 1, e.g.
#   default: manifest flags=(attach_disconnected,mediate_deleted,complain)
#            built    profile default /** flags=(attach_disconnected,mediate_deleted) {
set -u
export GOFLAGS=-mod=mod GOPROXY=off GOSUMDB=off GOTOOLCHAIN=local GOCACHE=/tmp/gocache-$(basename "$PWD")

log=$(DISTRIBUTION=arch go run ./cmd/prebuild --abi 4 --version 4.0 --full 2>&1) || { echo "$log"; exit 2; }
git checkout -q debian/apparmor.d.hide 2>/dev/null

rc=0
for file in apparmor.d/groups/_full/*; do
    name=$(basename "$file")
    want=$(grep -E "^$name " dists/flags/main.flags | cut -d' ' -f2)
    [ -z "$want" ] && continue
    header=$(grep -E "^profile $name " ".build/apparmor.d/$name")
    if ! grep -qF "flags=($want)" <<<"$header"; then
        echo "FAIL $name: manifest flags=($want)"
        echo "     built:    $header"
        grep -F "Profile $name not found" <<<"$log" | sed 's/^/     log:   /'
        rc=1
    fi
done
[ $rc -eq 0 ] && echo "PASS: every _full profile carries its manifest flags"
exit $rc
