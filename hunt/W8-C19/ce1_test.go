// Counterexample 1 for property C19 -- shipped profile files that define more
// than one top-level profile (apparmor.d/profiles-a-f/atril, apparmor.d/profiles-m-r/man).
//
// Drop this file in:  pkg/prebuild/builder/
// Run (from the worktree root):
//   export GOFLAGS=-mod=mod GOPROXY=off GOSUMDB=off GOTOOLCHAIN=local GOCACHE=/tmp/gocache-$(basename $PWD)
//   go test -p 1 -vet=off -count=1 -run TestCE1 ./pkg/prebuild/builder/
//
// It reads every shipped profile file, passes it through the real attachment
// resolver (builder "userspace", the first builder of every build) and requires
// that every top-level profile of the built file
//   - is named after the file (what flags.go / exec.go / stack.go look up), and
//   - has no AppArmor variable left in its header (what the resolver is for).
// FAILS on the unmodified tree for atril (second profile `@{bin}/atril-previewer`,
// left unresolved in every build) and man (`man_groff`, `man_filter`).

package builder

import (
	"path/filepath"
	"regexp"
	"strings"
	"testing"

	"github.com/roddhjav/apparmor.d/pkg/paths"
)

func TestCE1_OneProfilePerFileNamedAfterTheFile(t *testing.T) {
	regTop := regexp.MustCompile(`(?m)^[^#\s][^\n]*{[\t ]*$`) // a block opened at column 0
	root := "../../../apparmor.d/"
	files := []string{}
	for _, pattern := range []string{"groups/*/*", "profiles-*-*/*"} {
		m, err := filepath.Glob(root + pattern)
		if err != nil {
			t.Fatal(err)
		}
		files = append(files, m...)
	}
	if len(files) < 1500 {
		t.Fatalf("only %d profile files found", len(files))
	}

	for _, file := range files {
		path := paths.New(file)
		if path.IsDir() {
			continue
		}
		opt := NewOption(path)
		built, err := Builders["userspace"].Apply(opt, path.MustReadFileAsString())
		if err != nil {
			t.Errorf("%s: %v", file, err)
			continue
		}
		headers := regTop.FindAllString(built, -1)
		if len(headers) != 1 {
			t.Errorf("%s: %d top-level profiles in one file: %q", file, len(headers), headers)
		}
		for _, header := range headers {
			if !strings.HasPrefix(header, "profile "+opt.Name+" ") {
				t.Errorf("%s: top-level profile not named after the file: %q", file, header)
			}
			if strings.Contains(header, "@{") {
				t.Errorf("%s: variable left in the header of the built profile: %q", file, header)
			}
		}
	}
}
