"""C13 -- variable resolution is plain substitution and keeps the rest of the preamble.

Alphabet : 18 preamble lines (+2 once Resolve survives a two-variable cycle) (comment, abi, include, alias, definitions with =, appends with +=, nested and
           repeated references (also the same multi-valued variable twice in one value), // in values, a self-reference, an undefined reference, a second definition, two different references in one value where the right one refers to the left one again, variable names that are prefixes of one another)
Bound    : every sequence of distinct lines of length <= 6 (thorough) / <= 5 (quick), followed by
           `profile p @{exec_path} {`: 2.2 million / 267 thousand files
Oracle   : a naive reference expander (fold += into the definition, substitute recursively, all
           combinations), itself conformance-checked against `apparmor_parser -D expanded-variables` on every
           sequence of length <= 4 (quick <= 3): values as sets with // collapsed, and the parser's
           accept / "undefined" / "recursively" / "previously declared" verdicts.
Built-in : files of <= 3 lines over a 7-line alphabet (definitions of @{exec_path} from built-in variables, appends to
           built-in variables) resolved on aa.DefaultTunables() as builder.Userspace does, every in-process history of
           <= 2 (thorough 3) files: each result must equal the reference expansion over the built-in table as it was at
           process start plus the file's own lines (no carried state).
Real code: aa.Parse + Resolve in-process (engine/gox/cmd/c13x), sharded over processes by first line.
"""
import json, os, re, subprocess, tempfile
from concurrent.futures import ThreadPoolExecutor
from .. import common as C, gox

PROP = 'C13'


def parser_verdict(lines, tmpdir, raw=False):
    text = '\n'.join(lines) + '\nprofile p @{exec_path} {\n}\n'
    with tempfile.NamedTemporaryFile('w', suffix='.aa', delete=False, dir=tmpdir) as f:
        f.write(text); n = f.name
    try:
        r = subprocess.run([C.PARSER, '-Q', '-K', '-b', C.UPSTREAM, '-D', 'expanded-variables', '-d', n], capture_output=True, text=True)
    finally:
        os.unlink(n)
    out = r.stdout + r.stderr
    found = set()
    if 'not previously declared' in out:
        found.add('append-before-def')
    if re.search(r'was previously declared|already defined', out):
        found.add('dup')
    if 'referenced recursively' in out:
        found.add('self')
    if 'undefined variable' in out or 'but is never declared' in out:
        found.add('undef')
    if found:
        return found, {}
    vals = {}
    for m in re.finditer(r'^@(\w+) = (.*)$', out, re.M):
        vs = re.findall(r'"([^"]*)"', m.group(2))
        vals[m.group(1)] = sorted(set(vs)) if raw else sorted({re.sub(r'/+', '/', v) for v in vs})
    if r.returncode != 0:
        return {'error:' + out.strip().split('\n')[-1][:100]}, vals
    return set(), vals


def run(tier):
    ev = C.Evidence(PROP, tier); fnd = C.Findings(PROP)
    bins = gox.build(os.path.join(C.scratch(), 'gox'), ['c13x'])
    L = 6 if tier == 'thorough' else 5
    LC = 4 if tier == 'thorough' else 3
    # a cycle through two variables (@{p} = @{q}/1, @{q} = @{p}/2): first in a process of its own with a small stack and an
    # address-space limit -- a stack overflow or memory exhaustion is fatal in Go and would take the explorer with it
    import resource

    def limits():
        resource.setrlimit(resource.RLIMIT_AS, (6 << 30, 6 << 30))
    cyc = ['-cycles']
    LAYOUTS = [('cycle', ['@{p} = @{q}/1', '@{q} = @{p}/2']), ('outsider-first', ['@{o} = @{p}/0', '@{p} = @{q}/1', '@{q} = @{p}/2']),
               ('outsider-first-closed-by-append', ['@{o} = @{q}/0', '@{p} = /x', '@{q} = @{p}/2', '@{p} += @{q}/3'])]
    for li, (lname, llines) in enumerate(LAYOUTS):
        pr = subprocess.run([bins['c13x'], '-probe-cycle', '-layout', str(li)], capture_output=True, text=True, preexec_fn=limits, timeout=600)
        tag = '' if li == 0 else ' layout=' + lname
        if pr.returncode == 0 and pr.stdout.startswith('error:'):
            continue
        cyc = []          # Resolve does not survive every layout: the cycle lines stay out of the exhaustive part
        if pr.returncode == 0:
            fnd.report('missing-error class=self cause=indirect-cycle' + tag, 'Resolve says `%s` for a preamble whose variables refer to each other (%s)' % (pr.stdout.strip(), ' ; '.join(llines)),
                       {'preamble_lines': llines + ['@{exec_path} = /bin/e']})
        else:
            last = [l for l in pr.stderr.split('\n') if 'fatal error' in l or 'exceeds' in l or 'out of memory' in l][:2]
            fnd.report('crash class=self cause=indirect-cycle' + tag, 'Resolve does not return on a preamble whose variables refer to each other (%s): the process dies (exit %d: %s)' % (' ; '.join(llines), pr.returncode, ' / '.join(last) or pr.stderr[-200:]),
                       {'preamble_lines': llines + ['@{exec_path} = /bin/e']})
    of = 18 + (3 if cyc else 0)
    pool = ThreadPoolExecutor(C.NPROC)

    def shard(i):
        r = subprocess.run([bins['c13x'], '-len', str(L), '-shard', str(i), '-of', str(of)] + cyc, capture_output=True, text=True)
        if r.returncode != 0:
            raise SystemExit('HARNESS ERROR: c13x shard %d: %s' % (i, r.stderr[-1000:]))
        return json.loads(r.stdout)
    res = list(pool.map(shard, range(of)))
    total = 0; classes = {}
    for j in res:
        total += j['sequences']
        for k, v in j['classes'].items():
            classes[k] = classes.get(k, 0) + v
        for v in j['violations']:
            fnd.report(v['sig'], v['what'] + ' -- e.g. ' + ' ; '.join(v['input']), {'preamble_lines': v['input']})
    # files resolved on top of the built-in table (the way the userspace builder and the exec directive call Resolve),
    # every history of <= 2 (thorough 3) files in one process
    depth = 3 if tier == 'thorough' else 2
    r = subprocess.run([bins['c13x'], '-tunables', str(depth)], capture_output=True, text=True)
    if r.returncode != 0:
        raise SystemExit('HARNESS ERROR: c13x -tunables: ' + r.stderr[-1000:])
    tj = json.loads(r.stdout)
    for v in tj['violations']:
        fnd.report(v['sig'], v['what'] + ' -- history: ' + ' || '.join(v['input']), {'history': v['input']})
    ev.add(builtin_table_histories=tj['sequences'], builtin_table_files=tj['files'], builtin_table_history_depth=depth)
    # extras: spellings judged by the reference parser directly (quoted values, labels with //, trailing comments)
    xr = subprocess.run([bins['c13x'], '-extras', '-len', '4' if tier == 'thorough' else '3'], capture_output=True, text=True)
    if xr.returncode != 0:
        raise SystemExit('HARNESS ERROR: c13x -extras: ' + xr.stderr[-1000:])
    xcases = [json.loads(l) for l in xr.stdout.split('\n') if l.startswith('{"')]       # Parse prints 'Unknown rule' lines on stdout
    tmpdir = os.path.join(C.scratch(), 'c13'); os.makedirs(tmpdir, exist_ok=True)
    xver = list(pool.map(lambda c: parser_verdict(c['lines'], tmpdir, raw=True), xcases))

    def norm(vs):
        out = set()
        for v in vs:
            if len(v) >= 2 and v[0] == '"' and v[-1] == '"':
                v = v[1:-1]                                   # the quotes delimit the value
            out.add(re.sub(r'/+', '/', v) if v.startswith('/') else v)     # // only folds in a path
        return sorted(out)
    xok = 0
    for c, (cls0, vals) in zip(xcases, xver):
        other = any(k.startswith('error:') for k in cls0)
        cls = {k for k in cls0 if not k.startswith('error:')}
        ex = {'preamble_lines': c['lines']}
        eg = ' -- e.g. ' + ' ; '.join(c['lines'])
        if 'append-before-def' in cls:
            continue
        if c.get('panic'):
            fnd.report('extras-panic', 'Parse+Resolve panics on a preamble the reference parser reads: ' + c['panic'][:160] + eg, ex); continue
        if not c.get('perr'):
            # what Parse makes of the non-variable lines does not depend on the variables
            cnt = {}
            for r in c.get('before') or []:
                cnt[r.split('|', 1)[0]] = cnt.get(r.split('|', 1)[0], 0) + 1
            bad = [k for k, n in c['kinds'].items() if cnt.get(k, 0) != n]
            if bad:
                fnd.report('extras-preamble-rule-not-parsed kind=' + bad[0], 'input has %d %s line(s), the parsed preamble has %d' % (c['kinds'][bad[0]], bad[0], cnt.get(bad[0], 0)) + eg, ex); continue
        if cls:
            if not c.get('rerr') and not c.get('perr'):
                fnd.report('extras-missing-error class=' + '+'.join(sorted(cls)), 'the reference parser reports %s, Resolve returns no error' % sorted(cls) + eg, ex)
            continue
        if other:
            continue                                            # rejected for a reason outside the three classes: not judged
        xok += 1
        if c.get('perr') or c.get('rerr'):
            fnd.report('extras-spurious-error', 'Parse/Resolve fails on a preamble the reference parser expands: ' + str(c.get('perr') or c.get('rerr'))[:160] + eg, ex); continue
        if c.get('before') != c.get('after'):
            fnd.report('extras-preamble-rule-lost-or-altered', 'non-variable preamble rules before Resolve %s, after %s' % (c.get('before'), c.get('after')) + eg, ex); continue
        for name, want in vals.items():
            got = norm(c['vars'].get(name, []))
            if got != norm(want):
                kind = 'quoted' if any('"' in l for l in c['lines'] if l.startswith('@{')) and any('"' in v for v in c['vars'].get(name, [])) else 'plain'
                fnd.report('extras-wrong-values var=%s kind=%s' % (name, kind), '@{%s} resolves to %s, apparmor_parser expands it to %s' % (name, c['vars'].get(name), want) + eg, ex); break
        else:
            if norm(c.get('att') or []) != norm(vals.get('exec_path', [])):
                fnd.report('extras-wrong-attachment', 'attachment resolves to %s, apparmor_parser expands @{exec_path} to %s' % (c.get('att'), vals.get('exec_path')) + eg, ex)
    ev.add(extras_sequences=len(xcases), extras_expanded_by_the_reference_parser=xok)
    # conformance of the reference expander with the reference parser
    dump = subprocess.run([bins['c13x'], '-len', str(LC), '-dump'] + cyc, capture_output=True, text=True)
    cases = [json.loads(l) for l in dump.stdout.split('\n') if l.strip()]
    verdicts = list(pool.map(lambda c: parser_verdict(c['lines'], tmpdir), cases))
    disagree = 0
    for c, (cls, vals) in zip(cases, verdicts):
        model = set(c['all'] or [])
        # the parser stops at the first fatal problem: what it reports must be among the model's classes
        same = (not cls and not model and vals == (c['values'] or {})) or (bool(cls) and cls <= model)
        if not same:
            disagree += 1
            if disagree <= 5:
                print('MODEL ERROR: reference expander and apparmor_parser disagree on %s: model %s %s, parser %s %s' % (c['lines'], c['class'], c['values'], cls, vals))
    if disagree:
        print('HARNESS ERROR: the reference model does not conform to apparmor_parser on %d of %d preambles (fix the harness; not a verdict)' % (disagree, len(cases)))
        return 2
    pool.shutdown()
    ev.sample({'preamble': res[4]['alphabet'][4:9], 'reference_class': 'ok'})
    ev.sample({'classes_of_explored_preambles': classes})
    ev.add(states=total + tj['sequences'], transitions=total + tj['sequences'], traces_validated_against_impl=len(cases) + len(xcases), sequences=total, max_lines=L,
           reference_succeeds_on=classes.get('ok', 0), excluded_append_before_definition=classes.get('append-before-def', 0),
           conformance_cases_vs_apparmor_parser=len(cases), alphabet=res[0]['alphabet'])
    ev.add(rule='state = one preamble (sequence of distinct alphabet lines) pushed through the real Parse+Resolve; traces_validated = preambles on which the reference expander was compared with apparmor_parser -D expanded-variables')
    ev.assume('values compared as sets with // collapsed on both sides', 'layouts the reference parser rejects for another reason (+= before the definition) are excluded, not judged',
              'includes are not resolved by Resolve (the code path is commented out in the repo); the include line only has to survive')
    return C.conclude(ev, fnd)


def replay(path):
    return C.replay_by_rerun(PROP, path)
