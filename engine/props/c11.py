"""C11 -- rule ordering is a consistent total preorder, so sorting is canonical.

Per kind (19 kinds) and for a mixed-kind universe: the n x n sign matrix is filled by n^2 calls of the real
Compare (mixed: two-element Rules.Sort runs), then ALL ordered pairs and triples are checked on the matrix
(antisymmetry, transitivity, equal => identical fields); all permutations of all k-subsets (k <= 4 quick,
<= 5 thorough) of a 12-rule universe go through the real Rules.Sort (canonical text, idempotence).
Universe: engine/gox/universe (quick: 704 file rules ... ; thorough: 12 464 file rules = 1.9e12 triples).
"""
import json, os, subprocess
from concurrent.futures import ThreadPoolExecutor
from .. import common as C, gox

PROP = 'C11'
KINDS = ['file', 'link', 'capability', 'network', 'mount', 'remount', 'umount', 'pivot_root', 'change_profile', 'signal', 'ptrace',
         'unix', 'dbus', 'rlimit', 'userns', 'mqueue', 'io_uring', 'all', 'include', 'mixed', 'twins']


def run(tier):
    ev = C.Evidence(PROP, tier); fnd = C.Findings(PROP)
    bins = gox.build(os.path.join(C.scratch(), 'gox'), ['c11x'])
    t = '1' if tier == 'thorough' else '0'

    def one(k):
        r = subprocess.run([bins['c11x'], '-kind', k, '-tier', t], capture_output=True, text=True)
        if r.returncode != 0:
            raise SystemExit('HARNESS ERROR: c11x %s: %s' % (k, r.stderr[-1500:]))
        return json.loads(r.stdout)
    with ThreadPoolExecutor(C.NPROC) as pool:
        res = list(pool.map(one, KINDS))
    for j in res:
        ev.add(states=j['n'], transitions=j['pairs'] + j['lists'], ordered_triples_checked=j['triples'], lists_sorted=j['lists'])
        ev.sample({'kind': j['kind'], 'universe': j['n'], 'pairs': j['pairs'], 'triples': j['triples'], 'e.g.': j.get('sample')}, cap=20)
        for v in j['violations']:
            fnd.report(v['sig'], '%s (x%d): %s' % (v['what'], v['count'], ' | '.join(v['input'])), {'kind': j['kind'], 'rules': v['input']})
    ev.add(traces_validated_against_impl=ev.cov['transitions'])
    ev.add(rule='state = one rule of the universe; transition = one call of the real Compare on an ordered pair, or one Rules.Sort of a permuted list; triples are checked on the sign matrix')
    ev.assume('inside the per-kind universes comments are exempt from "equal only if identical" (the `twins` part judges a rule against itself with a trailing comment or marker separately); explicit allow == no access type',
              'class signatures carry a machine-checked predicate (e.g. the intransitive triple mixes paths with and without a documented sort prefix): a triple outside the predicate is a new violation')
    return C.conclude(ev, fnd)


def replay(path):
    return C.replay_by_rerun(PROP, path)
