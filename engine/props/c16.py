"""C16 -- rules generated from logs cover the logged access.

Records : every file operation x 13 masks (incl. ac, rac, wa) x 3 uid relations x 2 qualifiers over a name alphabet (home, system,
          /proc, /sys, /run, udev, pci, uuid/hex/number-bearing, case twins; 49 names quick, 81 thorough), names ending in / containing a digit or hex
          run of every length 1..40 (thorough 1..100; ascending digits, one repeated digit, mixed hex), exec and
          link with targets, 27 records of the other classes, and pairs that differ in exactly one aspect.
Pipeline: the real logs.New -> ParseToProfiles -> Merge/Sort/Format -> String (engine/gox/cmd/c16x), as
          `aa-log --rules` runs it.
Oracle  : the emitted rule text is compiled by the reference parser over the tunables shipped with the policy
          (a real build tree) and the *recorded* name is walked on the compiled file DFA (E4 membership): the
          state reached must carry the requested permission (owner bits when fsuid == ouid, other bits
          otherwise); `owner` only when fsuid == ouid; for the other classes the recorded attributes must appear
          in a rule of the right kind and qualifier (independent tokenizer). In pair cases every record of the
          pair must still be covered after merging.
"""
import json, os, re, subprocess
from concurrent.futures import ProcessPoolExecutor
from .. import common as C, gox, cfgx, refparser, dfax, scan

PROP = 'C16'
# permission bits of the file DFA (user set; the "other" set is shifted by 14 (read off compiled one-letter rules))
BITS = {'x': 0x1, 'w': 0x2, 'r': 0x4, 'a': 0x8, 'l': 0x10, 'k': 0x20, 'm': 0x40}
NEED = {'r': ['r'], 'w': ['w'], 'a': ['a'], 'c': ['w'], 'd': ['w'], 'k': ['k'], 'm': ['m'], 'x': ['x'], 'l': ['l']}


def body_of(text):
    i = text.index('{'); j = text.rindex('}')
    return text[i + 1:j]


def _file_case(a):
    case, base = a
    out = []
    for pname, text in case['out'].items():
        stub = 'abi <abi/4.0>,\ninclude <tunables/global>\nprofile stub {\n%s\n}\n' % body_of(text)
        b, err = dfax.compile_text(stub, base)
        if b is None:
            return [('rejected', err, None)]
        d = dfax.profiles(b)[0].file
        for r in case['records']:
            f = r['fields']
            if r['class'] != 'file' or (f.get('profile') or f.get('label')) != pname:
                continue
            name = f['name'].encode()
            if 'disconnected path' in f.get('info', '') and not name.startswith(b'/'):
                name = b'/' + name          # attached to the root by the flag the same record sets
            if 'l' in f.get('requested_mask', '') and f.get('target'):
                name += b'\x00' + f['target'].encode()        # a link pair: the compiled policy matches `name NUL target`
            st = d.match(name) if d is not None else 0
            acc = d.accept[st] if st else 0
            owner_access = f.get('fsuid') == f.get('ouid')
            perms = acc & 0x7f if owner_access else (acc >> 14) & 0x7f
            missing = []
            for letter in f['requested_mask']:
                for need in NEED.get(letter, []):
                    if not perms & BITS[need]:
                        missing.append(letter)
            out.append(('covered' if not missing else 'not-covered', ''.join(sorted(set(missing))), r))
    # a record whose profile got no block at all was dropped on the way: nothing covers it
    for r in case['records']:
        if r['class'] == 'file' and (r['fields'].get('profile') or r['fields'].get('label')) not in case['out']:
            out.append(('not-covered', r['fields'].get('requested_mask', ''), r))
    return out


def other_class(case, fnd, ev):
    """recorded attributes appear in a rule of the right kind and qualifier"""
    n = 0
    for r in case['records']:
        if r['class'] == 'file':
            continue
        f = r['fields']
        pname = f.get('label') if 'dbus' in f.get('operation', '') else f.get('profile')
        text = case['out'].get(pname, '')
        rules = [scan.classify(x.raw) for x in scan.rules(body_of(text))] if text else []
        kind = {'cap': 'capability', 'net': 'network', 'unix': 'unix', 'signal': 'signal', 'ptrace': 'ptrace', 'dbus': 'dbus', 'mount': 'mount', 'remount': 'remount',
                'umount': 'umount', 'pivotroot': 'pivot_root', 'mqueue': 'mqueue', 'io_uring': 'io_uring', 'userns': 'userns', 'rlimit': 'set', 'change_onexec': 'change_profile',
                'change_profile': 'change_profile', 'rlimit-nice': 'set', 'rlimit-two': 'set'}[r['class']]
        want = {'cap': ['capname'], 'net': ['family', 'sock_type'], 'unix': ['sock_type', 'addr', 'peer_addr', 'peer'], 'signal': ['signal', 'peer', 'requested_mask'],
                'ptrace': ['peer', 'requested_mask'], 'dbus': ['bus', 'path', 'interface', 'member', 'mask', 'peer_label'], 'mount': ['fstype', 'srcname', 'name'],
                'remount': ['name'], 'umount': ['name'], 'pivotroot': ['name', 'srcname'], 'mqueue': ['name'], 'io_uring': ['requested'], 'userns': [], 'rlimit': ['rlimit', 'value'],
                'change_onexec': ['target'], 'change_profile': ['name'], 'rlimit-nice': ['rlimit'], 'rlimit-two': ['rlimit']}[r['class']]
        audit = f.get('apparmor') == 'AUDIT'
        ok = False
        for c in rules:
            if c['kind'] != kind or ('audit' in c['quals']) != audit or 'deny' in c['quals']:
                continue
            flat = ' '.join(c['tokens'])
            # list-valued attributes are compared item by item; a path is one value, written bare or between quotes
            vals = [v for k in want if f.get(k) for v in ([f[k]] if k in ('name', 'srcname', 'target') else f[k].split())]
            if r['class'] == 'dbus' and f.get('name') and f['mask'] != 'bind':
                pass        # the peer name may legitimately be generalised (:1.42 -> @{busname})
            if r['class'] == 'rlimit-two':
                # the LAST rule of the resource is the one AppArmor keeps: it must allow this request
                last = [x for x in rules if x['kind'] == 'set' and f['rlimit'] in x['tokens']][-1]
                m = re.search(r'<=\s*(\d+)', ' '.join(last['tokens']))
                if not (m and int(m.group(1)) >= int(f['value'])):
                    continue
            if r['class'] == 'rlimit-nice':
                # the rule must allow the recorded request: AppArmor reads `nice <= n` as the kernel value n + 20
                m = re.search(r'<=\s*(-?\d+)', flat)
                if not (m and -20 <= int(m.group(1)) <= 19 and int(m.group(1)) + 20 >= int(f['value'])):
                    continue
            if all(re.search(r'(^|[\s=(,"])%s($|[\s,)"])' % re.escape(v), flat) for v in vals):
                ok = True
        n += 1
        if not ok:
            fnd.report('not-covered class=%s' % r['class'], 'no %s rule with the recorded attributes %s under profile %s: emitted %r' % (kind, {k: f.get(k) for k in want}, pname, text),
                       {'record': r['line'], 'rules': text})
    return n


def run(tier):
    ev = C.Evidence(PROP, tier); fnd = C.Findings(PROP)
    bins = gox.build(os.path.join(C.scratch(), 'gox'), ['c16x'])
    r = subprocess.run([bins['c16x'], '-tier', '1' if tier == 'thorough' else '0'], capture_output=True, text=True)
    if r.returncode != 0:
        raise SystemExit('HARNESS ERROR: c16x: ' + r.stderr[-1500:])
    cases = [json.loads(l) for l in r.stdout.split('\n') if l.startswith('{')]
    cfg = cfgx.Cfg('arch', 4, '4.1', 'none', False)
    ex = cfgx.Explorer(jobs=2)
    try:
        tree = ex.build_all([cfg])[cfg]
    finally:
        ex.close()
    base = os.path.join(C.scratch(), 'c16base')
    refparser.make_base(base, tree, ex.cas, cfg)
    fcases = [c for c in cases if any(x['class'] == 'file' for x in c['records'])]
    with ProcessPoolExecutor(C.NPROC) as pool:
        res = list(pool.map(_file_case, [(c, base) for c in fcases], chunksize=8))
    nrec = 0
    for c, out in zip(fcases, res):
        if c.get('err'):
            fnd.report('pipeline-fails', 'the log-to-rules pipeline fails: %s on %s' % (c['err'], [x['line'] for x in c['records']]), {'case': c['id']})
            continue
        texts = ' | '.join(c['out'].values())
        for verdict, detail, rec in out:
            if verdict == 'rejected':
                cause = 'other'
                names = [x['fields'].get('name', '') for x in c['records']]
                if any(' ' in n for n in names):
                    cause = 'unquoted-blank-in-path'
                elif any(x['fields'].get('operation') == 'exec' for x in c['records']):
                    cause = 'exec-mode-with-target'
                fnd.report('rule-rejected cause=%s' % cause, 'apparmor_parser rejects the emitted rules (%s): %s' % (detail, texts), {'records': [x['line'] for x in c['records']], 'rules': texts})
                continue
            nrec += 1
            f = rec['fields']
            if verdict == 'not-covered':
                pattern = [l.strip() for l in texts.split('\n') if l.strip() and not l.strip().startswith('profile') and l.strip() != '}']
                gen = ','.join(sorted(set(re.findall(r'@\{[a-z0-9_A-Z]+\}', ' '.join(pattern)))))
                fnd.report('name-not-covered name=%s mask=%s' % (f['name'], detail), 'recorded name %s (mask %s, fsuid=%s ouid=%s) is not matched with that permission by the emitted rules %s' % (
                    f['name'], f['requested_mask'], f.get('fsuid'), f.get('ouid'), pattern), {'record': rec['line'], 'rules': texts, 'generalised_with': gen})
            has_owner = any(re.match(r'^\s*(audit\s+)?owner\b', l) for l in texts.split('\n'))
            if len(c['records']) == 1 and has_owner and f.get('fsuid') != f.get('ouid'):
                fnd.report('owner-set-for-foreign-file', 'rule carries `owner` although fsuid=%s differs from ouid=%s: %s' % (f.get('fsuid'), f.get('ouid'), texts), {'record': rec['line']})
            if len(c['records']) == 1 and (f.get('apparmor') == 'AUDIT') != ('audit ' in texts):
                fnd.report('qualifier-wrong', 'record state %s but rules %s' % (f.get('apparmor'), texts), {'record': rec['line']})
        ev.sample({'record': c['records'][0]['line'][40:], 'rules': list(c['out'].values())}, cap=5)
    nother = 0
    for c in cases:
        if c.get('err') and c not in fcases:
            fnd.report('pipeline-fails', 'the log-to-rules pipeline fails: %s on %s' % (c['err'], [x['line'] for x in c['records']]), {'case': c['id']})
            continue
        nother += other_class(c, fnd, ev)
    ev.add(states=len(cases), transitions=nrec + nother, traces_validated_against_impl=nrec + nother, file_records_walked_on_compiled_dfa=nrec, other_class_records=nother, cases=len(cases))
    ev.add(rule='state = one log file of 1-2 records pushed through the real pipeline; transition = one recorded access checked against the emitted rules (file: membership walk on the DFA the reference parser compiles from the rule text)')
    ev.assume('tunables: the build tree arch/ABI4/4.1 over the upstream tunables; /att/<profile>/ names (re-attached disconnected paths, folded into @{att} on purpose) are left out of the alphabet',
              'create (c) and delete (d) requests are covered by w, as AppArmor grants them; owner is checked in the "only when" direction')
    return C.conclude(ev, fnd)


def replay(path):
    return C.replay_by_rerun(PROP, path)
