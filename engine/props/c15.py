"""C15 -- aa-log reports each record's own field values, faithfully decoded.

Every record built from: 19 names x 7 comm values x 4 profile values, in each of the three carriers (audit, syslog,
journald JSON), (plain, blank, '=', '#', ',', UTF-8,
double quote, hex-looking plain text, key-like text), spelled the way the kernel spells them (quoted, or bare
upper-case hex for untrusted strings), all 24 orders of the core fields for the plain values, all 32 subsets of
five optional field groups; each also preceded by two malformed records (odd number of quotes, truncated);
user-space (dbus-daemon) spelling with quoted blanks. Oracle: the map logs.New returns equals the construction
map on every key. Real code in-process (engine/gox/cmd/c14x -mode c15).
"""
import json, os, subprocess
from .. import common as C, gox

PROP = 'C15'


def run(tier):
    ev = C.Evidence(PROP, tier); fnd = C.Findings(PROP)
    bins = gox.build(os.path.join(C.scratch(), 'gox'), ['c14x'])
    from concurrent.futures import ThreadPoolExecutor
    S = 16

    def shard(i):
        r = subprocess.run([bins['c14x'], '-mode', 'c15', '-shard', str(i), '-of', str(S)], capture_output=True, text=True, env=dict(os.environ, TMPDIR=C.scratch()))
        if r.returncode != 0:
            raise SystemExit('HARNESS ERROR: c14x c15: ' + r.stderr[-1500:])
        return json.loads(r.stdout.strip().split('\n')[-1])
    with ThreadPoolExecutor(C.NPROC) as pool:
        res = list(pool.map(shard, range(S)))
    j = {'n': sum(x['n'] for x in res), 'violations': []}
    seen = {}
    for x in res:
        for v in x['violations']:
            if v['sig'] in seen:
                seen[v['sig']]['count'] += v['count']
            else:
                seen[v['sig']] = v; j['violations'].append(v)
    j['violations'].sort(key=lambda v: v['sig'])
    for v in j['violations']:
        fnd.report(v['sig'], '%s (x%d): %s' % (v['what'], v['count'], ' | '.join(v['input'])), {'record': v['input']})
    ev.add(states=j['n'], transitions=j['n'], traces_validated_against_impl=j['n'], records=j['n'])
    ev.sample({'record': 'apparmor="DENIED" operation="open" pid=4242 profile=666F6F20626172 name=2F7372762F6120622 comm="my prog" ...', 'expected': {'profile': 'foo bar', 'name': '/srv/a b'}})
    ev.add(rule='state = one record spelling; transition = one logs.New on it; every key of the returned map is compared with the construction map')
    ev.assume('names are chosen outside the documented path generalisation (that is C16)', 'kernel spelling: audit_log_untrustedstring for name, comm, profile, srcname, target')
    return C.conclude(ev, fnd)


def replay(path):
    return C.replay_by_rerun(PROP, path)
