"""C12 -- what the library prints means the same to the real AppArmor parser.

Every rule of the AppArmor-3 universes (14 kinds) and every merged+sorted+formatted pair of a mixed universe
is rendered twice: by the library (real templates) and by an independent reference printer (engine/gox/cmd/
c12x, canonical spelling from apparmor.d(5)). Both texts are compiled by apparmor_parser 3.0.8 inside a stub
profile and the compiled policies compared by exhaustive exploration of the DFA products plus all non-DFA
fields (E4 policy_equiv): acceptance and meaning in one step. The reference printer is validated by requiring
that rules with different fields compile to different policies (count reported).
"""
import json, os, subprocess
from concurrent.futures import ProcessPoolExecutor
from .. import common as C, gox, dfax

PROP = 'C12'
PRE = ('abi <abi/3.0>,\n@{exec_path}=/usr/bin/stub\n@{sh_path}=/bin/sh\n@{coreutils_path}=/bin/ls\n@{open_path}=/bin/open\n@{bin}=/{,usr/}bin\n@{lib}=/{,usr/}lib\n'
       '@{HOME}=/home/*/ /root/\n@{user_cache_dirs}=@{HOME}/.cache\n@{user_config_dirs}=@{HOME}/.config\n@{user_share_dirs}=@{HOME}/.local/share\n@{tmp}=/tmp/user\n'
       '@{run}=/run/ /var/run/\n@{sys}=/sys/\n@{PROC}=/proc/\n@{uid}=[0-9]*\n@{p_tgt}=tgt\n@{busname}=:1.[0-9]*\n')


def stub(rules, name='stub'):
    return PRE + 'profile %s {\n%s\n}\n' % (name, '\n'.join('  ' + l for l in rules.split('\n')))


def _one(case):
    a, e1 = dfax.compile_text(stub(case['lib']), C.UPSTREAM)
    if a is None:
        b, e2 = dfax.compile_text(stub(case['ref']), C.UPSTREAM)
        return ('lib-rejected' if b is not None else 'both-rejected', e1, 0, 0)
    b, e2 = dfax.compile_text(stub(case['ref']), C.UPSTREAM)
    if b is None:
        return ('ref-rejected', e2, 0, 0)
    why, st, tr = dfax.policy_equiv(dfax.profiles(a)[0], dfax.profiles(b)[0])
    if why is not None:
        why2, s2, t2 = dfax.policy_equiv(dfax.profiles(a)[0], dfax.profiles(b)[0], dfax.allow_masked_label)
        st += s2; tr += t2
        if why2 is None:
            return ('equiv', 'audit bits outside granted permissions differ (no effect)', st, tr)
    return ('equiv' if why is None else 'differ', why, st, tr)


LOGPRE = PRE + ''.join('@{%s}=/x\n' % v for v in ('user_state_dirs', 'user_bin_dirs', 'user_lib_dirs', 'XDG_SSH_DIR', 'XDG_GPG_DIR', 'arch', 'multiarch', 'etc_ro', 'pid', 'tid',
                                                      'pci_bus', 'pci', 'att', 'uuid', 'int64', 'hex64', 'hex38', 'int32', 'hex32', 'int16', 'hex16', 'int10', 'int8', 'int6'))


def _accept(body):
    b, err = dfax.compile_text(LOGPRE + 'profile stub {\n%s\n}\n' % body, C.UPSTREAM)
    return b is not None, err


def _accept_full(text):
    """a whole profile as aa-log --rules prints it (header included)"""
    b, err = dfax.compile_text(LOGPRE + text, C.UPSTREAM)
    return b is not None, err


def _distinct(pair):
    a, _ = dfax.compile_text(stub(pair[0]), C.UPSTREAM)
    b, _ = dfax.compile_text(stub(pair[1]), C.UPSTREAM)
    if a is None or b is None:
        return None
    why, st, tr = dfax.policy_equiv(dfax.profiles(a)[0], dfax.profiles(b)[0])
    return why is not None


def run(tier):
    ev = C.Evidence(PROP, tier); fnd = C.Findings(PROP)
    bins = gox.build(os.path.join(C.scratch(), 'gox'), ['c12x'])
    t = '1' if tier == 'thorough' else '0'
    cases = []
    for mode in ('rules', 'blocks'):
        r = subprocess.run([bins['c12x'], '-mode', mode, '-tier', t], capture_output=True, text=True)
        if r.returncode != 0:
            raise SystemExit('HARNESS ERROR: c12x: ' + r.stderr[-1500:])
        cases += [json.loads(l) for l in r.stdout.split('\n') if l.strip()]
    with ProcessPoolExecutor(C.NPROC) as pool:
        res = list(pool.map(_one, cases, chunksize=16))
        # oracle power: neighbouring rules of one kind have different fields -> must compile differently
        refs = [c for c in cases if c['kind'] != 'block']
        pairs = [(refs[i]['ref'], refs[i + 1]['ref']) for i in range(0, len(refs) - 1, 7) if refs[i]['kind'] == refs[i + 1]['kind']]
        power = list(pool.map(_distinct, pairs, chunksize=16))
    kinds = {}
    ok = 0
    for c, (v, why, st, tr) in zip(cases, res):
        ev.add(dfa_product_states=st, dfa_product_transitions=tr)
        kinds[c['kind']] = kinds.get(c['kind'], 0) + 1
        if v == 'equiv':
            ok += 1
        elif v == 'both-rejected':
            ev.add(not_grammar_valid_for_apparmor3=1)        # the field values are not valid AppArmor 3: outside the property
        elif v == 'ref-rejected':
            ev.add(reference_printer_rejected=1)
        elif v == 'lib-rejected':
            err = (why or '').split(':')[-1].strip()[:60]
            fnd.report('rejected kind=%s err=%s' % (c['kind'], err), 'apparmor_parser rejects the text the library prints (%s) but accepts the reference spelling `%s`: `%s`' % (why, c['ref'], c['lib']),
                       {'lib': c['lib'], 'ref': c['ref'], 'fields': c['fields']})
        else:
            fnd.report('meaning-differs kind=%s' % c['kind'], 'apparmor_parser compiles the library text `%s` and the reference spelling `%s` of %s to different policies: %s' % (c['lib'], c['ref'], c['fields'], why),
                       {'lib': c['lib'], 'ref': c['ref'], 'fields': c['fields']})
    # rules printed from logs (the C16 record alphabet through the real pipeline): acceptance by the reference parser
    lb = gox.build(os.path.join(C.scratch(), 'gox'), ['c16x'])
    r = subprocess.run([lb['c16x'], '-tier', t], capture_output=True, text=True)
    logcases = [json.loads(l) for l in r.stdout.split('\n') if l.startswith('{')]
    AA4 = ('mqueue', 'io_uring', 'userns')
    stubs = {}
    for c in logcases:
        if any(x['class'] in AA4 for x in c['records']):
            continue
        for text in c['out'].values():
            body = text[text.index('{') + 1:text.rindex('}')]
            stubs.setdefault(body, c['id'])
    fulls = {}
    for c in logcases:
        if any(x['class'] in AA4 for x in c['records']):
            continue
        for text in c['out'].values():
            hdr = text[:text.index('{')].strip()
            fulls.setdefault(hdr, (text, c['id']))           # one profile per distinct header is enough for the header
    with ProcessPoolExecutor(C.NPROC) as pool:
        acc = list(pool.map(_accept, list(stubs), chunksize=16))
        facc = list(pool.map(_accept_full, [t for t, _ in fulls.values()], chunksize=4))
    for (hdr, (text, cid)), (accepted, err) in zip(fulls.items(), facc):
        if not accepted and stubs.get(text[text.index('{') + 1:text.rindex('}')]) is not None and _accept(text[text.index('{') + 1:text.rindex('}')])[0]:
            fnd.report('log-profile-header-rejected', 'apparmor_parser accepts the rules but rejects the profile `aa-log --rules` prints around them (%s): `%s`' % (err, hdr), {'case': cid, 'profile': text})
    ev.add(profiles_from_logs_parsed=len(fulls))
    for (body, cid), (accepted, err) in zip(stubs.items(), acc):
        if not accepted:
            fnd.report('log-rule-rejected err=%s' % err.split(':')[-1].strip()[:70], 'apparmor_parser rejects a rule `aa-log --rules` prints (%s): %s' % (err, body.strip()), {'case': cid, 'rules': body})
    ev.add(rules_from_logs_parsed=len(stubs))
    told = sum(1 for p in power if p); untold = sum(1 for p in power if p is False)
    for c in cases[:2] + cases[-1:]:
        ev.sample({'kind': c['kind'], 'library_text': c['lib'], 'reference_text': c['ref']})
    ev.add(states=len(cases), transitions=ev.cov.get('dfa_product_transitions', 0), traces_validated_against_impl=ok, cases_per_kind=kinds,
           oracle_power_pairs_told_apart=told, oracle_power_pairs_not_told_apart=untold)
    ev.add(rule='state = one rule / formatted block rendered by the real templates; transitions = byte steps of the DFA products explored to decide policy equivalence with the reference spelling')
    ev.assume('apparmor_parser 3.0.8 with abi/3.0 as policy and kernel features is the reference', 'field values that the reference parser rejects in the reference spelling too are not "valid values" in the sense of the property and are counted, not judged')
    return C.conclude(ev, fnd)


def replay(path):
    return C.replay_by_rerun(PROP, path)
