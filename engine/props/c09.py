"""C09 -- rule text round-trips through the printer and the parser.

rules : every rule of U(kind), 19 kinds, x trailing-comment variants (plain, text, file_inherit, no new privs,
        optional:, comma in comment): String() -> ParseRules -> same fields -> same text again
blocks: every list of length <= 2 over a mixed universe, every ordered pair of file rules on two paths, every
        triple over one rule per kind, through Merge().Sort().Format().String() -> ParseRules -> same rules;
        Format().String() of the parsed block reproduces the text (formatting is layout only)
files : every sequence of <= 4 (thorough 5) distinct preamble items x 27 headers (0-2 attachments, flags,
        0-2 xattrs): AppArmorProfileFile.String() -> Parse -> comments/includes/variables in order, abi/alias
        as a set, header fields equal; the xattrs map is rendered under every iteration start (owned map order).
All on the real code, in-process (engine/gox/cmd/c09x).
"""
import json, os, subprocess
from concurrent.futures import ThreadPoolExecutor
from .. import common as C, gox

PROP = 'C09'
KINDS = ['file', 'link', 'capability', 'network', 'mount', 'remount', 'umount', 'pivot_root', 'change_profile', 'signal', 'ptrace',
         'unix', 'dbus', 'rlimit', 'userns', 'mqueue', 'io_uring', 'all', 'include']


def run(tier):
    ev = C.Evidence(PROP, tier); fnd = C.Findings(PROP)
    bins = gox.build(os.path.join(C.scratch(), 'gox'), ['c09x'])
    t = '1' if tier == 'thorough' else '0'
    jobs = [['-mode', 'rules', '-kind', k] for k in KINDS]
    S = 12
    jobs += [['-mode', 'blocks', '-shard', str(i), '-of', str(S)] for i in range(S)]
    jobs += [['-mode', 'files', '-shard', str(i), '-of', '9'] for i in range(9)]

    def one(a):
        r = subprocess.run([bins['c09x'], '-tier', t] + a, capture_output=True, text=True)
        if r.returncode != 0:
            raise SystemExit('HARNESS ERROR: c09x %s: %s' % (a, r.stderr[-1500:]))
        return json.loads(r.stdout.strip().split('\n')[-1])
    with ThreadPoolExecutor(C.NPROC) as pool:
        res = list(pool.map(one, jobs))
    per = {}
    for a, j in zip(jobs, res):
        per[j['mode']] = per.get(j['mode'], 0) + j['n']
        for v in j['violations']:
            fnd.report(v['sig'], '%s (x%d): %s' % (v['what'], v['count'], ' | '.join(v['input'])), {'mode': j['mode'], 'kind': j['kind'], 'text': v['input']})
    n = sum(per.values())
    ev.sample({'round_trips_per_mode': per})
    ev.sample({'rule': '/a r, # a comment', 'path': 'String() -> ParseRules -> fields equal -> String() equal'})
    ev.add(states=n, transitions=2 * n, traces_validated_against_impl=n, round_trips=per)
    ev.add(rule='state = one rule / formatted block / rendered profile file; transition = one print and one parse of it by the real code')
    ev.assume('explicit allow == no access type; paddings are layout', 'self-consistency oracle: the printer and the parser of the library are compared with each other (what AppArmor makes of the text is C12)')
    return C.conclude(ev, fnd)


def replay(path):
    return C.replay_by_rerun(PROP, path)
