"""C08 -- everything a built policy refers to exists in that same build.

States  : build trees of the real prebuild for all (dist, ABI, version, full) configurations (thorough 60,
          quick 10: dist x full); mode cannot change names.
Explored: every reference of every built file: `-> T` of exec rules, change_profile targets, components
          of a//&b stacks, AppArmorProfile= of every drop-in, variable targets (resolved through the built
          tunables); source side: names in exec/stack directives, flags manifests, the overwrite list.
Oracle  : definition set = block paths of the build (independent scanner) + profiles of the upstream
          policy directory the package is installed next to + `unconfined`.
"""
import fnmatch, json, os, re
from .. import common as C, cfgx, scan

PROP = 'C08'
VAR_RE = re.compile(r'@\{([A-Za-z0-9_]+)\}')


def upstream_defs():
    d = set()
    for f in sorted(os.listdir(C.UPSTREAM)):
        p = os.path.join(C.UPSTREAM, f)
        if os.path.isfile(p):
            for b in scan.blocks(open(p, errors='replace').read()):
                d.add(b.path)
    return d


def read_vars(text, vals):
    for line in text.split('\n'):
        code, _ = scan.split_comment(line)
        m = re.match(r'^\s*@\{([A-Za-z0-9_]+)\}\s*(\+?=)\s*(.*)$', code)
        if m:
            vs = scan.tokens(m.group(3))
            if m.group(2) == '=':
                vals[m.group(1)] = list(vs)
            else:
                vals.setdefault(m.group(1), []).extend(vs)


def tunables(ex, tree, cfg):
    """variable -> values: upstream tunables, shadowed by the built ones (harness reader); for version 4.1 the
    upstreamed tunables/multiarch.d/base comes from the source tree (DESIGN.md §2 stand-in)"""
    texts = {}
    for d, dn, fn in os.walk(os.path.join(C.UPSTREAM, 'tunables')):
        for f in fn:
            p = os.path.join(d, f)
            texts[os.path.relpath(p, C.UPSTREAM)] = open(p, errors='replace').read()
    if cfg.ver == '4.1':
        texts['tunables/multiarch.d/base'] = open(os.path.join(C.REPO, 'apparmor.d/tunables/multiarch.d/base'), errors='replace').read()
    for k, e in sorted(tree.items()):
        if k.startswith('apparmor.d/tunables/') and e[0] == 'f':
            texts[k[len('apparmor.d/'):]] = ex.text(e)
    vals = {}
    for k in sorted(texts):
        read_vars(texts[k], vals)
    return vals


def expand(name, vals, budget=None):
    """all values of a label expression with variables substituted; None marks an undefined variable"""
    budget = budget if budget is not None else [20000]
    m = VAR_RE.search(name)
    if not m:
        return [name]
    if m.group(1) not in vals:
        return [None]
    out = []
    for v in vals[m.group(1)]:
        budget[0] -= 1
        if budget[0] < 0:
            raise RuntimeError('variable expansion too large: ' + name)
        out += expand(name[:m.start()] + v + name[m.end():], vals, budget)
    return out


def glob_to_fn(p):
    # AppArmor alternation {a,b} is not fnmatch syntax: expand it
    m = re.search(r'\{([^{}]*)\}', p)
    if not m:
        return [p]
    res = []
    for alt in m.group(1).split(','):
        res += glob_to_fn(p[:m.start()] + alt + p[m.end():])
    return res


def resolves(t, defs, blk, child):
    """t: one label component (no //&); blk: enclosing block path; child: Cx-style resolution"""
    t = t.strip()
    if t in ('unconfined', '') or t.startswith(':') or t.startswith('&:'):
        return True
    cands = []
    if child:
        cands = [blk + '//' + t]        # as the reference parser compiles it: a child of the block that holds the rule (not a sibling)
    else:
        cands = [t]
    for c in cands:
        for g in glob_to_fn(c):
            if any(ch in g for ch in '*?['):
                if any(fnmatch.fnmatchcase(d, g) for d in defs):
                    return True
            elif g in defs:
                return True
    return False


def check_tree(ex, cfg, tree, up, fnd, ev):
    defs = set(up)
    texts = {}
    for f in cfgx.aa_files(tree):
        t = ex.text(tree['apparmor.d/' + f]); texts[f] = t
        for b in scan.blocks(t):
            defs.add(b.path)
    vals = tunables(ex, tree, cfg)
    nref = 0; dyn = 0
    for f, t in texts.items():
        name = f[:-len('.apparmor.d')] if f.endswith('.apparmor.d') else f
        for r in scan.rules(t):
            if '->' not in r.raw:
                continue
            c = scan.classify(r.raw)
            if c['kind'] == 'file':
                tgt = c.get('target'); mode = c.get('exec_mode') or ''
                if not tgt or not mode:
                    continue          # link rules `l /a -> /b` have a path target, not a label
                child = mode[0] in 'cC'
                what = 'exec'
            elif c['kind'] == 'change_profile':
                tgt = c.get('target'); child = False; mode = 'change_profile'; what = 'change_profile'
                if not tgt:
                    continue
            else:
                continue
            nref += 1
            tgt = tgt.strip().strip('"')
            for full in expand(tgt, vals):
                if full is None:
                    fnd.report('undefined-variable file=%s target=%s' % (name, tgt), '%s: %s in block %s: `%s` uses a variable no built tunable defines' % (cfgx.tag(cfg), f, r.block, r.raw),
                               {'config': cfg._asdict(), 'file': f, 'rule': r.raw})
                    continue
                for part in full.split('//&'):
                    part = part.lstrip('&')
                    if VAR_RE.search(tgt) and any(ch in part for ch in '*?['):
                        dyn += 1        # a shipped variable that spells a pattern over run-time profile names (libvirt-<uuid>)
                        continue
                    if not resolves(part, defs, r.block, child):
                        fnd.report('ref=%s:%s:%s->%s' % (name, r.block, mode, part),
                                   '%s: %s block %s: `%s` names %s `%s`, which no built (or upstream) profile defines' % (
                                       cfgx.tag(cfg), f, r.block, r.raw, 'child profile' if child else 'profile', part),
                                   {'config': cfg._asdict(), 'file': f, 'block': r.block, 'rule': r.raw, 'target': part})
    for k, e in sorted(tree.items()):
        if k.startswith('systemd/') and e[0] == 'f':
            for line in ex.text(e).split('\n'):
                m = re.match(r'^\s*AppArmorProfile\s*=\s*(\S+)', line)
                if m:
                    nref += 1
                    t = m.group(1).lstrip('-')
                    if t not in defs:
                        fnd.report('dropin=%s->%s' % (k, t), '%s: drop-in %s sets AppArmorProfile=%s, which is not a built profile' % (cfgx.tag(cfg), k, t),
                                   {'config': cfg._asdict(), 'dropin': k, 'target': t})
    ev.sample({'config': cfgx.tag(cfg), 'definitions': len(defs), 'references': nref, 'pattern_targets_through_shipped_variables': dyn}, cap=6)
    return len(defs), nref


def source_side(fnd):
    root = os.path.join(C.REPO, 'apparmor.d')
    names = set()
    for d, dn, fn in os.walk(root):
        rel = os.path.relpath(d, root)
        if rel.startswith('groups/') or rel.startswith('profiles-'):
            names.update(fn)
    n = 0
    for d, dn, fn in os.walk(root):
        for f in fn:
            for ln, line in enumerate(open(os.path.join(d, f), errors='replace'), 1):
                m = re.search(r'#aa:(exec|stack)\s+(.*)$', line)
                if not m:
                    continue
                args = m.group(2).split()
                if args and (args[0] in ('P', 'U', 'p', 'u', 'PU', 'pu', 'X')):
                    args = args[1:]
                for a in args:
                    n += 1
                    if a not in names:
                        fnd.report('directive=%s:%s->%s' % (f, m.group(1), a), 'source %s line %d: #aa:%s names profile %s, which is not a profile file of the source tree' % (f, ln, m.group(1), a),
                                   {'file': f, 'line': ln})
    for mf in sorted(os.listdir(os.path.join(C.REPO, 'dists/flags'))):
        for ln, line in enumerate(open(os.path.join(C.REPO, 'dists/flags', mf)), 1):
            line = line.split('#', 1)[0].strip()
            if line:
                n += 1
                p = line.split()[0]
                if p not in names:
                    fnd.report('flags-manifest=%s->%s' % (mf, p), 'dists/flags/%s line %d names profile %s, which is not a profile file of the source tree' % (mf, ln, p),
                               {'manifest': mf, 'line': ln})
    for ln, line in enumerate(open(os.path.join(C.REPO, 'dists/overwrite')), 1):
        line = line.split('#', 1)[0].strip()
        if line:
            n += 1
            if line not in names:
                fnd.report('overwrite->%s' % line, 'dists/overwrite line %d names profile %s, which is not a profile file of the source tree' % (ln, line), {'line': ln})
    return n


def run(tier):
    ev = C.Evidence(PROP, tier); fnd = C.Findings(PROP)
    if tier == 'thorough':
        cfgs = cfgx.configs60('complain')
    else:
        cfgs = [cfgx.Cfg(d, a, v, 'complain', f) for d in cfgx.DISTS for f in cfgx.FULLS for a, v in ((4, '4.1'),)] + \
               [cfgx.Cfg(d, 3, '3.0', 'complain', False) for d in ('debian', 'whonix')]
    ex = cfgx.Explorer()
    try:
        trees = ex.build_all(cfgs)
    finally:
        ex.close()
    up = upstream_defs()
    tot = 0
    for c in cfgs:
        d, n = check_tree(ex, c, trees[c], up, fnd, ev)
        tot += n
    ns = source_side(fnd)
    ev.add(states=len(cfgs), transitions=tot + ns, traces_validated_against_impl=tot, source_side_names=ns, upstream_profiles=sorted(up))
    ev.add(rule='state = build tree; transition = one reference resolved against the definition set of the same tree')
    ev.assume('AppArmor resolution, weakest defensible reading: Cx/cx -> n must be a child of the block that holds the rule (that is what the reference parser compiles: read off its transition table); Px/px/Ux/change_profile -> n a top-level name or a fully qualified a//b; globs match against the definition set; `unconfined` and :ns: forms accepted',
              'definition set includes the profiles of the upstream policy directory /etc/apparmor.d the package is installed next to: %s' % sorted(up))
    return C.conclude(ev, fnd)


def replay(path):
    return C.replay_by_rerun(PROP, path)
