"""C14 -- aa-log shows every matching AppArmor event exactly once, and only those.

In-process (engine/gox/cmd/c14x): every sequence of <= 2 (thorough 3) records over a 27-record alphabet and every
sequence of 3 (thorough 4) records over a 16-record alphabet (file
DENIED/ALLOWED/AUDIT, user-space dbus, net, cap, signal, STATUS, foreign, blank, garbled, 70 KiB foreign and
AppArmor lines, exact duplicate up to timestamp+pid, near duplicate, noise path, extra keys) x 3 carriers
(audit, syslog, journald JSON) x 4 filters through the real logs.New / GetJournalctlLogs, compared with a
list-based reference reader; String() rendered under every map-iteration start.
End to end: the real aa-log binary on every pair of a record subset x carriers x modes (default, -R, -r):
stdout equal to the in-process rendering, exit status 0, and identical output under every owned
map-iteration schedule (d = 1, instrumented runtime).
"""
import itertools, json, os, re, subprocess
from concurrent.futures import ThreadPoolExecutor
from .. import common as C, gox, overlay

PROP = 'C14'
SITE_RE = re.compile(r'MAPX site=(\d+) count=(\d+) B=(\d+) alt=(\d+) fn=(\S+)')


def binary_level(bins, ev, fnd, tier):
    out = os.path.join(C.scratch(), 'c14bin'); os.makedirs(out, exist_ok=True)
    plain, inst = overlay.build_tool(out, './cmd/aa-log', 'aa-log')
    tags = ['file-denied', 'file-allowed', 'dbus', 'cap', 'extra-keys', 'dup-of-file-denied', 'garbled', 'long-apparmor', 'foreign', 'bad-mask', 'odd-json']
    combos = [list(c) for L in (1, 2) for c in itertools.product(tags, repeat=L)]
    if tier != 'thorough':
        combos = [c for c in combos if len(c) == 1 or (c[0] != c[1] and 'long-apparmor' not in c)][:40]
    runs = 0

    def one(args):
        i, combo, carrier = args
        f = os.path.join(out, 'log.%d.%d' % (i, carrier))
        text = subprocess.run([bins['c14x'], '-mode', 'render', '-emit', ','.join(combo), '-carrier', str(carrier)], capture_output=True).stdout
        open(f, 'wb').write(text)
        want = subprocess.run([bins['c14x'], '-mode', 'render', '-file', f, '-carrier', str(carrier)], capture_output=True, env=dict(os.environ, TMPDIR=out)).stdout
        res = []
        sflag = ['-s'] if carrier == 2 else []
        env = dict(os.environ); env.pop('VERIF_MAPX', None)
        r = subprocess.run([plain] + sflag + ['-f', f], capture_output=True, env=env)
        res.append(('default', r.returncode, r.stdout == want, r.stdout[-300:] + r.stderr[-300:]))
        r2 = subprocess.run([plain] + sflag + ['-R', '-f', f], capture_output=True, env=env)
        res.append(('raw', r2.returncode, True, r2.stdout[-200:] + r2.stderr[-200:]))
        # rules mode under every single deviation of the owned map order
        base = subprocess.run([inst] + sflag + ['-r', '-f', f], capture_output=True, env=dict(env, VERIF_MAPX='-', VERIF_MAPX_TRACE='1'))
        sites = [(int(a), int(b), int(c)) for a, b, c, d, e in SITE_RE.findall(base.stderr.decode(errors='replace')) if '.init' not in e]
        same = True; nsched = 0
        for s, n, B in sites:
            for alt in range(1, (1 << B) * 8):
                nsched += 1
                rr = subprocess.run([inst] + sflag + ['-r', '-f', f], capture_output=True, env=dict(env, VERIF_MAPX='%d:%d' % (s, alt)))
                if rr.stdout != base.stdout:
                    same = False
        res.append(('rules', base.returncode, same, base.stdout[-300:] + base.stderr[-100:]))
        os.unlink(f)
        return combo, carrier, res, nsched
    jobs = [(i, c, carrier) for i, c in enumerate(combos) for carrier in (0, 1, 2)]
    with ThreadPoolExecutor(C.NPROC) as pool:
        results = list(pool.map(one, jobs))
    nsched = 0
    for combo, carrier, res, ns in results:
        nsched += ns
        cname = ['audit', 'syslog', 'journald'][carrier]
        for mode, rc, same, tail in res:
            runs += 1
            if rc != 0:
                fnd.report('aa-log-exits-nonzero mode=%s carrier=%s%s' % (mode, cname, ' cause=garbled-json-line' if 'garbled' in combo and carrier == 2 else ''),
                           'aa-log %s exits %d on records %s (%s): %s' % (mode, rc, combo, cname, tail), {'records': combo, 'carrier': cname, 'mode': mode})
            elif not same and mode == 'default':
                fnd.report('aa-log-output-differs-from-library carrier=%s' % cname, 'aa-log prints something else than logs.New(...).String() for records %s' % combo, {'records': combo, 'carrier': cname})
            elif not same:
                fnd.report('aa-log-rules-depend-on-map-order', 'aa-log -r prints different text under different map iteration starts for records %s (%s)' % (combo, cname), {'records': combo, 'carrier': cname})
    ev.add(binary_runs=runs, binary_rule_mode_schedules=nsched, transitions=runs + nsched)
    ev.sample({'binary_case': {'records': combos[-1], 'modes': ['default', '-R', '-r under every single map-order deviation']}})


def run(tier):
    ev = C.Evidence(PROP, tier); fnd = C.Findings(PROP)
    bins = gox.build(os.path.join(C.scratch(), 'gox'), ['c14x'])
    L = 4 if tier == 'thorough' else 3
    reduced = 'file-denied,hex-profile,near-noise,odd-json,child-profile,dotted-profile,dotless-profile,file-allowed,dbus,status,garbled,long-foreign,bulk-foreign,dup-of-file-denied,near-dup-of-file-denied,extra-keys'
    if tier == 'thorough':
        # thorough: every sequence of <= 3 records over the whole alphabet, every 4-sequence over the 12-record alphabet
        jobs = [['-len', '3', '-shard', str(i), '-of', '27'] for i in range(27)]
        jobs += [['-minlen', '4', '-len', '4', '-only', reduced, '-shard', str(i), '-of', '16'] for i in range(16)]
    else:
        # quick: every sequence of <= 2 records over the whole alphabet, every triple over a 9-record alphabet
        jobs = [['-len', '2', '-shard', str(i), '-of', '27'] for i in range(27)]
        jobs += [['-minlen', '3', '-len', '3', '-only', reduced, '-shard', str(i), '-of', '16'] for i in range(16)]

    def shard(a):
        r = subprocess.run([bins['c14x'], '-mode', 'c14'] + a, capture_output=True, text=True, env=dict(os.environ, TMPDIR=C.scratch()))
        if r.returncode != 0:
            raise SystemExit('HARNESS ERROR: c14x %s: %s' % (a, r.stderr[-1500:]))
        return json.loads(r.stdout.strip().split('\n')[-1])
    with ThreadPoolExecutor(C.NPROC) as pool:
        res = list(pool.map(shard, jobs))
    n = 0
    for j in res:
        n += j['n']
        for v in j['violations']:
            fnd.report(v['sig'], '%s (x%d): %s' % (v['what'], v['count'], ' | '.join(v['input'])), {'case': v['input']})
    ev.add(states=n, transitions=n, traces_validated_against_impl=n, log_files_read=n, max_records=L)
    ev.sample({'log_file': ['file-denied', 'long-foreign', 'dup-of-file-denied'], 'carrier': 'syslog', 'filter': 'foo', 'expected_events': 1})
    binary_level(bins, ev, fnd, tier)
    ev.add(rule='state = one (log file, carrier, filter) triple; transition = one read of it by the real logs.New (in-process) or by the real aa-log binary')
    ev.assume('records touching the documented noise paths may or may not be reported (not judged); fields auditd/dbus-daemon add around the record (exe, sauid, hostname, addr, terminal) are not compared',
              'duplicates = records equal in every field except timestamp, pid and peer_pid')
    return C.conclude(ev, fnd)


def replay(path):
    return C.replay_by_rerun(PROP, path)
