"""C03 -- only/exclude directives keep exactly the rules meant for the build target.

Real code : directive.Run in-process (engine/gox/cmd/c03x), one process per distribution so that distribution
            and family are the build's own (DISTRIBUTION env -> getDistribution/getFamily), ABI x version set
            the way the CLI sets them: 30 targets.
Explored  : (real) every shipped file with an only/exclude directive, other directive kinds neutralised;
            (generated) every text of <= 4 lines (thorough 5) over {3 rule lines, blank, paragraph
            directive, inline directive} x {only, exclude} x 6 filter lists, at most 2 directives, in four
            wrappers (profile, sub-profile, abstraction, tunable), documented paragraph form only.
Oracle    : line-based reference model: guarded line = inline-directive line, or line between a paragraph
            directive and the next blank line; kept iff (only <=> a filter names abiN / apparmorX.Y /
            distribution / family); marker never survives; all other non-blank lines unchanged, in order.
"""
import json, os, subprocess
from concurrent.futures import ThreadPoolExecutor
from .. import common as C, gox, cfgx

PROP = 'C03'


def run(tier):
    ev = C.Evidence(PROP, tier); fnd = C.Findings(PROP)
    bins = gox.build(os.path.join(C.scratch(), 'gox'), ['c03x'])
    L = {'quick': 4, 'thorough': 5}[tier]
    S = 16
    jobs = [(d, ['-mode', 'real', '-repo', C.REPO]) for d in cfgx.DISTS]
    jobs += [(d, ['-mode', 'generated', '-len', str(L), '-shard', str(i), '-of', str(S)]) for d in cfgx.DISTS for i in range(S)]

    def one(j):
        d, a = j
        r = subprocess.run([bins['c03x']] + a, capture_output=True, text=True, env=dict(os.environ, DISTRIBUTION=d))
        if r.returncode != 0:
            raise SystemExit('HARNESS ERROR: c03x %s %s: %s' % (d, a, r.stderr[-1500:]))
        return json.loads(r.stdout)
    with ThreadPoolExecutor(C.NPROC) as pool:
        res = list(pool.map(one, jobs))
    real = gen = 0
    for (d, a), j in zip(jobs, res):
        if j['mode'] == 'real':
            real += j['n']
        else:
            gen += j['n']
        for v in j['violations']:
            fnd.report(v['sig'], '%s (x%d) -- %s' % (v['what'], v['count'], ' / '.join(v['input'] or [])), {'distribution': d, 'text': v['input']})
    if real < 100:
        fnd.report('vacuous', 'only %d (file, target) runs on shipped files' % real, None)
    ev.sample({'generated_text': [j for j in res if j['mode'] == 'generated'][0]['sample'].split('\n')})
    ev.sample({'targets': '5 distributions (family from the build itself) x ABI {3,4} x version {3.0,4.0,4.1}'})
    ev.add(states=real + gen, transitions=real + gen, traces_validated_against_impl=real + gen, real_file_target_runs=real, generated_text_target_runs=gen, max_lines=L)
    ev.add(rule='state = one (text, target) pair; transition = one directive.Run of the real code on it, compared line by line with the reference model')
    ev.assume('lines compared with leading/trailing blanks ignored and blank lines dropped (layout, not policy: removing an indent-2 paragraph directive also fires inside an identical indent-4 line and leaves stray blanks, seen in packagekitd)',
              'documented paragraph form only: directive line, at least one rule line, blank line; a directive line inside a guarded paragraph is itself guarded')
    return C.conclude(ev, fnd)


def replay(path):
    return C.replay_by_rerun(PROP, path)
