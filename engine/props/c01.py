"""C01 -- every built policy file loads in the reference AppArmor parser, in every configuration.

States      : build trees of the real prebuild binary (thorough: all 180 configurations; quick: the
              pairwise covering set + Makefile entry points)
Transitions : one (configuration, profile file) pair handed to apparmor_parser 3.0.8 over an overlay
              (upstream policy dir + stand-ins of DESIGN.md §2 + the build output on top)
Oracle      : exit status 0 of `apparmor_parser -Q -K -d` (quick, thorough) and of the full compile `-S`
              (thorough: complain-mode configurations; quick: the files one full-policy configuration adds or changes); abstractions / tunables / mappings are read through
              the profiles that include them (the include closure is accounted for in the evidence).
Parser runs are de-duplicated on sha256(profile bytes + bytes of its include closure + mode): equal
keys mean byte-identical parser input.
"""
import hashlib, json, os, shutil, sys
from concurrent.futures import ProcessPoolExecutor
from .. import common as C, cfgx, refparser

PROP = 'C01'


def _cfg_job(a):
    cfg, tree, cas, root, modes, sonly = a
    cfg = cfgx.Cfg(*cfg)
    base = os.path.join(root, 'base.%d' % os.getpid())
    shutil.rmtree(base, ignore_errors=True)
    pc = os.path.join(root, 'parsecache'); os.makedirs(pc, exist_ok=True)
    try:
        aside = refparser.make_base(base, tree, cas, cfg)
        files = cfgx.aa_files(tree)
        inc_cache = {}; sha_cache = {}

        def fsha(rel):
            if rel not in sha_cache:
                p = os.path.join(base, rel)
                sha_cache[rel] = hashlib.sha256(open(p, 'rb').read()).hexdigest() if os.path.isfile(p) else 'none'
            return sha_cache[rel]
        res = []; runs = 0; hits = 0; reached = set()
        for f in files:
            cl = refparser.closure(base, f, inc_cache)
            reached |= cl
            h = hashlib.sha256()
            for rel in sorted(cl):
                h.update(rel.encode()); h.update(fsha(rel).encode() if not rel.startswith('?') else b'?')
            for mode in modes:
                if mode == '-S' and sonly is not None and f not in sonly:
                    continue
                key = hashlib.sha256((h.hexdigest() + mode + f).encode()).hexdigest()
                kp = os.path.join(pc, key)
                if os.path.exists(kp):
                    j = json.load(open(kp)); hits += 1
                else:
                    ok, err, _ = refparser.parse(base, os.path.join(base, f), mode)
                    j = {'ok': ok, 'err': err}; runs += 1
                    tmp = kp + '.%d' % os.getpid()
                    json.dump(j, open(tmp, 'w')); os.replace(tmp, kp)
                if not j['ok']:
                    res.append((f, mode, j['err']))
        sub = cfgx.subtree(tree, 'apparmor.d')
        others = sorted(k for k, e in sub.items() if e[0] == 'f' and '/' in k and not k.startswith('disable/'))
        unreached = [k for k in others if k not in reached]
        return {'cfg': tuple(cfg), 'bad': res, 'files': len(files), 'runs': runs, 'hits': hits, 'aside': aside,
                'others': len(others), 'unreached': unreached}
    finally:
        shutil.rmtree(base, ignore_errors=True)


def run(tier):
    ev = C.Evidence(PROP, tier); fnd = C.Findings(PROP)
    cfgs = cfgx.all_configs() if tier == 'thorough' else cfgx.qset()
    ex = cfgx.Explorer()
    try:
        trees = ex.build_all(cfgs)
    except cfgx.BuildFailed as e:
        fnd.report('build-failed cfg=%s' % cfgx.tag(e.cfg), str(e)[:600], {'config': e.cfg._asdict()})
        ex.close()
        return C.conclude(ev, fnd)
    ex.close()
    root = os.path.join(C.scratch(), 'c01'); os.makedirs(root, exist_ok=True)
    jobs = []
    # quick tier: the full compile for one full-system-policy and one normal configuration (merge conflicts such as
    # "conflicting x modifiers" only show when the parser builds the DFA, not in parse mode)
    cq = next((c for c in cfgs if c.full and c.mode == 'complain'), None)
    sonly = {}
    if tier != 'thorough' and cq is not None:
        twin = cq._replace(full=False)
        if twin not in trees:
            ex2 = cfgx.Explorer(jobs=1)
            try:
                trees[twin] = ex2.build_all([twin])[twin]
            finally:
                ex2.close()
        # the files the full-policy option adds or changes (its profiles, the stack hosts, every rewritten exec rule)
        sonly[cq] = {f for f in cfgx.aa_files(trees[cq]) if trees[cq].get('apparmor.d/' + f) != trees[twin].get('apparmor.d/' + f)}
    for c in cfgs:
        modes = ['-d']
        if c.mode == 'complain' and (tier == 'thorough' or c == cq):
            modes.append('-S')
        jobs.append((tuple(c), trees[c], ex.cas, root, modes, sonly.get(c)))
    with ProcessPoolExecutor(C.NPROC) as pool:
        results = list(pool.map(_cfg_job, jobs, chunksize=1))
    logical = 0; runs = 0; unreached_all = set()
    for r in results:
        c = cfgx.Cfg(*r['cfg'])
        logical += r['files']; runs += r['runs']
        unreached_all |= set(r['unreached'])
        for f, mode, err in r['bad']:
            name = f[:-len('.apparmor.d')] if f.endswith('.apparmor.d') else f
            fnd.report('rejected file=%s mode=%s err=%s' % (name, c.mode if 'TOK_OPEN' in err else '*', err.split(' in ')[0][:80]),
                       '%s: apparmor_parser %s rejects %s: %s' % (cfgx.tag(c), mode, f, err),
                       {'config': c._asdict(), 'file': f, 'parser_mode': mode, 'error': err})
        ev.sample({'config': cfgx.tag(c), 'profiles_parsed': r['files'], 'parser_runs': r['runs'], 'dedup_hits': r['hits'],
                   'aa4_rules_set_aside': r['aside'], 'included_files': r['others'], 'never_included': len(r['unreached'])}, cap=6)
    ev.add(states=len(cfgs), transitions=logical, traces_validated_against_impl=logical, physical_parser_runs=runs,
           files_never_included_by_a_profile=sorted(unreached_all)[:40])
    ev.add(rule='state = build tree of one configuration; transition = one (configuration, profile) parse by the reference parser; de-duplicated on byte-identical parser input')
    ev.assume('reference parser is apparmor_parser 3.0.8 with --kernel-features abi/3.0; ABI-4 targets: abi/4.0 := copy of abi/3.0 and rules of kind userns/mqueue/io_uring/all commented out by the harness; version 4.1: the five files the build drops as "upstreamed" are supplied from the source tree',
              'abstractions/tunables/mappings are judged through the profiles that include them, as the property states; files no profile includes are listed, not judged')
    if tier != 'thorough':
        ev.assume('quick tier: parse mode -d for every configuration, the full DFA compile -S for the files of %s that the full-policy option adds or changes; -S for every file of every complain configuration runs in the thorough tier' % (cfgx.tag(cq) if cq else None))
    return C.conclude(ev, fnd)


def replay(path):
    j = json.load(open(path)); rp = j['replay']
    c = cfgx.Cfg(**rp['config'])
    ex = cfgx.Explorer(jobs=1)
    t = ex.build_all([c])[c]; ex.close()
    base = os.path.join(C.scratch(), 'replaybase')
    refparser.make_base(base, t, ex.cas, c)
    ok, err, _ = refparser.parse(base, os.path.join(base, rp['file']), rp['parser_mode'])
    print('parser says:', 'accepted' if ok else err)
    if not ok:
        print('VIOLATION property=%s replay=%s' % (PROP, path))
    return 0 if ok else 1
