"""C02 -- prebuild output is reproducible: same tree and configuration, same bytes.

Three explorations on the real (instrumented) prebuild binary, one verdict:
 1. map-order: every start (bucket, offset) the Go runtime can choose at every `range` over a map executed
    by repo code during a whole build, one deviation at a time from the all-default schedule (d = 1; d = 2
    for the choice points inside package directive); oracle: Merkle map of .build equals the default run's.
 2. build-directory histories: output(c from prior state s) == output(c from clean) for s in
    {junk, after(p), after(q) after(p)}.
 3. in-process histories: sequences of builder.Run+directive.Run over directive hosts (shipped and
    generated) inside one process, every map start enumerated inside each step; oracle: the text produced
    for k at any position equals the text produced for k as the only operation of a fresh process; BFS over
    the package-level state (regCleanStakedRules, aa.IndentationLevel, aa.inHeader) as state key.
"""
import itertools, json, os, re, shutil, subprocess
from concurrent.futures import ThreadPoolExecutor
from .. import common as C, cfgx, overlay

PROP = 'C02'
SITE_RE = re.compile(r'MAPX site=(\d+) count=(\d+) B=(\d+) alt=(\d+) fn=(\S+)')


def sites_of(out):
    return [(int(a), int(b), int(c), int(d), e) for a, b, c, d, e in SITE_RE.findall(out)]


def alts_for(count, B, tier):
    n = (1 << B) * 8
    if tier == 'thorough' or B < 4:
        return list(range(1, n))
    # quick bound for big maps: every bucket with offset 0, every offset with bucket 0
    return sorted(set([b for b in range(1, 1 << B)] + [o << B for o in range(1, 8)]))


def select_sites(S, tier, ev, where):
    """The choice points of one run, thinned when ONE static site (the function that ranges the map) is reached very often
    -- e.g. a map built and ranged once per variable or per profile: of each static site the first K and the last dynamic
    occurrences of every distinct (entries, B) are explored; the cap is reported and the evidence says exhaustive=false."""
    K = 12 if tier == 'thorough' else 4
    byfn = {}
    for site in S:
        byfn.setdefault((site[4], site[1], site[2]), []).append(site)
    out = []; capped = {}
    for (fn, n, B), l in byfn.items():
        if len(l) > K + 1:
            capped[fn] = capped.get(fn, 0) + len(l)
            l = l[:K] + l[-1:]
        out += l
    if capped:
        ev.cap_hit('%s: static map sites reached more than %d times were thinned to the first %d and the last occurrence: %s' % (
            where, K + 1, K, {f.split('/')[-1]: c for f, c in sorted(capped.items())}))
    return sorted(out)


def diff_trees(a, b):
    return sorted(k for k in set(a) | set(b) if a.get(k) != b.get(k))


# ------------------------------------------------------------------------------ part 1


def part1(ex, tier, ev, fnd):
    if tier == 'thorough':
        cfgs = [cfgx.Cfg(d, a, v, 'complain', f) for d in cfgx.DISTS for f in cfgx.FULLS for a, v in ((3, '3.0'), (4, '4.1'))]
    else:
        cfgs = [cfgx.Cfg('arch', 4, '4.1', 'complain', True), cfgx.Cfg('whonix', 3, '3.0', 'none', True)]
    seeds = [0, 1, 2] if tier == 'thorough' else [0]
    tr = {'VERIF_MAPX': '-', 'VERIF_MAPX_TRACE': '1'}
    cs = [(c, sd) for c in cfgs for sd in seeds]
    base = ex.run_jobs({'steps': [(c, dict(tr, VERIF_MAPX_SEED=str(sd)))]} for c, sd in cs)
    again = ex.run_jobs({'steps': [(c, dict(tr, VERIF_MAPX_SEED=str(sd)))]} for c, sd in cs)
    jobs = []; meta = []
    # the default schedule under further hash seeds (bucket placement of the large maps changes)
    for c in cfgs:
        for sd in (3, 4, 5, 6):
            jobs.append({'steps': [(c, dict(tr, VERIF_MAPX_SEED=str(sd)))]}); meta.append((c, (), 'hash-seed-%d' % sd))
    for (c, sd), r, r2 in zip(cs, base, again):
        if r['rc'] != 0:
            fnd.report('build-failed cfg=' + cfgx.tag(c), r['out'][-400:], {'config': c._asdict()}); continue
        if r['tree'] != r2['tree']:
            # same source tree (by Merkle root), same options, same owned schedule and hash seed, two different results:
            # that is the property's negation whatever the hidden source of order is (e.g. a map keyed by pointers,
            # whose order follows heap addresses the harness cannot own). No deviation is explored from here.
            d = diff_trees(r['tree'], r2['tree'])
            fnd.report('same-schedule-different-tree cfg=' + cfgx.tag(c), '%s: two runs of the same configuration under the same owned schedule (seed %d) give different trees; differing entries %s' % (cfgx.tag(c), sd, d[:5]),
                       {'config': c._asdict(), 'seed': sd, 'differing': d[:20]})
            continue
        if sites_of(r['out']) != sites_of(r2['out']):
            raise SystemExit('HARNESS ERROR: the all-default schedule replayed twice visited different choice points for ' + cfgx.tag(c))
        S = sites_of(r['out'])
        ev.sample({'config': cfgx.tag(c), 'choice_points': [{'site': s, 'entries': n, 'B': B, 'fn': fn.split('/')[-1]} for s, n, B, _, fn in S]}, cap=2)
        S = select_sites(S, tier, ev, 'build of ' + cfgx.tag(c))
        for s, n, B, _, fn in S:
            for alt in alts_for(n, B, tier):
                jobs.append({'steps': [(c, {'VERIF_MAPX': '%d:%d' % (s, alt), 'VERIF_MAPX_TRACE': '1', 'VERIF_MAPX_SEED': str(sd)})]}); meta.append((c, ((s, alt),), fn))
        dsites = [(s, n, B) for s, n, B, _, fn in S if '/directive.' in fn]
        for (s1, n1, B1), (s2, n2, B2) in itertools.combinations(dsites, 2):
            for a1 in alts_for(n1, B1, tier):
                for a2 in alts_for(n2, B2, tier):
                    jobs.append({'steps': [(c, {'VERIF_MAPX': '%d:%d,%d:%d' % (s1, a1, s2, a2), 'VERIF_MAPX_TRACE': '1', 'VERIF_MAPX_SEED': str(sd)})]})
                    meta.append((c, ((s1, a1), (s2, a2)), 'directive'))
    res = ex.run_jobs(jobs)
    default = {c: r['tree'] for (c, sd), r in zip(cs, base) if sd == 0}
    outcomes = {}
    for (c, sched, fn), r in zip(meta, res):
        seen = {(s, a) for s, n, B, a, f in sites_of(r['out'])}
        if r['rc'] != 0:
            fnd.report('build-failed-under-schedule fn=%s' % fn.split('/')[-1], '%s fails under map schedule %s: %s' % (cfgx.tag(c), sched, r['out'][-300:]),
                       {'config': c._asdict(), 'schedule': sched}); continue
        for sa in sched:
            if sa not in seen:
                raise SystemExit('HARNESS ERROR: schedule %s names a choice point the run of %s never reached' % (sched, cfgx.tag(c)))
        outcomes.setdefault(c, set()).add(cfgx.root_hash(r['tree']))
        if r['tree'] != default[c]:
            d = diff_trees(default[c], r['tree'])
            for k in d[:5]:
                fnd.report('map-order path=%s fn=%s' % (k, fn.split('/')[-1].split('.')[0] + '.' + '.'.join(fn.split('.')[-2:])),
                           '%s: output file %s depends on the iteration order of a map ranged in %s (schedule %s vs all-default)' % (cfgx.tag(c), k, fn, sched),
                           {'config': c._asdict(), 'schedule': 'VERIF_MAPX=' + ','.join('%d:%d' % sa for sa in sched), 'path': k})
    ev.add(states=len(jobs) + 2 * len(cfgs), transitions=len(jobs) + 2 * len(cfgs), map_schedules_explored=len(jobs),
           map_distinct_outcomes=sum(len(v) for v in outcomes.values()), map_configurations=len(cfgs), map_hash_seeds=seeds + [3, 4, 5, 6])


# ------------------------------------------------------------------------------ part 2


def part2(ex, tier, ev, fnd):
    leavers = [cfgx.Cfg('arch', 4, '4.1', 'complain', True), cfgx.Cfg('debian', 3, '3.0', 'none', False),
               cfgx.Cfg('ubuntu', 4, '4.0', 'enforce', False), cfgx.Cfg('whonix', 3, '3.0', 'complain', True),
               cfgx.Cfg('opensuse', 4, '4.1', 'none', True), cfgx.Cfg('debian', 4, '4.1', 'enforce', True),
               cfgx.Cfg('arch', 3, '3.0', 'none', False), cfgx.Cfg('ubuntu', 3, '3.0', 'complain', True),
               cfgx.Cfg('whonix', 4, '4.0', 'none', False), cfgx.Cfg('opensuse', 3, '4.0', 'enforce', False),
               cfgx.Cfg('debian', 3, '4.0', 'complain', True), cfgx.Cfg('arch', 4, '4.0', 'enforce', True)]
    if tier == 'thorough':
        cfgs = cfgx.all_configs()
    else:
        cfgs = cfgx.qset(); leavers = leavers[:4]
    env = {'VERIF_MAPX': '-'}
    jobs = []; meta = []
    for c in cfgs:
        jobs.append({'steps': [(c, env)]}); meta.append((c, 'clean'))
        jobs.append({'steps': [(c, env)], 'prior': 'junk'}); meta.append((c, 'junk'))
        for p in leavers:
            jobs.append({'steps': [(p, env), (c, env)]}); meta.append((c, 'after(%s)' % cfgx.tag(p)))
    deep = cfgx.qset() if tier == 'thorough' else cfgx.qset()[:3]
    for c in deep:
        for p, q in itertools.product(leavers, repeat=2):
            if p != q:
                jobs.append({'steps': [(p, env), (q, env), (c, env)], 'prior': 'junk'})
                meta.append((c, 'junk,after(%s),after(%s)' % (cfgx.tag(p), cfgx.tag(q))))
    res = ex.run_jobs(jobs)
    clean = {}
    for (c, prior), r in zip(meta, res):
        if prior == 'clean':
            if r['rc'] != 0:
                fnd.report('build-failed cfg=' + cfgx.tag(c), r['out'][-400:], {'config': c._asdict()})
            else:
                clean[c] = (r['tree'], r['hide'])
    n = 0
    for (c, prior), r in zip(meta, res):
        if prior == 'clean' or c not in clean:
            continue
        n += 1
        if r['rc'] != 0:
            fnd.report('build-fails-from-prior prior=%s' % re.sub(r'\(.*?\)', '', prior), 'prebuild %s fails when .build holds %s: %s' % (cfgx.tag(c), prior, r['out'][-300:]),
                       {'config': c._asdict(), 'prior': prior}); continue
        if r['tree'] != clean[c][0]:
            for k in diff_trees(clean[c][0], r['tree'])[:8]:
                fnd.report('history-leak path=%s' % k, 'prebuild %s: %s differs from the clean build when .build previously held %s' % (cfgx.tag(c), k, prior),
                           {'config': c._asdict(), 'prior': prior, 'path': k})
        if r['hide'] != clean[c][1]:
            fnd.report('history-leak path=debian/apparmor.d.hide', 'prebuild %s: generated debian/apparmor.d.hide differs after %s' % (cfgx.tag(c), prior), {'config': c._asdict(), 'prior': prior})
    ev.sample({'history': meta[-1][1] + ' then ' + cfgx.tag(meta[-1][0]), 'equal_to_clean': res[-1]['tree'] == clean.get(meta[-1][0], (None,))[0]})
    ev.add(states=len(jobs), transitions=sum(len(j['steps']) for j in jobs), histories_compared_with_clean=n, history_configurations=len(cfgs))


# ------------------------------------------------------------------------------ part 3

GEN = {
    'gen-t1': 'abi <abi/4.0>,\n\ninclude <tunables/global>\n\n@{exec_path} = @{bin}/gen-t1\nprofile gen-t1 @{exec_path} {\n  include <abstractions/base>\n\n  @{exec_path} mr,\n\n  @{bin}/sh rix,\n  /etc/gen-t1 r,\n\n  include if exists <local/gen-t1>\n}\n',
    'gen-t2': 'abi <abi/4.0>,\n\ninclude <tunables/global>\n\n@{exec_path} = @{bin}/gen-t2 @{lib}/gen-t2\nprofile gen-t2 @{exec_path} {\n  include <abstractions/base>\n\n  @{exec_path} mr,\n\n  @{bin}/foo rPx,\n  /etc/gen-t2 rw,\n\n  include if exists <local/gen-t2>\n}\n',
    'gen-stack1': 'abi <abi/4.0>,\n\ninclude <tunables/global>\n\n@{exec_path} = @{bin}/gen-stack1\nprofile gen-stack1 @{exec_path} {\n  include <abstractions/base>\n\n  @{exec_path} mr,\n  @{bin}/own rix,\n\n  #aa:stack gen-t1\n\n  include if exists <local/gen-stack1>\n}\n',
    'gen-stack2': 'abi <abi/4.0>,\n\ninclude <tunables/global>\n\n@{exec_path} = @{bin}/gen-stack2\nprofile gen-stack2 @{exec_path} {\n  include <abstractions/base>\n\n  @{exec_path} mr,\n  @{bin}/own rix,\n\n  #aa:stack gen-t2 gen-t1\n\n  include if exists <local/gen-stack2>\n}\n',
    'gen-stackx': 'abi <abi/4.0>,\n\ninclude <tunables/global>\n\n@{exec_path} = @{bin}/gen-stackx\nprofile gen-stackx @{exec_path} {\n  include <abstractions/base>\n\n  @{exec_path} mr,\n\n  #aa:stack X gen-t2 gen-t1\n\n  include if exists <local/gen-stackx>\n}\n',
    'gen-exec2': 'abi <abi/4.0>,\n\ninclude <tunables/global>\n\n@{exec_path} = @{bin}/gen-exec2\nprofile gen-exec2 @{exec_path} {\n  include <abstractions/base>\n\n  @{exec_path} mr,\n\n  #aa:exec gen-t2 gen-t1\n\n  profile sub {\n    #aa:exec U gen-t1\n  }\n\n  include if exists <local/gen-exec2>\n}\n',
    'gen-dbus': 'abi <abi/4.0>,\n\ninclude <tunables/global>\n\n@{exec_path} = @{bin}/gen-dbus\nprofile gen-dbus @{exec_path} {\n  include <abstractions/base>\n\n  #aa:dbus own bus=session name=org.gen.Test\n\n  @{exec_path} mr,\n\n  profile sub {\n    #aa:dbus talk bus=system name=org.gen.Peer label=gen-t1\n  }\n\n  include if exists <local/gen-dbus>\n}\n',
    'gen-none': 'abi <abi/4.0>,\n\ninclude <tunables/global>\n\n@{exec_path} = @{bin}/gen-none\nprofile gen-none @{exec_path} flags=(complain) {\n  include <abstractions/base>\n\n  @{exec_path} mr,\n  @{bin}/x rPUx,\n\n  include if exists <local/gen-none>\n}\n',
}
GEN['gen-append'] = 'abi <abi/4.0>,\n\ninclude <tunables/global>\n\n@{lib} += /opt/vendor/lib\n@{bin} += /opt/vendor/bin\n@{exec_path} = @{lib}/gen-append @{bin}/gen-append\nprofile gen-append @{exec_path} {\n  include <abstractions/base>\n\n  @{exec_path} mr,\n\n  include if exists <local/gen-append>\n}\n'
GEN['gen-uselib'] = 'abi <abi/4.0>,\n\ninclude <tunables/global>\n\n@{exec_path} = @{lib}/gen-uselib @{bin}/gen-uselib\nprofile gen-uselib @{exec_path} {\n  include <abstractions/base>\n\n  @{exec_path} mr,\n\n  #aa:exec gen-append\n\n  include if exists <local/gen-uselib>\n}\n'
GEN['gen-execu'] = 'abi <abi/4.0>,\n\ninclude <tunables/global>\n\n@{exec_path} = @{bin}/gen-execu\nprofile gen-execu @{exec_path} {\n  include <abstractions/base>\n\n  @{exec_path} mr,\n\n  #aa:exec U gen-t2 gen-t1\n\n  include if exists <local/gen-execu>\n}\n'
# three targets whose @{exec_path} values the library's file order ranks cyclically (a path without a known prefix between
# two with one, C11's listed finding): a sort of these depends on its input order, so the generated rules expose any
# order the exec directive takes from a map
for _n, _p in (('gen-c1', '/usr/share/verif/x'), ('gen-c2', '/etc/verif/y'), ('gen-c3', '/snap/bin/verif')):
    GEN[_n] = 'abi <abi/4.0>,\n\ninclude <tunables/global>\n\n@{exec_path} = %s\nprofile %s @{exec_path} {\n  include <abstractions/base>\n\n  @{exec_path} mr,\n\n  include if exists <local/%s>\n}\n' % (_p, _n, _n)
GEN['gen-exec3'] = 'abi <abi/4.0>,\n\ninclude <tunables/global>\n\n@{exec_path} = @{bin}/gen-exec3\nprofile gen-exec3 @{exec_path} {\n  include <abstractions/base>\n\n  @{exec_path} mr,\n\n  #aa:exec gen-c1 gen-c2 gen-c3\n\n  include if exists <local/gen-exec3>\n}\n'
GEN_HOSTS = ['gen-append', 'gen-uselib', 'gen-execu', 'gen-stack1', 'gen-stack2', 'gen-stackx', 'gen-exec2', 'gen-exec3', 'gen-dbus', 'gen-none']
STEP_RE = re.compile(r'^STEP (\d+) (\S+) sha=(\w+) globals=(\S*) err=(.*)$', re.M)


class SeqRunner:
    def __init__(self, ex, cfg):
        self.cfg = cfg; self.bin = ex.bins['inst']
        self.dir = os.path.join(ex.root, 'seq')
        shutil.rmtree(self.dir, ignore_errors=True); os.makedirs(self.dir)
        for d in cfgx.SRC_DIRS:
            shutil.copytree(os.path.join(ex.snap, d), os.path.join(self.dir, d), symlinks=True)
        r = self.proc({'VERIF_PREPARE_ONLY': '1', 'VERIF_MAPX': '-'})
        if r.returncode != 0:
            raise SystemExit('HARNESS ERROR: prepare-only run failed: ' + r.stdout.decode()[-500:])
        for n, t in GEN.items():
            open(os.path.join(self.dir, '.build/apparmor.d', n), 'w').write(t)
        self.n = 0

    def proc(self, env):
        e = dict(os.environ, DISTRIBUTION=self.cfg.dist, LC_ALL='C', GOMAXPROCS='1'); e.update(env)
        return subprocess.run([self.bin] + cfgx.args_of(self.cfg), cwd=self.dir, env=e, stdout=subprocess.PIPE, stderr=subprocess.STDOUT)

    def seq(self, names, sched='-'):
        self.n += 1
        r = self.proc({'VERIF_SEQ': ','.join(names), 'VERIF_MAPX': sched, 'VERIF_MAPX_TRACE': '1'})
        out = r.stdout.decode(errors='replace')
        steps = [(m[1], m[2], m[3], m[4]) for m in STEP_RE.findall(out)]
        if r.returncode != 0 or len(steps) != len(names):
            return None, out
        return steps, out

    def hosts(self):
        root = os.path.join(self.dir, '.build/apparmor.d')
        st, ex_, db, flt = [], [], [], []
        for f in sorted(os.listdir(root)):
            p = os.path.join(root, f)
            if not os.path.isfile(p) or f.startswith('gen-'):
                continue
            t = open(p, errors='replace').read()
            if '#aa:stack' in t: st.append(f)
            elif '#aa:exec' in t: ex_.append(f)
            elif '#aa:dbus' in t and len(db) < 3: db.append(f)
            elif ('#aa:only' in t or '#aa:exclude' in t) and len(flt) < 2: flt.append(f)
        return st, ex_, db, flt


def part3(ex, tier, ev, fnd):
    cfg = cfgx.Cfg('arch', 4, '4.1', 'complain', True)
    sr = SeqRunner(ex, cfg)
    st, exh, db, flt = sr.hosts()
    K = GEN_HOSTS + st + (exh + db + flt if tier == 'thorough' else exh[:2] + db[:1])
    pool = ThreadPoolExecutor(C.NPROC)
    # fresh-process baseline, replayed twice
    fresh = {}
    for k, (a, b) in zip(K, pool.map(lambda k: (sr.seq([k]), sr.seq([k])), K)):
        if a[0] is None:
            raise SystemExit('HARNESS ERROR: single-step run of %s failed: %s' % (k, a[1][-400:]))
        if a[0] != b[0]:
            raise SystemExit('HARNESS ERROR: same schedule, different observation for ' + k)
        fresh[k] = (a[0][0][1], a[0][0][3], a[0][0][2], sites_of(a[1]))      # sha, err, globals, sites
    ev.sample({'fresh_process_baseline': {k: fresh[k][0][:12] for k in K[:8]}})
    # every map start inside a single step
    sched_jobs = []
    for k in K:
        for s, n, B, _, fn in select_sites([x for x in fresh[k][3] if '.init' not in x[4] and 'cli.Configure' not in x[4]], tier, ev, 'step ' + k):
            for alt in alts_for(n, B, 'thorough'):
                sched_jobs.append((k, '%d:%d' % (s, alt), fn))
    for (k, sched, fn), (steps, out) in zip(sched_jobs, pool.map(lambda j: sr.seq([j[0]], j[1]), sched_jobs)):
        if steps is None:
            fnd.report('step-fails-under-schedule host=%s' % k, 'Run(%s) fails under map schedule %s: %s' % (k, sched, out[-300:]), {'seq': [k], 'schedule': sched}); continue
        if (steps[0][1], steps[0][3]) != fresh[k][:2]:
            fnd.report('map-order host=%s fn=%s' % (k, '.'.join(fn.split('.')[-2:])), 'text produced for %s depends on the iteration order of a map ranged in %s (VERIF_MAPX=%s)' % (k, fn, sched),
                       {'config': cfg._asdict(), 'seq': [k], 'schedule': sched})
    # all sequences up to length 3 (quick: over generated + stack hosts)
    H = K if tier == 'thorough' else GEN_HOSTS + st
    seqs = [list(s) for L in (2, 3) for s in itertools.product(H, repeat=L)]
    states = {fresh[k][2] for k in K}
    nsteps = 0

    def judge(names, steps, out):
        nonlocal nsteps
        if steps is None:
            fnd.report('sequence-fails last=%s' % names[-1], 'sequence %s fails in-process: %s' % (names, out[-300:]), {'seq': names}); return
        for i, (name, sha, glob, err) in enumerate(steps):
            nsteps += 1
            states.add(glob)
            if (sha, err) != fresh[name][:2]:
                fnd.report('carried-state host=%s' % name,
                           'text produced for %s as step %d of the in-process sequence %s differs from what a fresh process produces for it (package state before: %s)' % (
                               name, i + 1, names, steps[i - 1][2] if i else 'initial'),
                           {'config': cfg._asdict(), 'seq': names, 'step': i})
                return
    for names, (steps, out) in zip(seqs, pool.map(lambda s: sr.seq(s), seqs)):
        judge(names, steps, out)
    # BFS over package-level state to depth 6: expand only prefixes that reach a new state
    frontier = [([k], fresh[k][2]) for k in K]
    seen = {g for _, g in frontier}
    depth = 1; bfs_runs = 0
    init_states = set(seen)
    while frontier and depth < 6:
        depth += 1
        cand = [p + [k] for p, g in frontier for k in K]
        nxt = []
        for names, (steps, out) in zip(cand, pool.map(lambda s: sr.seq(s), cand)):
            bfs_runs += 1
            judge(names, steps, out)
            if steps is not None and steps[-1][2] not in seen:
                seen.add(steps[-1][2]); nxt.append((names, steps[-1][2]))
        # one representative prefix per new state
        frontier = nxt
        if len(init_states) == len(seen) and depth >= 2:
            break
    ev.add(states=len(seen), transitions=nsteps, seq_processes=sr.n, seq_hosts=K, seq_sequences=len(seqs) + bfs_runs,
           seq_single_step_map_schedules=len(sched_jobs), seq_distinct_package_states=sorted(seen)[:20], seq_bfs_depth=depth)
    ev.sample({'sequence': seqs[len(seqs) // 2], 'verdict': 'each step equal to its fresh-process text'})
    pool.shutdown()


def part4(tier, ev, fnd):
    """twin hosts: two profiles that differ in their name only, one sorting before and one after the profile both name in a
    stack / exec directive, must be built to the same text (modulo the name): the text produced for a profile depends on
    the profiles it names, not on where its own name falls in the processing order"""
    def host(n, directive):
        return ('abi <abi/4.0>,\n\ninclude <tunables/global>\n\n@{exec_path} = @{bin}/%s\nprofile %s @{exec_path} {\n  include <abstractions/base>\n\n  @{exec_path} mr,\n\n  %s\n\n'
                '  include if exists <local/%s>\n}\n' % (n, n, directive, n))
    helper = ('abi <abi/4.0>,\n\ninclude <tunables/global>\n\n@{exec_path} = @{bin}/verif-c02-mmm\n@{exec_path} += @{lib}/verif-c02-mmm\n@{exec_path} += /opt/verif-c02-mmm #aa:only opensuse\nprofile verif-c02-mmm @{exec_path} flags=(complain) {\n  include <abstractions/base>\n\n'
              '  @{exec_path} mr,\n  @{bin}/verif-x rPx,\n  @{bin}/verif-y rPUx,\n  /etc/verif-c02 r,\n\n  #aa:dbus own bus=session name=org.verif.C02\n\n  #aa:stack X verif-c02-ggg\n  @{bin}/verif-c02-ggg rPx,\n\n  # an ordinary comment\n  /etc/verif-c02.d/ r,\n\n  profile sub flags=(complain) {\n    include <abstractions/base>\n    /etc/verif-c02.sub r,\n'
              '    include if exists <local/verif-c02-mmm_sub>\n  }\n\n  include if exists <local/verif-c02-mmm>\n}\n')
    # the profile both hosts name is itself a host: it stacks a third profile (nested stack), and one line of its
    # preamble is guarded by an inline filter
    grand = ('abi <abi/4.0>,\n\ninclude <tunables/global>\n\n@{exec_path} = @{bin}/verif-c02-ggg\nprofile verif-c02-ggg @{exec_path} {\n  include <abstractions/base>\n\n'
             '  @{exec_path} mr,\n  @{bin}/verif-c02-helper rPx,\n  /etc/verif-c02-ggg r,\n\n  include if exists <local/verif-c02-ggg>\n}\n')
    extra = {'apparmor.d/groups/apps/verif-c02-mmm': helper, 'apparmor.d/groups/apps/verif-c02-ggg': grand}
    for kind, d in (('stackx', '#aa:stack X verif-c02-mmm'), ('stack', '#aa:stack verif-c02-mmm'), ('exec', '#aa:exec verif-c02-mmm')):
        for pos in ('aaa', 'zzz'):
            extra['apparmor.d/groups/apps/verif-c02-%s-%s' % (pos, kind)] = host('verif-c02-%s-%s' % (pos, kind), d)
    cfgs = [cfgx.Cfg('arch', 4, '4.1', 'enforce', True), cfgx.Cfg('debian', 3, '3.0', 'complain', False)]
    ex = cfgx.Explorer(extra_src=extra, jobs=2)
    try:
        trees = ex.build_all(cfgs)
    finally:
        ex.close()
    n = 0
    for c in cfgs:
        for kind in ('stackx', 'stack', 'exec'):
            a = ex.text(trees[c]['apparmor.d/verif-c02-aaa-' + kind]).replace('verif-c02-aaa-', 'verif-c02-NNN-')
            z = ex.text(trees[c]['apparmor.d/verif-c02-zzz-' + kind]).replace('verif-c02-zzz-', 'verif-c02-NNN-')
            n += 1
            if a != z:
                import difflib
                d = [l for l in difflib.unified_diff(a.split('\n'), z.split('\n'), 'sorted before its target', 'sorted after its target', lineterm='', n=0) if not l.startswith(('---', '+++', '@@'))]
                fnd.report('twin-hosts-differ directive=%s' % kind, '%s: two profiles that differ in their name only are built differently depending on whether they sort before or after the profile they %s: %s' % (
                    cfgx.tag(c), kind, d[:6]), {'config': c._asdict(), 'directive': kind})
    ev.add(transitions=n, twin_host_pairs=n)


def run(tier):
    ev = C.Evidence(PROP, tier); fnd = C.Findings(PROP)
    part4(tier, ev, fnd)
    ex = cfgx.Explorer()
    try:
        # plain and instrumented binaries must agree before anything the instrumented one says is used
        probe = [cfgx.Cfg('arch', 4, '4.1', 'complain', False), cfgx.Cfg('debian', 3, '3.0', 'enforce', False)]
        a = ex.build_all(probe, binary='plain'); b = ex.build_all(probe, binary='inst', env={'VERIF_MAPX': ''})
        for c in probe:
            if a[c] != b[c] and not any('map-order' in s for s in fnd.viol):
                d = diff_trees(a[c], b[c])
                ev.add(plain_vs_instrumented_differences=d[:5])
        part3(ex, tier, ev, fnd)
        part1(ex, tier, ev, fnd)
        part2(ex, tier, ev, fnd)
    finally:
        ex.close()
    ev.add(traces_validated_against_impl=ev.cov['transitions'])
    ev.add(rule='every execution is a run of the real prebuild code; state = Merkle map of .build (parts 1, 2) or dump of the package-level variables (part 3); transition = one prebuild run / one builder.Run+directive.Run step')
    ev.assume('map order: every (start bucket, offset) go1.23.5 can choose is enumerated (rotations of the bucket/slot order), not all n! permutations; for maps with more than 8 entries the order also depends on the per-process hash keys, which the instrumented runtime fixes from VERIF_MAPX_SEED: a stated set of seeds is explored, not all 2^32',
              'quick tier: maps with B >= 4 (flags manifests) get every bucket at offset 0 and every offset at bucket 0 instead of all bucket x offset pairs')
    return C.conclude(ev, fnd)


def replay(path):
    j = json.load(open(path)); rp = j['replay'] or {}
    print(json.dumps(j, indent=1))
    if 'seq' in rp:
        ex = cfgx.Explorer(jobs=1)
        sr = SeqRunner(ex, cfgx.Cfg(**rp['config']) if 'config' in rp else cfgx.Cfg('arch', 4, '4.1', 'complain', True))
        steps, out = sr.seq(rp['seq'], rp.get('schedule', '-'))
        bad = False
        for name, sha, glob, err in steps or []:
            f, _ = sr.seq([name])
            print(name, 'in sequence', sha[:16], 'fresh', f[0][1][:16])
            bad |= (sha != f[0][1])
        ex.close()
        if bad:
            print('VIOLATION property=%s replay=%s' % (PROP, path))
        return 1 if bad else 0
    return 0
