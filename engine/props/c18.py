"""C18 -- build options are orthogonal: each changes only what it governs.

States      : build trees of the real prebuild for every configuration (thorough: all 180; quick: the covering
              set plus every neighbour of the default configuration)
Transitions : every unordered pair of explored configurations at Hamming distance 1 (thorough: all 900)
Oracle      : files are matched by Merkle entry; every file present on one side only and every differing line of
              a file present on both sides must fall in a class the changed option governs:
                mode    -> block-header lines
                abi     -> `abi/4.0` <-> `abi/3.0`, an AppArmor-4-only rule turned into a comment, lines of an
                           abi*-guarded paragraph of the source, overwrite renames + disable/ links
                version -> lines of an apparmor*-guarded paragraph, the version-conditional configure files
                dist    -> lines of a distribution/family-guarded paragraph, files the two ignore lists treat
                           differently, header flags of profiles a flags manifest names, configure files
                full    -> the exec-mode token of file rules, the full-policy profiles, tunables/multiarch.d/profiles,
                           abstractions/gstreamer, the systemd drop-ins
              Guarded regions come from the *source* through the C03 reference model; expected file sets from the
              C04 reference model; rules are read with the independent tokenizer.
"""
import difflib, json, os, re
from .. import common as C, cfgx, scan
from . import c04

PROP = 'C18'
AXES = ['dist', 'abi', 'ver', 'mode', 'full']
FAMILY = {'debian': 'apt', 'ubuntu': 'apt', 'whonix': 'apt', 'arch': 'pacman', 'opensuse': 'zypper'}
RE_DIR = re.compile(r'^(.*?)\s*#aa:(only|exclude)((?: .*)?)$')


def filter_class(f):
    if re.match(r'^abi\d+$', f): return 'abi'
    if re.match(r'^apparmor\d', f): return 'ver'
    return 'dist'


def norm(line):
    """canonical form of a policy line under the option-governed rewrites (harness-side, not repo code)"""
    l = ' '.join(line.split())
    l = l.replace('abi/3.0', 'abi/4.0')
    l = re.sub(r'^# (userns,|mqueue\b)', r'\1', l)
    l = re.sub(r'(?<![A-Za-z])([rwmlk]*)(PU|pu|P|p|U|u|C|c)(i?)x\b', lambda m: m.group(1) + m.group(2).lower() + m.group(3) + 'x', l)
    l = re.sub(r'r(pu|u)x,', 'rpx,', l)      # what --full makes of an unconfined fallback (applied to both sides)
    return l


def guarded_lines(text):
    """[(normalised line, set of filter classes)] for every guarded line of a source text (C03 model)"""
    out = []
    in_para = False; para_classes = set()
    for l in text.split('\n'):
        if not l.strip():
            in_para = False; para_classes = set(); continue
        m = RE_DIR.match(l)
        if m:
            cls = {filter_class(f) for f in m.group(3).split()}
            if not m.group(1).strip():
                if in_para: para_classes |= cls
                else: in_para, para_classes = True, set(cls)
                continue
            out.append((norm(m.group(1)), cls | (para_classes if in_para else set())))
            continue
        if in_para:
            out.append((norm(l), set(para_classes)))
    return out


class SourceIndex:
    def __init__(self):
        self.cache = {}

    def guards(self, path):
        if path not in self.cache:
            try:
                t = open(path, errors='surrogateescape').read()
            except OSError:
                t = ''
            g = guarded_lines(t)
            # stacked / exec'ed targets contribute their own guarded lines to the host's built text
            for m in re.finditer(r'#aa:(?:stack|exec)\s+(.*)$', t, re.M):
                for name in m.group(1).split():
                    for d, dn, fn in os.walk(os.path.join(C.REPO, 'apparmor.d')):
                        if name in fn and ('groups' in d or 'profiles-' in d):
                            g += guarded_lines(open(os.path.join(d, name), errors='surrogateescape').read())
            self.cache[path] = g
        return self.cache[path]


def exec_norm(line):
    """file rule with its exec transition abstracted (what --full may change)"""
    code, com = scan.split_comment(line)
    c = scan.classify(code)
    if c['kind'] == 'file' and c.get('perms') and c.get('exec_mode'):
        perms = scan.EXEC_RE.sub('X', c['perms'])
        return ('file', tuple(c['quals']), c['owner'], c['path'], perms, c.get('target'), com.strip())
    return None


def explain_pair(axis, ca, cb, ta, tb, ex, src, fnd, stats):
    fa, la, _, flagged_a, edit_a = c04.expected(ca, ex.snap)
    fb, lb, _, flagged_b, edit_b = c04.expected(cb, ex.snap)
    where = '%s <-> %s (%s)' % (cfgx.tag(ca), cfgx.tag(cb), axis)

    def viol(kind, path, what):
        fnd.report('%s axis=%s path=%s' % (kind, axis, re.sub(r'\.apparmor\.d$', '', path)), '%s: %s' % (where, what), {'a': ca._asdict(), 'b': cb._asdict(), 'path': path})
    keys = sorted(set(ta) | set(tb))
    # ABI 4 builds ship some profiles under <name>.apparmor.d (overwrite step): the renamed file is the same profile and
    # is compared with its ABI 3 counterpart like any other file present on both sides
    renamed = {}
    if axis == 'abi':
        for k in keys:
            k2 = k + '.apparmor.d'
            if (k in ta) != (k in tb) and (k2 in ta) != (k2 in tb) and (k in ta) != (k2 in ta):
                renamed[k] = k2
    work = []
    for k in keys:
        if k in renamed:
            ea = ta.get(k) or ta.get(renamed[k]); eb = tb.get(k) or tb.get(renamed[k])
            stats['renamed_pairs_compared'] = stats.get('renamed_pairs_compared', 0) + 1
            work.append((k, ea, eb))
        elif k in renamed.values():
            continue
        else:
            work.append((k, ta.get(k), tb.get(k)))
    for k, ea, eb in work:
        if ea == eb:
            continue
        stats['entries_differing'] += 1
        if ea is None or eb is None:
            present_in_model = ((k in fa or k[len('apparmor.d/'):] in la or k == 'apparmor.d/disable') if ea is not None else (k in fb or k[len('apparmor.d/'):] in lb or k == 'apparmor.d/disable'))
            absent_in_model = ((k not in fb and k[len('apparmor.d/'):] not in lb) if ea is not None else (k not in fa and k[len('apparmor.d/'):] not in la))
            e = ea or eb
            if e[0] == 'd':
                continue            # directories follow their files
            if axis == 'mode':
                viol('file-set-changes', k, '%s exists in one of the two builds only' % k); continue
            if axis == 'full' and (k.startswith('systemd/') or k.startswith('apparmor.d/') and os.path.exists(os.path.join(C.REPO, 'apparmor.d/groups/_full', k[len('apparmor.d/'):]))):
                continue
            if present_in_model and absent_in_model:
                continue            # the documented prepare model says so (ignore lists, configure step, overwrite renames)
            viol('file-set-changes', k, '%s exists in one of the two builds only and no documented step of the %s option explains it' % (k, axis))
            continue
        if ea[0] != 'f' or eb[0] != 'f':
            viol('entry-type-changes', k, '%s: %s vs %s' % (k, ea, eb)); continue
        if ea[1] == eb[1]:
            viol('mode-bits-change', k, 'permission bits of %s differ' % k); continue
        if axis == 'full' and (k in edit_a | edit_b or k.startswith('systemd/')):
            stats['editable_files'] += 1; continue
        A = ex.text(ea).split('\n'); B = ex.text(eb).split('\n')
        srcs = {p for p in (fa.get(k), fb.get(k)) if p}
        guards = [g for p in srcs for g in src.guards(p)]
        gset = {}
        for n, cls in guards:
            gset.setdefault(n, set()).update(cls)
        base = re.sub(r'\.apparmor\.d$', '', os.path.basename(k))
        # drop what the option explains on its own (blank lines; lines of a paragraph / inline directive guarded by a
        # filter of this option's class); what remains must pair up line by line
        def residue(L):
            out = []
            for i, l in enumerate(L):
                if not l.strip():
                    continue
                cls = gset.get(norm(l))
                if cls and axis in cls:
                    stats['lines_differing'] += 1
                    continue
                out.append((i, l))
            return out
        RA, RB = residue(A), residue(B)
        if len(RA) != len(RB):
            sm = difflib.SequenceMatcher(None, [l.strip() for _, l in RA], [l.strip() for _, l in RB], autojunk=False)
            odd = [(RA[i1:i2], RB[j1:j2]) for tag, i1, i2, j1, j2 in sm.get_opcodes() if tag != 'equal']
            x = odd[0] if odd else ([], [])
            viol('line-outside-governed-class', k, '%s: lines `%s` / `%s` exist on one side only and are not guarded by a %s filter in the source' % (
                k, [l.strip() for _, l in x[0]][:3], [l.strip() for _, l in x[1]][:3], axis))
            continue
        for (i, x), (j, y) in zip(RA, RB):
            if x.strip() == y.strip():
                continue
            stats['lines_differing'] += 1
            if not line_pair_ok(axis, x, y, k, base, flagged_a, flagged_b, gset):
                viol('line-outside-governed-class', k, '%s line %d: `%s` vs `%s` is not something the %s option governs' % (k, i + 1, x.strip(), y.strip(), axis))
                break


def line_pair_ok(axis, x, y, k, base, flagged_a, flagged_b, gset):
    if x == y:
        return True
    hx = scan.HDR.match(x); hy = scan.HDR.match(y)          # (a comment that spells a header is a comment)
    if axis == 'mode':
        return bool(hx and hy) and re.sub(r'flags\s*=\s*\([^)]*\)', '', x).split() == re.sub(r'flags\s*=\s*\([^)]*\)', '', y).split()
    if axis == 'abi':
        return norm(x) == norm(y) and (('abi/' in x) or x.lstrip().startswith(('# userns', '# mqueue', 'userns', 'mqueue')) or y.lstrip().startswith(('# userns', '# mqueue', 'userns', 'mqueue')))
    if axis == 'dist':
        if hx and hy and (base in flagged_a or base in flagged_b):
            return re.sub(r'flags\s*=\s*\([^)]*\)', '', x).split() == re.sub(r'flags\s*=\s*\([^)]*\)', '', y).split()
        cx, cy = gset.get(norm(x)), gset.get(norm(y))
        return bool(cx and cy and 'dist' in cx and 'dist' in cy)
    if axis == 'ver':
        cx, cy = gset.get(norm(x)), gset.get(norm(y))
        return bool(cx and cy and 'ver' in cx and 'ver' in cy)
    if axis == 'full':
        # a commented-out rule is rewritten like a rule (comment text, not policy): judged the same way
        a, b = exec_norm(re.sub(r'^(\s*)#\s*', r'\1', x)), exec_norm(re.sub(r'^(\s*)#\s*', r'\1', y))
        return a is not None and a == b
    return False


def run(tier):
    ev = C.Evidence(PROP, tier); fnd = C.Findings(PROP)
    if tier == 'thorough':
        cfgs = cfgx.all_configs()
    else:
        q = cfgx.qset()
        cfgs = list(dict.fromkeys(q + cfgx.neighbours(q[0]) + cfgx.neighbours(cfgx.Cfg('debian', 3, '3.0', 'enforce', True))))
    # a synthetic profile next to the shipped ones (in the harness' snapshot only): text that merely LOOKS like what an
    # option rewrites -- a mount source called mqueue, a path through abi/4.0, `rux,` inside an alternation or a target,
    # a qualifier rule block
    synth = ('abi <abi/4.0>,\n\ninclude <tunables/global>\n\n@{exec_path} = @{bin}/verif-c18\nprofile verif-c18 @{exec_path} {\n  include <abstractions/base>\n\n'
             '  mount fstype=mqueue options=(rw nodev noexec nosuid)   mqueue -> /dev/mqueue/,\n\n  @{exec_path} mr,\n  @{bin}/{crux,prt-get} rPx,\n  @{bin}/pkgmk rPx -> crux,\n\n'
             '  /etc/apparmor.d/abi/4.0 r,\n  /etc/{crux,pkgadd.conf} r,\n\n  owner {\n    /srv/verif-c18/own r,\n  }\n\n  # profile pivoted {\n  #   /srv/verif-c18/p r,\n  # }\n\n  include if exists <local/verif-c18>\n}\n')
    # ... and one distribution's flags manifest names it (third hunt): the manifest may change its header flags, not the
    # qualifier block nor the commented-out header
    debflags = open(os.path.join(C.REPO, 'dists/flags/debian.flags')).read().rstrip('\n') + '\nverif-c18 complain\n'
    ex = cfgx.Explorer(extra_src={'apparmor.d/groups/apps/verif-c18': synth, 'dists/flags/debian.flags': debflags})
    try:
        trees = ex.build_all(cfgs)
    finally:
        ex.close()
    S = set(cfgs)
    pairs = []
    for c in cfgs:
        for n in cfgx.neighbours(c):
            if n in S and cfgs.index(n) > cfgs.index(c):
                axis = AXES[[i for i in range(5) if c[i] != n[i]][0]]
                pairs.append((axis, c, n))
    src = SourceIndex()
    stats = dict(entries_differing=0, lines_differing=0, editable_files=0)
    peraxis = {}
    for axis, a, b in pairs:
        peraxis[axis] = peraxis.get(axis, 0) + 1
        explain_pair(axis, a, b, trees[a], trees[b], ex, src, fnd, stats)
    ev.sample({'pair': '%s <-> %s' % (cfgx.tag(pairs[0][1]), cfgx.tag(pairs[0][2])), 'axis': pairs[0][0]})
    ev.sample({'pairs_per_axis': peraxis})
    ev.add(states=len(cfgs), transitions=len(pairs), traces_validated_against_impl=stats['lines_differing'], **stats)
    ev.add(rule='state = build tree of one configuration; transition = one pair of trees at Hamming distance 1, every differing entry and line classified')
    ev.assume('blank lines appearing or disappearing next to a guarded paragraph are layout', 'the exec-mode token may change with --full in any file rule (the property says "only exec transition modes"); which rules must change is C17',
              'file sets are compared with the documented prepare model (engine/props/c04.py)')
    return C.conclude(ev, fnd)


def replay(path):
    return C.replay_by_rerun(PROP, path)
