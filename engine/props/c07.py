"""C07 -- generating directives are fully consumed and expand to what they document.

 A. no `#aa:` survives in any file of any built tree (quick: covering set, thorough: all 180 configurations)
 B. dbus : every argument combination action x bus x name x path x interface x interface+ x label x indent,
           and every dbus directive of the shipped tree, through the real directive.Run; the output rules are
           read by an independent tokenizer and checked against the documented shape, and must be accepted
           by the reference parser
 C. exec : every transition {none,P,U,p,u,PU,pu} x 1-2 targets on a generated mini-tree and every shipped exec
           directive: one rule per value of each target's @{exec_path} (values from the reference parser's own
           expansion), requested mode, every target contributes
 E. composition: every ordered selection of <= 3 (thorough 4) distinct lines out of {stack of a profile carrying
           dbus/only/exclude directives, stack of a plain profile, stack of a profile that stacks, dbus, exec, inline
           only, inline exclude, plain rule, a dbus and an exec line that START with another line of the alphabet}:
           the output is the bare host plus what each line yields alone (compositional oracle); with a stack: nothing
           survives, and the output equals the output for the host whose stack directives were expanded by hand
 D. stack: generated targets (with/without exec rules, rules that merely contain "x,", a sub-profile, a directive
           inside) x {X, non-X} x 1-2 targets x hosts with 1-2 stack lines, and the shipped stack hosts of the
           prepared full-policy trees, against a line-based reference model (targets in the order given, minus the
           base include, minus @{exec_path} lines, minus -- unless X -- file rules with an exec mode, inserted
           before the trailing local include; host lines unchanged and in order).
"""
import itertools, json, os, re, shutil, subprocess
from .. import common as C, cfgx, scan, gox, refparser
from . import c02

PROP = 'C07'


# ---------------------------------------------------------------------------------------------- A


def leftovers(tier, ev, fnd):
    cfgs = cfgx.all_configs() if tier == 'thorough' else cfgx.qset()
    ex = cfgx.Explorer()
    try:
        trees = ex.build_all(cfgs)
    finally:
        ex.close()
    nfiles = 0; seen = {}
    for c in cfgs:
        for k, e in trees[c].items():
            if e[0] != 'f' or not k.startswith('apparmor.d/'):
                continue
            nfiles += 1
            if e[1] not in seen:
                t = ex.text(e)
                seen[e[1]] = [l.strip() for l in t.split('\n') if '#aa:' in l]
            for l in seen[e[1]]:
                fnd.report('leftover file=%s line=%s' % (k[len('apparmor.d/'):], l), '%s: directive `%s` survives in built file %s' % (cfgx.tag(c), l, k), {'config': c._asdict(), 'file': k})
    ev.add(states=len(cfgs), transitions=nfiles, built_files_scanned=nfiles, leftover_configurations=len(cfgs))
    return ex


# ---------------------------------------------------------------------------------------------- helpers


class Runner:
    """directive.Run through applyx inside a prepared tree (targets are read from .build/apparmor.d)"""

    def __init__(self, ex, cfg):
        self.sr = c02.SeqRunner(ex, cfg)
        self.cfg = cfg
        self.bins = gox.build(os.path.join(C.scratch(), 'gox'), ['applyx'])

    def add(self, name, text):
        open(os.path.join(self.sr.dir, '.build/apparmor.d', name), 'w').write(text)

    def read(self, name):
        return open(os.path.join(self.sr.dir, '.build/apparmor.d', name), errors='surrogateescape').read()

    def run(self, texts, name='host'):
        reqs = [{'op': 'directive', 'text': t, 'file': name, 'root': self.sr.dir, 'abi': self.cfg.abi, 'version': float(self.cfg.ver)} for t in texts]
        # one process per request: package-level state must not leak between cases here (that is C02's subject)
        out = []
        from concurrent.futures import ThreadPoolExecutor
        with ThreadPoolExecutor(C.NPROC) as pool:
            out = list(pool.map(lambda r: gox.jsonl(self.bins['applyx'], [r], env={'DISTRIBUTION': self.cfg.dist})[0], reqs))
        return out


def run_seq(rn, texts, name='host'):
    """all requests in ONE process, in the given order (a directive must not remember earlier directives)"""
    reqs = [{'op': 'directive', 'text': t, 'file': name, 'root': rn.sr.dir, 'abi': rn.cfg.abi, 'version': float(rn.cfg.ver)} for t in texts]
    return gox.jsonl(rn.bins['applyx'], reqs, env={'DISTRIBUTION': rn.cfg.dist})


def dbus_rules(text):
    """dbus rules of a text as dicts (independent tokenizer)"""
    res = []
    for r in scan.rules(text):
        c = scan.classify(r.raw)
        if c['kind'] != 'dbus':
            continue
        d = {'access': [], 'raw': r.raw, 'indent': r.indent}
        for t in c['tokens'][c['tokens'].index('dbus') + 1:] if 'dbus' in c['tokens'] else []:
            t = t.rstrip(',')
            if '=' in t and not t.startswith('('):
                k, v = t.split('=', 1)
                if k == 'peer':
                    for kv in re.findall(r'(name|label)=("[^"]*"|[^,)\s]+)', v):
                        d['peer_' + kv[0]] = kv[1].strip('"')
                else:
                    d[k] = v
            else:
                d['access'] += [x for x in re.split(r'[(),\s]+', t) if x]
        res.append(d)
    return res


# ---------------------------------------------------------------------------------------------- B


def dbus_part(rn, base, tier, ev, fnd):
    STD = {'org.freedesktop.DBus.Properties', 'org.freedesktop.DBus.Introspectable', 'org.freedesktop.DBus.ObjectManager'}
    cases = []
    for action, bus, name, path, iface, ifacep, label, indent in itertools.product(
            ('own', 'talk', 'common'), ('system', 'session', 'accessibility'), ('org.gen.Test', 'org.a11y.Bus'), (None, '/org/gen/Test'), (None, 'org.gen.Iface'),
            (None, 'org.gen.More'), (None, 'gen-peer'), (2, 4)):
        args = [action, 'bus=' + bus, 'name=' + name]
        if path: args.append('path=' + path)
        if iface: args.append('interface=' + iface)
        if ifacep: args.append('interface+=' + ifacep)
        if label: args.append('label=' + label)
        cases.append(dict(action=action, bus=bus, name=name, path=path, iface=iface, ifacep=ifacep, label=label, indent=indent, args=args, origin='generated'))
    # mandatory arguments missing
    for args in (['own', 'bus=session'], ['own', 'name=org.gen.Test'], ['talk', 'bus=session', 'name=org.gen.Test'], ['frobnicate', 'bus=session', 'name=org.gen.Test'], []):
        cases.append(dict(action='error', args=args, indent=2, origin='generated'))
    # every dbus directive of the shipped tree
    root = os.path.join(C.REPO, 'apparmor.d')
    for d, dn, fn in os.walk(root):
        for f in sorted(fn):
            for line in open(os.path.join(d, f), errors='replace'):
                m = re.match(r'^(\s*)#aa:dbus\s+(.*)$', line.rstrip('\n'))
                if m:
                    args = m.group(2).split()
                    am = dict(a.split('=', 1) for a in args[1:] if '=' in a)
                    cases.append(dict(action=args[0] if args else '', bus=am.get('bus'), name=am.get('name'), path=am.get('path'), iface=am.get('interface'), ifacep=am.get('interface+'),
                                      label=(am.get('label') or '').strip('"') or None, indent=len(m.group(1)), args=args, origin=os.path.relpath(os.path.join(d, f), root)))
    texts = []
    for c in cases:
        pad = ' ' * c['indent']
        if c['indent'] >= 4:
            t = 'profile host {\n  /x r,\n\n  profile sub {\n%s#aa:dbus %s\n\n%sinclude if exists <local/host_sub>\n  }\n\n  include if exists <local/host>\n}\n' % (pad, ' '.join(c['args']), pad)
        else:
            t = 'profile host {\n%s/x r,\n\n%s#aa:dbus %s\n\n%sinclude if exists <local/host>\n}\n' % (pad or '  ', pad, ' '.join(c['args']), pad or '  ')
        texts.append(t)
    res = rn.run(texts)
    accept_jobs = []
    for c, t, r in zip(cases, texts, res):
        where = 'dbus %s [%s]' % (' '.join(c['args']), c['origin'])
        sig = 'dbus action=%s origin=%s' % (c['action'], 'generated' if c['origin'] == 'generated' else 'shipped')
        if c['action'] == 'error' or (c['action'] in ('talk', 'common') and not c.get('label')):
            if not (r.get('err') or r.get('panic')):
                missing = 'label' if c['action'] in ('talk', 'common') else 'mandatory argument'
                fnd.report('dbus-missing-argument-accepted action=%s missing=%s' % (c['args'][0] if c['args'] else 'none', missing), '%s: a directive without its documented %s expands instead of failing' % (where, missing), {'text': t})
            elif r.get('panic'):
                fnd.report('dbus-panics', '%s panics: %s' % (where, r['panic']), {'text': t})
            continue
        if r.get('err') or r.get('panic'):
            fnd.report(sig + ' fails', '%s fails: %s' % (where, r.get('err') or r.get('panic')), {'text': t}); continue
        out = r['out']
        if '#aa:' in out:
            fnd.report(sig + ' marker-survives', '%s: the directive line survives' % where, {'text': t, 'out': out})
        hostlines = [l for l in t.split('\n') if l.strip() and '#aa:' not in l]
        outlines = [l for l in out.split('\n') if l.strip()]
        it = iter(outlines)
        if not all(any(h == o for o in it) for h in hostlines):
            fnd.report(sig + ' host-lines-changed', '%s: the host profile\'s own lines are not all kept in order' % where, {'text': t, 'out': out})
        rules = dbus_rules(out)
        name = c['name'] + '{,.*}'
        path = c['path'] or '/' + c['name'].replace('.', '/') + '{,/**}'
        given = {c['iface'] or c['name'] + '{,.*}'} | ({c['ifacep']} if c['ifacep'] else set())
        probs = []
        if not rules:
            probs.append('no dbus rule generated')
        for d in rules:
            if d.get('bus') != c['bus']:
                probs.append('rule on bus %s: %s' % (d.get('bus'), d['raw']))
            if d['indent'] != c['indent']:
                probs.append('rule indented by %d instead of %d: %s' % (d['indent'], c['indent'], d['raw']))
        binds = [d for d in rules if 'bind' in d['access']]
        others = [d for d in rules if 'bind' not in d['access']]
        if c['action'] == 'own':
            if len(binds) != 1 or binds[0].get('name') != name:
                probs.append('expected exactly one bind for %s, got %s' % (name, [b['raw'] for b in binds]))
            for d in others:
                if not set(d['access']) <= {'send', 'receive'}: probs.append('unexpected access: ' + d['raw'])
                if d.get('path') != path: probs.append('rule on another path: ' + d['raw'])
                if d.get('interface') not in given | STD: probs.append('rule on an interface that was not given: ' + d['raw'])
                if d.get('peer_label'): probs.append('own rule with a peer label: ' + d['raw'])
            for i in given:
                dirs = set(a for d in others if d.get('interface') == i for a in d['access'])
                if dirs != {'send', 'receive'}: probs.append('interface %s lacks a direction (%s)' % (i, sorted(dirs)))
        else:
            if binds: probs.append('talk/common generated a bind rule')
            for d in others:
                if not set(d['access']) <= {'send', 'receive'}: probs.append('unexpected access: ' + d['raw'])
                if d.get('path') != path: probs.append('rule on another path: ' + d['raw'])
                if d.get('peer_label') != c['label']: probs.append('rule not labelled with the given peer label: ' + d['raw'])
                if c['name'] not in (d.get('peer_name') or ''): probs.append('rule does not name the peer: ' + d['raw'])
                allowed = (given if c['action'] == 'talk' else set()) | STD
                if d.get('interface') not in allowed: probs.append('rule on an interface that was not given: ' + d['raw'])
            if c['action'] == 'talk':
                for i in given:
                    dirs = set(a for d in others if d.get('interface') == i for a in d['access'])
                    if dirs != {'send', 'receive'}: probs.append('interface %s lacks a direction (%s)' % (i, sorted(dirs)))
        for p in probs[:3]:
            fnd.report(sig + ' shape: ' + re.sub(r':.*', '', p)[:60], '%s: %s' % (where, p), {'text': t, 'out': out})
        accept_jobs.append((where, out))
    # the whole expansion must be acceptable to the reference parser
    stubs = {}
    for where, out in accept_jobs:
        body = out[out.index('{') + 1:out.rindex('}')]
        stubs.setdefault('abi <abi/4.0>,\ninclude <tunables/global>\nprofile host {\n%s\n}\n' % body.replace('include if exists <local/host_sub>', '').replace('include if exists <local/host>', ''), where)
    from concurrent.futures import ThreadPoolExecutor
    tmp = os.path.join(C.scratch(), 'c07p'); os.makedirs(tmp, exist_ok=True)

    def parse(item):
        i, (stub, where) = item
        p = os.path.join(tmp, 's%d.aa' % i); open(p, 'w').write(stub)
        ok, err, _ = refparser.parse(base, p, '-d')
        os.unlink(p)
        return where, ok, err, stub
    with ThreadPoolExecutor(C.NPROC) as pool:
        for where, ok, err, stub in pool.map(parse, enumerate(stubs.items())):
            if not ok:
                fnd.report('dbus-output-rejected', '%s: the reference parser rejects the expansion: %s' % (where, err), {'stub': stub})
    ev.add(transitions=len(cases), dbus_directives=len(cases), dbus_shipped=sum(1 for c in cases if c['origin'] != 'generated'), dbus_expansions_parsed_by_reference=len(stubs))
    ev.sample({'directive': '#aa:dbus ' + ' '.join(cases[5]['args']), 'rules': [d['raw'] for d in dbus_rules(res[5]['out'])][:3]})


# ---------------------------------------------------------------------------------------------- C


def expanded_exec_path(base, text):
    pre = text[:re.search(r'^profile\s', text, re.M).start()]
    tmp = os.path.join(C.scratch(), 'c07e.aa'); open(tmp, 'w').write(pre + 'profile p @{exec_path} {\n}\n')
    r = subprocess.run([C.PARSER, '-Q', '-K', '--policy-features', C.FEATURES, '--kernel-features', C.FEATURES, '-b', base, '-D', 'expanded-variables', '-d', tmp], capture_output=True, text=True, cwd=base)
    m = re.search(r'^@exec_path = (.*)$', r.stdout + r.stderr, re.M)
    return sorted({re.sub(r'/+', '/', v) for v in re.findall(r'"([^"]*)"', m.group(1))}) if m else None


def exec_part(rn, base, tier, ev, fnd):
    cases = []
    for tr in ('', 'P', 'U', 'p', 'u', 'PU', 'pu'):
        for targets in (['gen-t1'], ['gen-t2'], ['gen-t2', 'gen-t1'], ['gen-t1', 'gen-t2']):
            cases.append((tr, targets, 2, 'generated'))
        cases.append((tr, ['gen-t2'], 4, 'generated'))
    root = os.path.join(C.REPO, 'apparmor.d')
    for d, dn, fn in os.walk(root):
        for f in sorted(fn):
            for line in open(os.path.join(d, f), errors='replace'):
                m = re.match(r'^(\s*)#aa:exec\s+(.*)$', line.rstrip('\n'))
                if m:
                    a = m.group(2).split()
                    tr = a[0] if a and a[0] in ('P', 'U', 'p', 'u', 'PU', 'pu') else ''
                    tg = a[1:] if tr else a
                    if all(os.path.exists(os.path.join(rn.sr.dir, '.build/apparmor.d', t)) for t in tg):
                        cases.append((tr, tg, len(m.group(1)), f))
    texts = []
    for tr, targets, indent, origin in cases:
        pad = ' ' * indent
        texts.append('profile host {\n%s/x r,\n\n%s#aa:exec %s\n\n%sinclude if exists <local/host>\n}\n' % (pad, pad, ' '.join(([tr] if tr else []) + targets), pad))
    fresh = rn.run(texts)
    # the same directives again inside one process, in both orders: the expansion must not depend on what ran before
    fwd = run_seq(rn, texts)
    rev = list(reversed(run_seq(rn, list(reversed(texts)))))
    runs = [(c, t, r, 'fresh process') for c, t, r in zip(cases, texts, fresh)]
    runs += [(c, t, r, 'same process, after the preceding cases') for c, t, r in zip(cases, texts, fwd)]
    runs += [(c, t, r, 'same process, reverse order') for c, t, r in zip(cases, texts, rev)]
    # two directives in one host naming the same target with different transitions
    for tr1, tr2 in (('', 'U'), ('U', ''), ('P', 'pu'), ('pu', 'PU')):
        t = 'profile host {\n  /x r,\n\n  #aa:exec %s\n\n  profile sub {\n    #aa:exec %s\n  }\n\n  include if exists <local/host>\n}\n' % (
            (tr1 + ' gen-t2').strip(), (tr2 + ' gen-t2').strip())
        r = rn.run([t])[0]
        if r.get('err') or r.get('panic'):
            fnd.report('exec-fails origin=generated', 'two exec directives in one host fail: %s' % (r.get('err') or r.get('panic')), {'text': t}); continue
        modes = [c.get('perms') for c in (scan.classify(x.raw) for x in scan.rules(r['out'])) if c['kind'] == 'file' and c.get('path') != '/x']
        want = [(tr1 or 'P') + 'x'] * 2 + [(tr2 or 'P') + 'x'] * 2
        if sorted(modes) != sorted(want):
            fnd.report('exec-mode-wrong two-directives-one-target', 'host with `#aa:exec %s gen-t2` and `#aa:exec %s gen-t2`: generated modes %s, requested %s' % (tr1, tr2, modes, want), {'text': t, 'out': r['out']})
    vals = {}
    for (tr, targets, indent, origin), t, r, how in runs:
        where = '#aa:exec %s [%s, %s]' % (' '.join(([tr] if tr else []) + targets), origin, how)
        if r.get('err') or r.get('panic'):
            fnd.report('exec-fails origin=%s' % ('generated' if origin == 'generated' else 'shipped'), '%s fails: %s' % (where, r.get('err') or r.get('panic')), {'text': t}); continue
        out = r['out']
        if '#aa:' in out:
            fnd.report('exec-marker-survives', '%s: the directive line survives' % where, {'out': out})
        want = []
        for tg in targets:
            if tg not in vals:
                vals[tg] = expanded_exec_path(base, rn.read(tg))
            if vals[tg] is None:
                want = None; break
            want += [(v, tg) for v in vals[tg]]
        if want is None:
            ev.add(exec_targets_the_reference_cannot_expand=1); continue
        rules = [scan.classify(x.raw) for x in scan.rules(out)]
        gen = [c for c in rules if c['kind'] == 'file' and c.get('path') != '/x']
        mode = (tr or 'P') + 'x'
        got = sorted(re.sub(r'/+', '/', c['path']) for c in gen)
        if got != sorted(v for v, _ in want):
            fnd.report('exec-rules-differ transition=%s targets=%d' % (tr or 'default', len(targets)), '%s: generated rule paths %s, the targets\' @{exec_path} expands to %s' % (where, got, sorted(v for v, _ in want)), {'text': t, 'out': out})
        for c in gen:
            if c.get('perms') != mode or c.get('target'):
                fnd.report('exec-mode-wrong transition=%s' % (tr or 'default'), '%s: rule `%s` does not carry the requested mode %s' % (where, ' '.join(c['tokens']), mode), {'out': out})
        for x in scan.rules(out):
            if scan.classify(x.raw)['kind'] == 'file' and scan.classify(x.raw).get('path') != '/x' and x.indent != indent:
                fnd.report('exec-indentation', '%s: generated rule indented by %d instead of %d' % (where, x.indent, indent), {'out': out})
    ev.add(transitions=len(runs) + 4, exec_directives=len(cases), exec_runs=len(runs) + 4, exec_shipped=sum(1 for c in cases if c[3] != 'generated'))
    ev.sample({'directive': '#aa:exec PU gen-t2 gen-t1', 'expected_paths': (vals.get('gen-t2') or []) + (vals.get('gen-t1') or [])})


# ---------------------------------------------------------------------------------------------- D

TARGETS = {
    'st-plain': ['include <abstractions/base>', 'include <abstractions/nameservice-strict>', '', 'capability net_admin,', '', 'network unix,', 'network inet dgram,', '', '@{exec_path} mr,', '',
                 '/etc/st-plain r,', '/var/lib/matrix, r,', 'owner @{HOME}/.st rw,'],
    'st-exec': ['include <abstractions/base>', '', '@{exec_path} mr,', '', '@{bin}/sh rix,', '@{bin}/foo rPx,', '@{bin}/bar rPUx -> bar,', '@{lib}/x ux,', '@{bin}/baz rPx -> st-exec//&helper,', '@{bin}/gpg rCx -> st-exec//gpg,', '@{bin}/v Pix -> @{p_systemd},',
                '@{bin}/ns px -> :ns:other,', '', '/etc/st-exec r,', '/usr/share/unix, r,',
                'unix (send receive) type=stream peer=(label=unix),'],
    'st-sub': ['include <abstractions/base>', '', '@{exec_path} mr,', '@{bin}/less rCx -> pager,', '', '/etc/st-sub r,', '', 'profile pager {', '  include <abstractions/base>', '', '  @{bin}/less mr,', '',
               '  include if exists <local/st-sub_pager>', '}'],
}


def target_text(name, body):
    return ('abi <abi/4.0>,\n\ninclude <tunables/global>\n\n@{exec_path} = @{bin}/%s\nprofile %s @{exec_path} {\n' % (name, name) +
            ''.join(('  ' + l if l else '') + '\n' for l in body) + '\n  include if exists <local/%s>\n}\n' % name)


def body_lines(text):
    """lines between the top-level header and the closing brace of a profile file"""
    lines = text.split('\n')
    start = next(i for i, l in enumerate(lines) if re.match(r'^profile\s', l))
    end = max(i for i, l in enumerate(lines) if l.rstrip() == '}')
    return lines[start + 1:end]


def stack_model(host, targets, is_x, read):
    out = []
    for tg in targets:
        out.append('# Stacked profile: ' + tg)
        depth = 0
        for l in body_lines(read(tg)):
            s = l.strip()
            if not s:
                continue
            # a sub-profile or hat is ONE rule of the stacked profile: what is inside it is not the stacked profile's
            # base include, entry point or exec transition and is added unchanged
            if s.endswith('{') and not s.startswith('#'):
                depth += 1; out.append(s); continue
            if s == '}':
                depth -= 1; out.append(s); continue
            if depth == 0:
                if re.match(r'^include\s+<abstractions/base>$', s) or '@{exec_path}' in l:
                    continue
                if not is_x:
                    c = scan.classify(scan.split_comment(s)[0])
                    if c['kind'] == 'file' and c.get('exec_mode'):
                        continue
            out.append(s)
    return out


def stack_part(rn, tier, ev, fnd):
    for n, body in TARGETS.items():
        rn.add(n, target_text(n, body))
    cases = []
    names = list(TARGETS)
    for x in (False, True):
        for tg in [[a] for a in names] + [[a, b] for a in names for b in names if a != b]:
            cases.append((x, [tg], 'generated'))
        cases.append((x, [['st-plain'], ['st-exec']], 'generated'))       # host with two stack lines
    texts = []
    for x, lines, origin in cases:
        t = 'abi <abi/4.0>,\n\ninclude <tunables/global>\n\n@{exec_path} = @{bin}/host\nprofile host @{exec_path} {\n  include <abstractions/base>\n\n  @{exec_path} mr,\n  @{bin}/own rPx,\n\n'
        for tg in lines:
            t += '  #aa:stack %s%s\n' % ('X ' if x else '', ' '.join(tg))
        t += '\n  /etc/host r,\n\n  include if exists <local/host>\n}\n'
        texts.append(t)
    # shipped stack hosts as they are in the prepared tree
    st, _, _, _ = rn.sr.hosts()
    for h in st:
        t = rn.read(h)
        t2 = re.sub(r'#aa:(dbus|exec|only|exclude)', r'#ab:\1', t)
        lines = [m.group(1).split() for m in re.finditer(r'#aa:stack\s+(.*)$', t2, re.M)]
        x = bool(lines and lines[0] and lines[0][0] == 'X')
        # directives inside the stacked targets are neutralised too: their consumption is part A's subject
        for l in lines:
            for tg in l:
                if tg != 'X':
                    rn.add(tg, re.sub(r'#aa:(dbus|exec|only|exclude|stack)', r'#ab:\1', rn.read(tg)))
        cases.append((x, [[a for a in l if a != 'X'] for l in lines], h))
        texts.append(t2)
    res = rn.run(texts)
    for (x, lines, origin), t, r in zip(cases, texts, res):
        where = 'stack %s%s [%s]' % ('X ' if x else '', lines, origin)
        sig = 'stack origin=%s x=%s' % ('generated' if origin == 'generated' else origin, x)
        if r.get('err') or r.get('panic'):
            fnd.report(sig + ' fails', '%s fails: %s' % (where, r.get('err') or r.get('panic')), {'text': t}); continue
        out = r['out']
        if '#aa:stack' in out:
            fnd.report(sig + ' marker-survives', '%s: the directive line survives' % where, {'out': out})
        # expected: host lines (minus the directive lines) with the stacked block before the trailing local include(s)
        host = [l.strip() for l in t.split('\n') if l.strip() and '#aa:stack' not in l]
        got = [l.strip() for l in out.split('\n') if l.strip()]
        stacked = []
        for tg in lines:
            stacked += stack_model(t, tg, x, rn.read)
        # trailing `include if exists` run of the host's main block
        k = max(i for i, l in enumerate(host) if l == '}')
        j = k
        while j > 0 and host[j - 1].startswith('include if exists'):
            j -= 1
        want = host[:j] + stacked + host[j:]
        if got != want:
            import difflib
            d = [l for l in difflib.unified_diff(want, got, 'reference model', 'real output', lineterm='', n=0) if not l.startswith(('---', '+++', '@@'))]
            lost = [l[1:] for l in d if l.startswith('-')]; extra = [l[1:] for l in d if l.startswith('+')]
            cause = 'other'
            if lost and not extra and all(re.search(r'x,', l) for l in lost):
                cause = 'non-exec-line-containing-x-comma-removed'
            elif sorted(lost) == sorted(extra):
                cause = 'order'
            fnd.report(sig + ' cause=' + cause, '%s: output differs from the reference model; missing %s, unexpected %s' % (where, lost[:6], extra[:6]), {'text': t, 'out': out})
    ev.add(transitions=len(cases), stack_directives=len(cases), stack_shipped_hosts=len(st))
    ev.sample({'stack_case': 'host with `#aa:stack st-exec st-plain`', 'model': stack_model('', ['st-exec'], False, rn.read)[:6]})


# ---------------------------------------------------------------------------------------------- E

COMP_TARGETS = {
    # a stacked profile that itself carries directives, and one that stacks another (bounded chain)
    'st-dir': ['include <abstractions/base>', '', '@{exec_path} mr,', '', '#aa:dbus own bus=system name=org.example.Child', '', '/etc/st-dir r,', '/etc/st-dir.only r, #aa:only arch',
               '/etc/st-dir.excl r, #aa:exclude arch'],
    'st-chain': ['include <abstractions/base>', '', '@{exec_path} mr,', '', '/etc/st-chain r,', '', '#aa:stack st-dir'],
    # a guarded PARAGRAPH inside the stacked profile, with unguarded rules after it
    'st-para': ['include <abstractions/base>', '', '@{exec_path} mr,', '', '/etc/st-para.a r,', '', '#aa:only verif-no-such-target', '/etc/st-para.guarded r,', '/etc/st-para.guarded2 r,', '',
                '/etc/st-para.b r,', '', '/etc/st-para.c r,'],
}
# a file with a second top-level profile after the one that carries the file's name (as shipped: atril, man)
COMP_TWO = ('st-two', 'abi <abi/4.0>,\n\ninclude <tunables/global>\n\n@{exec_path} = @{bin}/st-two\nprofile st-two @{exec_path} {\n  include <abstractions/base>\n\n  @{exec_path} mr,\n\n  /etc/st-two r,\n\n'
            '  include if exists <local/st-two>\n}\n\nprofile st-two-helper @{bin}/st-two-helper {\n  include <abstractions/base>\n\n  /etc/st-two-helper r,\n\n  include if exists <local/st-two-helper>\n}\n')
COMP_TARGETS['st-chain3'] = ['include <abstractions/base>', '', '@{exec_path} mr,', '', '/etc/st-chain3 r,', '', '#aa:stack st-chain']      # (fourth hunt) three stacks deep, then st-dir's directives
COMP_TARGETS['st-guarded-bis'] = ['include <abstractions/base>', '', '@{exec_path} mr,', '', '/etc/st-guarded-bis r,']      # a name that starts with another target's name
COMP_TARGETS['st-guarded'] = ['include <abstractions/base>', '', '@{exec_path} mr,', '', '/etc/st-guarded r,']
COMP_TARGETS['st-exec-dir'] = ['include <abstractions/base>', '', '@{exec_path} mr,', '', '/etc/st-exec-dir r,', '', '#aa:exec gen-t1']
# what must / must not be in the output whenever the line is in the host (independent of the real code)
COMP_EXPECT = {'stack-two': (['/etc/st-two r,', 'include if exists <local/host>'], ['/etc/st-two-helper r,', 'profile st-two-helper @{bin}/st-two-helper {']),
               'stack-ovw': (['/etc/st-ovw r,'], []), 'exec-ovw': (['/{,usr/}{,s}bin/st-ovw Px,'], []),
               'stack-exec-dir': (['/etc/st-exec-dir r,'], ['/{,usr/}{,s}bin/gen-t1 Px,']),       # a stack without X adds no exec transition
               # (third hunt) a generating directive inside a paragraph that the target's filter removes yields nothing (`~` = substring)
               'guard-exec': ([], ['~bin/st-guarded Px,']), 'guard-stack': ([], ['/etc/st-guarded r,']), 'guard-dbus': ([], ['~org.example.Guarded']), 'guard-dbus-twin': ([], ['~org.example.Guarded', '/etc/host.twin r,']),
               'stack-para': (['/etc/st-para.a r,', '/etc/st-para.b r,', '/etc/st-para.c r,', 'include if exists <local/st-para>'], ['/etc/st-para.guarded r,', '/etc/st-para.guarded2 r,'])}
COMP_LINES = {
    'stack-dir': '  #aa:stack st-dir',
    'stack-plain': '  #aa:stack st-plain',
    'stack-chain': '  #aa:stack st-chain',
    'stack-chain3': '  #aa:stack st-chain3',
    'stack-para': '  #aa:stack st-para',
    'stack-exec-dir': '  #aa:stack st-exec-dir',
    'stack-two': '  #aa:stack st-two',
    'stack-ovw': '  #aa:stack st-ovw',
    'exec-ovw': '  #aa:exec st-ovw',
    'dbus': '  #aa:dbus own bus=session name=org.example.Host',
    'exec': '  #aa:exec gen-t1',
    'only': '  /etc/host.only r, #aa:only arch',
    'exclude': '  /etc/host.excl r, #aa:exclude arch',
    'rule': '  /etc/host.plain r,',
    # directive lines that START with another directive line of this alphabet (a longer bus name, a longer profile name)
    'dbus-sub': '  #aa:dbus own bus=session name=org.example.Host.Sub',
    'exec-bis': '  #aa:exec gen-t1-bis',
    # generating directives inside a guarded paragraph that this build (arch) drops
    'guard-exec': '  #aa:only apt\n  #aa:exec st-guarded',
    'guard-stack': '  #aa:only apt\n  #aa:stack st-guarded',
    'guard-dbus': '  #aa:exclude arch\n  #aa:dbus own bus=session name=org.example.Guarded',
    # (regression hunt) an unguarded stack whose line starts with the line of the guarded one (substring test in Run)
    'stack-guarded-bis': '  #aa:stack st-guarded-bis',
    # (fourth hunt) the same generating line in a second paragraph dropped by another guard
    'guard-dbus-twin': '  #aa:only apt\n  #aa:dbus own bus=session name=org.example.Guarded\n  /etc/host.twin r,',
}


def comp_host(seq):
    t = 'abi <abi/4.0>,\n\ninclude <tunables/global>\n\n@{exec_path} = @{bin}/host\nprofile host @{exec_path} {\n  include <abstractions/base>\n\n  @{exec_path} mr,\n\n'
    for tag in seq:
        t += COMP_LINES[tag] + '\n\n'
    return t + '  include if exists <local/host>\n}\n'


def inline_stacks(text, read, depth=0):
    """the host with every stack directive replaced by what the documented model says it adds (directives the
    stacked text carries stay alive), repeated until no stack directive is left"""
    if depth > 4:
        raise RuntimeError('stack chain too deep for the harness')
    lines = text.split('\n')
    stacks = [(i, l) for i, l in enumerate(lines) if re.match(r'^\s*#aa:stack\s', l)]
    if not stacks:
        return text
    stacked = []
    for i, l in stacks:
        a = l.split('#aa:stack', 1)[1].split()
        x = bool(a and a[0] == 'X')
        stacked += ['  ' + m for m in stack_model(text, [t for t in a if t != 'X'], x, read)]
    keep = [l for i, l in enumerate(lines) if i not in {i for i, _ in stacks}]
    k = max(i for i, l in enumerate(keep) if l.rstrip() == '}')
    j = k
    while j > 0 and keep[j - 1].strip().startswith('include if exists'):     # the run directly above the brace
        j -= 1
    return inline_stacks('\n'.join(keep[:j] + stacked + [''] + keep[j:]), read, depth + 1)


def placement_part(rn, ev, fnd):
    """(fourth hunt) where the generated text lands, and how a directive that cannot be honoured ends: a stack written inside a
    sub-profile belongs to that sub-profile; `stack X` keeps the exec rules of the stacked profile -- also one whose path
    only starts with @{exec_path}; an exec directive naming a profile without @{exec_path} must end in an error, not a panic"""
    rn.add('st-child-src', target_text('st-child-src', ['include <abstractions/base>', '', '@{exec_path} mr,', '', '/etc/st-child-src r,']))
    rn.add('st-ipam', target_text('st-ipam', ['include <abstractions/base>', '', '@{exec_path} mr,', '@{exec_path}-ipam rix,', '', '/etc/st-ipam r,']))
    rn.add('st-noatt', 'abi <abi/4.0>,\n\ninclude <tunables/global>\n\nprofile st-noatt {\n  include <abstractions/base>\n\n  /etc/st-noatt r,\n\n  include if exists <local/st-noatt>\n}\n')
    head = 'abi <abi/4.0>,\n\ninclude <tunables/global>\n\n@{exec_path} = @{bin}/host\nprofile host @{exec_path} {\n  include <abstractions/base>\n\n  @{exec_path} mr,\n\n'
    tail = '  include if exists <local/host>\n}\n'
    h_child = head + '  profile child {\n    include <abstractions/base>\n\n    /etc/host.child r,\n\n    #aa:stack st-child-src\n\n    include if exists <local/host_child>\n  }\n\n' + tail
    h_ipam = head + '  #aa:stack X st-ipam\n\n' + tail
    h_noatt = head + '  #aa:exec st-noatt\n\n' + tail
    r_child, r_ipam, r_noatt = rn.run([h_child, h_ipam, h_noatt])
    if r_child.get('err') or r_child.get('panic'):
        fnd.report('placement-stack-in-sub-profile fails', 'a stack directive inside a sub-profile fails: %s' % (r_child.get('err') or r_child.get('panic')), {'text': h_child})
    else:
        blocks = {}
        cur = []
        for l in r_child['out'].split('\n'):
            m = scan.HDR.match(l)
            if m:
                cur.append(m.group(3))
            elif l.strip() == '}' and cur:
                cur.pop()
            elif l.strip():
                blocks.setdefault('//'.join(cur), []).append(l.strip())
        if '/etc/st-child-src r,' not in blocks.get('host//child', []) or '/etc/st-child-src r,' in blocks.get('host', []):
            fnd.report('placement-stack-in-sub-profile-lands-in-parent', 'a stack directive written inside `profile child` of host puts the stacked rules into %s' % sorted(k for k, v in blocks.items() if '/etc/st-child-src r,' in v),
                       {'text': h_child, 'out': r_child['out']})
    if r_ipam.get('err') or r_ipam.get('panic'):
        fnd.report('placement-stack-x-exec-path-prefix fails', '`stack X` fails: %s' % (r_ipam.get('err') or r_ipam.get('panic')), {'text': h_ipam})
    elif not any(l.strip().endswith('-ipam rix,') for l in r_ipam['out'].split('\n')):
        fnd.report('placement-stack-x-drops-rule-starting-with-exec_path', '`#aa:stack X` keeps exec rules but drops `@{exec_path}-ipam rix,` of the stacked profile (every line naming @{exec_path} is removed, not only the entry point)',
                   {'text': h_ipam, 'out': r_ipam['out']})
    if r_noatt.get('panic'):
        fnd.report('placement-exec-of-profile-without-exec_path panics', 'an exec directive naming a profile without @{exec_path} panics: %s' % str(r_noatt['panic'])[:160], {'text': h_noatt})
    elif not r_noatt.get('err') and '#aa:' in r_noatt.get('out', ''):
        fnd.report('placement-exec-of-profile-without-exec_path survives', 'the directive line survives', {'text': h_noatt})
    ev.add(transitions=3, placement_hosts=3)


def composition_part(rn, tier, ev, fnd):
    """directives next to one another and directives brought in by a stacked profile: nothing may survive, and
    the result must equal the result for the host in which the stack directives were expanded by hand"""
    for n, body in COMP_TARGETS.items():
        rn.add(n, target_text(n, body))
    for n, body in TARGETS.items():
        rn.add(n, target_text(n, body))
    rn.add('gen-t1-bis', rn.read('gen-t1').replace('gen-t1', 'gen-t1-bis'))
    rn.add(COMP_TWO[0], COMP_TWO[1])
    # a target the overwrite step renamed (ABI 4): the file is <name>.apparmor.d, the directive says <name>
    rn.add('st-ovw.apparmor.d' if rn.cfg.abi == 4 else 'st-ovw', target_text('st-ovw', ['include <abstractions/base>', '', '@{exec_path} mr,', '', '/etc/st-ovw r,']))
    tags = list(COMP_LINES)
    L = 4 if tier == 'thorough' else 3
    allseqs = [list(s) for n in range(1, L + 1) for s in itertools.permutations(tags, n)]
    if tier == 'thorough':
        allseqs = [s for s in allseqs if len(s) < 4 or any(t.startswith('stack') for t in s)]
    # oracle 1 (compositional): every directive line yields its own lines, whatever stands next to it -- the non-blank
    # lines of Run(host with lines s) are the lines of the bare host plus, for each line t of s, what Run adds for t alone
    from collections import Counter
    base = rn.run([comp_host([])] + [comp_host([t]) for t in tags])
    broken = set()
    for t, r in zip(['<bare host>'] + tags, base):
        if r.get('err') or r.get('panic'):
            if t in COMP_EXPECT:
                # the directive itself fails on a target it is expected to handle: a violation, not a harness problem
                fnd.report('composition-directive-fails line=%s' % t, 'host with the single line `%s` fails: %s' % (COMP_LINES[t].strip(), r.get('err') or r.get('panic')), {'text': comp_host([t])})
                broken.add(t); r['out'] = comp_host([])
                continue
            raise SystemExit('HARNESS ERROR: single-line composition host %s fails: %s' % (t, r.get('err') or r.get('panic')))
    allseqs = [s for s in allseqs if not (set(s) & broken)]
    fixed = Counter(l.strip() for l in base[0]['out'].split('\n') if l.strip())
    own = {t: Counter(l.strip() for l in r['out'].split('\n') if l.strip()) - fixed for t, r in zip(tags, base[1:])}
    allres = rn.run([comp_host(s) for s in allseqs])
    for s, r in zip(allseqs, allres):
        where = 'host with directive lines %s' % s
        if r.get('err') or r.get('panic'):
            fnd.report('composition-fails lines=%d' % len(s), '%s fails: %s' % (where, r.get('err') or r.get('panic')), {'text': comp_host(s)}); continue
        got = Counter(l.strip() for l in r['out'].split('\n') if l.strip())
        for t in s:
            must, mustnot = COMP_EXPECT.get(t, ([], []))
            lost = [l for l in must if l not in got]
            kept = [l for l in mustnot if (any(l[1:] in g for g in got) if l.startswith('~') else l in got) and not (t == 'stack-exec-dir' and 'exec' in s)]     # the host's own `#aa:exec gen-t1` yields that line legitimately
            if lost or kept:
                what = {'stack-para': 'guarded-paragraph-in-stacked-profile', 'stack-exec-dir': 'exec-directive-in-stacked-profile', 'stack-two': 'stacked-file-with-two-profiles',
                        'guard-exec': 'generating-directive-in-a-removed-paragraph', 'guard-stack': 'generating-directive-in-a-removed-paragraph', 'guard-dbus': 'generating-directive-in-a-removed-paragraph', 'guard-dbus-twin': 'generating-directive-in-a-removed-paragraph'}.get(t, 'target-renamed-by-overwrite')
                fnd.report('composition-%s lost=%d kept=%d' % (what, bool(lost), bool(kept)),
                           '%s: %s: expected lines %s are lost, lines that must not be there %s are' % (where, what, lost, kept),
                           {'text': comp_host(s), 'out': r['out']})
        if any(t in COMP_EXPECT for t in s):
            continue            # judged by the explicit expectation above (the sum would only repeat a finding of it)
        want = Counter(fixed)
        for t in s:
            want += own[t]
        if sum(t in s for t in ('stack-chain', 'stack-dir', 'stack-chain3')) > 1:
            got, want = Counter(set(got)), Counter(set(want))          # the same profile reaches the host twice
        if got != want:
            kinds = sorted({t.split('-')[0] for t in s})
            fnd.report('composition-not-the-sum kinds=%s' % '+'.join(kinds), '%s: the output is not the bare host plus what each line yields alone; missing %s, unexpected %s' % (
                where, sorted((want - got).elements())[:4], sorted((got - want).elements())[:4]), {'text': comp_host(s), 'out': r['out']})
    ev.add(transitions=len(allseqs) + len(tags) + 1, composition_sum_hosts=len(allseqs))
    # oracle 2 (differential): stack directives expanded by hand
    seqs = [s for s in allseqs if any(t.startswith('stack') for t in s) and not any(t in COMP_EXPECT for t in s)]
    hosts = [comp_host(s) for s in seqs]
    inlined = [inline_stacks(h, rn.read) for h in hosts]
    res = rn.run(hosts + inlined)
    real, ref = res[:len(hosts)], res[len(hosts):]
    for s, h, r, q in zip(seqs, hosts, real, ref):
        where = 'host with directive lines %s' % s
        shape = 'stack-then-%s' % ('other' if not s[-1].startswith('stack') else 'nothing')
        if r.get('err') or r.get('panic'):
            fnd.report('composition-fails ' + shape, '%s fails: %s' % (where, r.get('err') or r.get('panic')), {'text': h}); continue
        if q.get('err') or q.get('panic'):
            print('HARNESS NOTE: hand-expanded host rejected for %s: %s' % (s, q.get('err') or q.get('panic'))); continue
        out = r['out']
        left = [l.strip() for l in out.split('\n') if '#aa:' in l]
        if left:
            fnd.report('composition-directive-survives ' + shape, '%s: %s survive(s) in the output' % (where, left[:3]), {'text': h, 'out': out}); continue
        got = [l.strip() for l in out.split('\n') if l.strip()]
        want = [l.strip() for l in q['out'].split('\n') if l.strip()]
        if sum(t in s for t in ('stack-chain', 'stack-dir', 'stack-chain3')) > 1:
            # the same profile reaches the host twice (directly and through the chain): whether its rules are added
            # once or twice is the same policy -- compared as sets there
            got, want = sorted(set(got)), sorted(set(want))
        if got != want:
            import difflib
            d = [l for l in difflib.unified_diff(want, got, 'hand-expanded host', 'real output', lineterm='', n=0) if not l.startswith(('---', '+++', '@@'))]
            fnd.report('composition-differs ' + shape, '%s: output differs from the output for the hand-expanded host: %s' % (where, d[:6]), {'text': h, 'out': out, 'want': q['out']})
    ev.add(transitions=2 * len(seqs), composition_hosts=len(seqs), composition_max_directive_lines=L)
    ev.sample({'composition_case': seqs[-1], 'oracle': 'no #aa: left; equal to directive.Run on the host with stack directives expanded by hand'})


def run(tier):
    ev = C.Evidence(PROP, tier); fnd = C.Findings(PROP)
    ex = leftovers(tier, ev, fnd)
    ex2 = cfgx.Explorer(jobs=2)
    try:
        cfg = cfgx.Cfg('arch', 4, '4.1', 'complain', True)
        rn = Runner(ex2, cfg)
        tree = ex2.build_all([cfg])[cfg]
        base = os.path.join(C.scratch(), 'c07base')
        refparser.make_base(base, tree, ex2.cas, cfg)
        dbus_part(rn, base, tier, ev, fnd)
        exec_part(rn, base, tier, ev, fnd)
        stack_part(rn, tier, ev, fnd)
        composition_part(rn, tier, ev, fnd)
        placement_part(rn, ev, fnd)
        rn2 = Runner(ex2, cfgx.Cfg('whonix', 3, '3.0', 'none', True))
        stack_part(rn2, tier, ev, fnd)
    finally:
        ex2.close()
    ev.add(traces_validated_against_impl=ev.cov['transitions'])
    ev.add(rule='state = build tree (part A) / prepared tree with generated targets (B-D); transition = one built file scanned / one directive.Run of the real code on one host text')
    ev.assume('dbus: documented usage lines of the directive (own/talk/common); standard interfaces Properties, Introspectable, ObjectManager may accompany the given ones',
              'stack: exec permission of a file rule decided by the harness tokenizer; blank lines and indentation of stacked text are not compared')
    return C.conclude(ev, fnd)


def replay(path):
    return C.replay_by_rerun(PROP, path)
