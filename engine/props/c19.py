"""C19 -- every shipped profile honours the layout contract the build and users rely on.

The quantifier domain is finite (the shipped files) and enumerated completely: states = files.
Oracle: harness scanner, written independently of tests/check.sh; per file, the behavioural reason
of the contract is exercised on the real code as well: the real userspace builder must accept the
file, and a flags manifest naming every profile file by its name must be applied by the real prepare stage to
a header carrying that name (the "find a profile by its file name" clause, exercised rather than read).
"""
import json, os, re
from .. import common as C, scan, gox, cfgx

PROP = 'C19'


def profile_files():
    root = os.path.join(C.REPO, 'apparmor.d')
    out = []
    for top in sorted(os.listdir(root)):
        p = os.path.join(root, top)
        if top == 'groups':
            dirs = [os.path.join(p, g) for g in sorted(os.listdir(p))]
        elif re.match(r'profiles-[^-]+-[^-]+$', top):
            dirs = [p]
        else:
            continue
        for d in dirs:
            if os.path.isdir(d):
                for f in sorted(os.listdir(d)):
                    q = os.path.join(d, f)
                    if os.path.isfile(q) and f != 'README.md':
                        out.append(q)
    return out


def abstraction_files():
    root = os.path.join(C.REPO, 'apparmor.d/abstractions')
    out = []
    for d, dn, fn in os.walk(root):
        dn[:] = sorted(x for x in dn if not x.endswith('.d'))
        for f in sorted(fn):
            out.append(os.path.join(d, f))
    return out


def check_profile(p, fnd):
    f = os.path.basename(p)
    name = f[:-len('.apparmor.d')] if f.endswith('.apparmor.d') else f
    rel = os.path.relpath(p, C.REPO)
    text = open(p, errors='surrogateescape').read()
    rules = scan.rules(text)
    blocks = scan.blocks(text)

    def bad(what, msg):
        fnd.report('%s file=%s' % (what, rel), '%s: %s' % (rel, msg), {'file': rel})
    if not any(r.block == '' and re.match(r'^abi\s+<abi/4\.0>\s*,$', r.raw) for r in rules):
        bad('abi', 'no `abi <abi/4.0>,` in the preamble')
    top = [b for b in blocks if '//' not in b.path]
    mine = [b for b in top if b.name == name]
    if len(mine) != 1:
        bad('profile-name', 'top-level profiles %s; expected exactly one named %s' % ([b.name for b in top], name))
        return
    for extra in top:
        if extra.name != name:
            # a second profile at the top level of the file cannot be found by its file name (flags manifests, stack,
            # exec, local overrides) and the builders only treat the first header
            bad('extra-top-level-profile name=%s' % extra.name, 'a second top-level profile `%s` besides the one named after the file' % extra.header.strip())
    b = mine[0]
    toks = re.sub(r'(flags|xattrs)\s*=\s*\([^)]*\)', ' ', b.rest).split()
    if toks:
        if toks != ['@{exec_path}']:
            bad('attachment', 'attachment is `%s`, not the @{exec_path} variable' % ' '.join(toks))
        elif not any(r.block == '' and re.match(r'^@\{exec_path\}\s*\+?=', r.raw) and r.lineno < b.lineno for r in rules):
            bad('exec_path-undefined', 'attached to @{exec_path} but the preamble does not define it')
    for blk in blocks:
        if blk.path.split('//')[0] != name:
            continue
        parts = blk.path.split('//')
        want = name if len(parts) == 1 else name + '_' + parts[-1]
        ok = any(r.block == blk.path and re.match(r'^include\s+if\s+exists\s+<local/%s>$' % re.escape(want), r.raw) for r in rules)
        if not ok:
            bad('local-include block=%s' % blk.path, 'block %s lacks `include if exists <local/%s>`' % (blk.path, want))
    return name


def run(tier):
    ev = C.Evidence(PROP, tier); fnd = C.Findings(PROP)
    files = profile_files()
    names = {}
    for p in files:
        n = check_profile(p, fnd)
        names.setdefault(os.path.basename(p), []).append(os.path.relpath(p, C.REPO))
    for n, ps in sorted(names.items()):
        if len(ps) > 1:
            fnd.report('duplicate-basename ' + n, 'base name %s is used by %s: the flat output directory keeps only one' % (n, ps), {'files': ps})
    absf = abstraction_files()
    aroot = os.path.join(C.REPO, 'apparmor.d')
    for p in absf:
        rel = os.path.relpath(p, aroot)
        text = open(p, errors='surrogateescape').read()
        if not any(re.match(r'^include\s+if\s+exists\s+<%s\.d>$' % re.escape(rel), r.raw) for r in scan.rules(text)):
            fnd.report('abstraction-d-include file=%s' % rel, 'abstraction %s does not include its own directory <%s.d>' % (rel, rel), {'file': rel})
    # behavioural side on the real code: the userspace builder must accept every shipped profile
    bins = gox.build(os.path.join(C.scratch(), 'gox'), ['applyx'])
    reqs = [{'op': 'builder:userspace', 'text': open(p, errors='surrogateescape').read(), 'file': os.path.basename(p)} for p in files]
    res = gox.jsonl(bins['applyx'], reqs, env={'DISTRIBUTION': 'arch'})
    acc = 0
    for p, r in zip(files, res):
        rel = os.path.relpath(p, C.REPO)
        if r.get('err') or r.get('panic'):
            fnd.report('userspace-rejects file=%s' % rel, 'the real userspace builder rejects %s: %s' % (rel, r.get('err') or r.get('panic')), {'file': rel})
        else:
            acc += 1
            if '@{exec_path}' in (scan.blocks(r['out'])[0].header if scan.blocks(r['out']) else ''):
                fnd.report('attachment-unresolved file=%s' % rel, 'the userspace builder left @{exec_path} in the header of %s' % rel, {'file': rel})
    # behavioural side 2: the real prepare stage with a manifest that names every profile file
    seen = set(); lines = []
    for p in files:
        f = os.path.basename(p)
        if f not in seen:
            seen.add(f); lines.append('%s attach_disconnected,verifmark' % f)
    flagged = 0
    for dist in (['arch', 'debian'] if tier != 'thorough' else list(cfgx.DISTS)):
        ex = cfgx.Explorer(jobs=1, extra_src={'dists/flags/main.flags': '\n'.join(lines) + '\n', 'dists/flags/%s.flags' % dist: ''})
        try:
            cfg = cfgx.Cfg(dist, 4, '4.1', 'none', False)
            r = ex.run_jobs([{'steps': [(cfg, {'VERIF_PREPARE_ONLY': '1', 'VERIF_MAPX': '-'})]}])[0]
        finally:
            ex.close()
        if r['rc'] != 0:
            fnd.report('prepare-fails-with-full-manifest dist=' + dist, r['out'][-300:], {'dist': dist}); continue
        tree = r['tree']
        for p in files:
            f = os.path.basename(p)
            name = f[:-len('.apparmor.d')] if f.endswith('.apparmor.d') else f
            e = tree.get('apparmor.d/' + f)
            if e is None or e[0] != 'f':
                continue            # ignored for this distribution / overwritten: C04's subject
            hs = [b for b in scan.blocks(ex.text(e)) if '//' not in b.path]
            mine = [b for b in hs if b.name == name]
            if len(mine) == 1 and 'verifmark' in mine[0].header:
                flagged += 1
            elif any(os.path.basename(q) == f and q != p for q in files):
                continue            # a duplicate base name (reported above): only one of the files lands in the tree
            else:
                fnd.report('manifest-not-applied file=%s' % os.path.relpath(p, C.REPO), '%s: a flags manifest naming %s does not reach a header of profile %s (%s): headers %s' % (
                    dist, f, name, dist, [b.header for b in hs][:3]), {'file': os.path.relpath(p, C.REPO), 'dist': dist})
    ev.add(manifest_entries_applied=flagged)
    ev.sample({'file': os.path.relpath(files[0], C.REPO), 'header_after_real_userspace_builder': scan.blocks(res[0]['out'])[0].header})
    ev.sample({'abstraction': os.path.relpath(absf[0], aroot)})
    ev.add(states=len(files) + len(absf), transitions=len(files) * 2 + len(absf) + flagged, traces_validated_against_impl=acc,
           profile_files=len(files), abstractions=len(absf))
    ev.add(rule='state = one shipped file (the domain is finite and enumerated completely); transition = one contract clause evaluated / one run of the real userspace builder')
    ev.assume('abstraction = file under apparmor.d/abstractions/ outside any *.d directory')
    return C.conclude(ev, fnd)


def replay(path):
    return C.replay_by_rerun(PROP, path)
