"""C04 -- the prepare stage conserves the policy set: nothing lost, nothing leaked.

States      : .build after `cli.Prepare()` only (instrumented binary, prepare-only mode) for every
              (dist, ABI, version, full) configuration, from the prior states clean / junk / after(p)
Oracle      : a reference model written from the documentation, computed from the source tree and the
              manifests: expected listing, expected content (byte equal to the source, flags-manifest
              files may differ in block-header lines only), overwrite renames + disable/ links,
              drop-in directories; and equality of the state reached from every prior state with the
              state reached from the clean one.
"""
import json, os, re
from .. import common as C, cfgx, scan

PROP = 'C04'
UPSTREAMED_41 = ['abstractions/devices-usb-read', 'abstractions/devices-usb', 'abstractions/nameservice-strict',
                 'tunables/multiarch.d/base', 'wg']


def read_manifest(path):
    """manifest lines: '#' starts a comment (whole line or trailing), blank lines dropped"""
    out = []
    if not os.path.exists(path):
        return out
    for line in open(path):
        line = line.split('#', 1)[0].strip()
        if line:
            out.append(line)
    return out


def walk_files(root):
    res = {}
    for d, dn, fn in os.walk(root):
        dn.sort()
        for f in fn:
            p = os.path.join(d, f)
            res[os.path.relpath(p, root)] = p
    return res


def is_profile_src(rel):
    parts = rel.split('/')
    return (parts[0] == 'groups' and len(parts) == 3) or (re.match(r'profiles-[^/]*-[^/]*$', parts[0]) and len(parts) == 2)


def expected(cfg, repo=None):
    """-> (files: rel under .build -> source path, links: rel -> normalised target name, notes, flagged set, editable set)"""
    repo = repo or C.REPO
    src = walk_files(os.path.join(repo, 'apparmor.d'))
    problems = []
    # ignore
    entries = []
    for name in ('main', cfg.dist):
        entries += read_manifest(os.path.join(repo, 'dists/ignore/%s.ignore' % name))
    keep = dict(src)
    share = walk_files(os.path.join(repo, 'share'))
    notes = []
    for e in entries:
        if e.startswith('apparmor.d/') or e == 'apparmor.d':
            pref = e[len('apparmor.d/'):].rstrip('/')
            hit = [k for k in keep if k == pref or k.startswith(pref + '/')]
            if not hit:
                notes.append('ignore entry %s matches nothing in the source tree' % e)
            for k in hit:
                del keep[k]
        elif e.startswith('share/'):
            pref = e[len('share/'):].rstrip('/')
            for k in [k for k in share if k == pref or k.startswith(pref + '/')]:
                del share[k]
        elif '/' in e:
            notes.append('ignore entry %s is neither under a synchronised directory nor a profile name' % e)
        else:
            hit = [k for k in keep if is_profile_src(k) and os.path.basename(k) == e]
            for k in hit:
                del keep[k]
    # merge (flatten)
    out = {}
    byname = {}
    for k, p in sorted(keep.items()):
        parts = k.split('/')
        if parts[0] == 'groups' and len(parts) >= 3:
            dest = '/'.join(parts[2:])
        elif re.match(r'profiles-[^/]*-[^/]*$', parts[0]) and len(parts) >= 2:
            dest = '/'.join(parts[1:])
        elif parts[0] == 'groups' or parts[0].startswith('profiles-'):
            continue        # a file directly under groups/ : removed with the directory
        else:
            dest = k
        if dest in out:
            byname.setdefault(dest, [out[dest]]).append(p)
        out[dest] = p
    for dest, ps in byname.items():
        problems.append('source files collapse onto one output name %s: %s' % (dest, [os.path.relpath(p, repo) for p in ps]))
    # configure
    if cfg.dist in ('debian', 'whonix') and float(cfg.ver) < 4.1:
        for k, p in walk_files(os.path.join(repo, 'dists/ubuntu')).items():
            out[k] = p
    if cfg.ver == '4.1':
        for n in UPSTREAMED_41:
            for k in [k for k in out if k == n or k.startswith(n + '/')]:
                del out[k]
    # flags manifests
    flagged = {}
    for name in ('main', cfg.dist):
        for line in read_manifest(os.path.join(repo, 'dists/flags/%s.flags' % name)):
            t = line.split()
            if len(t) > 1:
                flagged[t[0]] = t[1].split(',')
    # overwrite
    links = {}
    if cfg.abi == 4:
        for n in read_manifest(os.path.join(repo, 'dists/overwrite')):
            if n in out:
                out[n + '.apparmor.d'] = out.pop(n)
            links['disable/' + n] = n
    editable = set()
    files = {'apparmor.d/' + k: v for k, v in out.items()}
    # full system policy
    if cfg.full:
        for k, p in walk_files(os.path.join(repo, 'apparmor.d/groups/_full')).items():
            files['apparmor.d/' + k] = p
        editable |= {'apparmor.d/tunables/multiarch.d/profiles', 'apparmor.d/abstractions/gstreamer'}
    for k, p in share.items():
        files['share/' + k] = p
    dropins = ['default'] + (['full'] if cfg.full else ['early'])
    for d in dropins:
        for k, p in walk_files(os.path.join(repo, 'systemd', d)).items():
            if os.path.basename(k) != 'README.md':
                files['systemd/' + k] = p
    return files, links, problems, flagged, editable


def headerish(line):
    """a block header line (a comment that spells one, `# profile x {`, is a comment: the statement allows a manifest to
    rewrite header flags, nothing else)"""
    return bool(scan.HDR.match(line))


def flagless(line):
    return ' '.join(re.sub(r'flags\s*=\s*\([^)]*\)', ' ', line).split())


def only_headers_differ(a, b):
    la, lb = a.split('\n'), b.split('\n')
    return len(la) == len(lb) and all(x == y or (headerish(x) and headerish(y) and flagless(x) == flagless(y)) for x, y in zip(la, lb))


def first_difference(a, b):
    la, lb = a.split('\n'), b.split('\n')
    for i, (x, y) in enumerate(zip(la, lb)):
        if x != y and not (headerish(x) and headerish(y) and flagless(x) == flagless(y)):
            return 'line %d: `%s` -> `%s`' % (i + 1, x.strip()[:80], y.strip()[:80])
    return 'line count %d -> %d' % (len(la), len(lb))


def planted():
    """generated sources next to the shipped ones (harness snapshot only): a profile named by a flags manifest whose text has
    lines that look like headers without being one; a profile whose ignore entry carries a trailing blank; a profile whose
    file name starts like a flattened directory"""
    def rd(rel):
        return open(os.path.join(C.REPO, rel)).read()
    prof = ('abi <abi/4.0>,\n\ninclude <tunables/global>\n\n@{exec_path} = @{bin}/%s\nprofile %s @{exec_path} flags=(attach_disconnected) {\n  include <abstractions/base>\n\n  @{exec_path} mr,\n\n'
            '  owner {\n    @{HOME}/.verif r,\n  }\n\n  # profile pivoted {\n  #   /etc/verif r,\n  # }\n\n  /etc/verif.d/ r, # was flags=(complain) once\n\n'
            '  profile sub {\n    include <abstractions/base>\n    include if exists <local/%s_sub>\n  }\n\n  include if exists <local/%s>\n}\n')
    return {'apparmor.d/groups/apps/verif-c04-flagged': prof % (('verif-c04-flagged',) * 4),
            'apparmor.d/groups/apps/verif-c04-ignored': prof % (('verif-c04-ignored',) * 4),
            'apparmor.d/groups/apps/profiles-verif-c04': prof % (('profiles-verif-c04',) * 4),
            'dists/flags/main.flags': rd('dists/flags/main.flags').rstrip('\n') + '\nverif-c04-flagged complain,attach_disconnected\n',
            'dists/ignore/main.ignore': rd('dists/ignore/main.ignore').rstrip('\n') + '\nverif-c04-ignored \n'}


def judge(ex, cfg, tree, fnd, ev, where):
    files, links, problems, flagged, editable = expected(cfg, ex.snap)
    for p in problems:
        fnd.report('manifest ' + p.split(':')[0][:100], p, {'config': cfg._asdict()})
    got_files = {k: e for k, e in tree.items() if e[0] == 'f'}
    got_links = {k: e for k, e in tree.items() if e[0] == 'l'}
    n = 0
    for k in sorted(set(files) - set(got_files)):
        fnd.report('lost ' + k, '%s: %s expected in the prepared tree (from %s) but missing' % (where, k, os.path.relpath(files[k], ex.snap)),
                   {'config': cfg._asdict(), 'path': k})
    for k in sorted(set(got_files) - set(files)):
        fnd.report('leaked ' + k, '%s: %s is in the prepared tree but should not be (ignored, upstreamed, renamed or never shipped)' % (where, k),
                   {'config': cfg._asdict(), 'path': k})
    for k in sorted(set(files) & set(got_files)):
        n += 1
        want = open(files[k], 'rb').read()
        base = os.path.basename(k)
        base = base[:-len('.apparmor.d')] if base.endswith('.apparmor.d') else base
        if C.sha(want) == got_files[k][1]:
            # byte-identical to the source: fine unless a manifest names the file and the source header says something else
            if k.startswith('apparmor.d/') and k.count('/') == 1 and flagged.get(base) and '/groups/_full/' not in files[k]:
                bl = scan.blocks(want.decode(errors='surrogateescape'))
                if bl and set(bl[0].flags) != set(flagged[base]):
                    fnd.report('flags-not-applied ' + base, '%s: manifest sets flags %s on %s but the prepared file is the unchanged source: `%s`' % (where, flagged[base], base, bl[0].header.strip()),
                               {'config': cfg._asdict(), 'path': k})
            continue
        got = cfgx.blob(ex.cas, got_files[k]).decode(errors='surrogateescape')
        if k in editable:
            continue
        if k.startswith('apparmor.d/') and k.count('/') == 1 and base in flagged:
            if only_headers_differ(want.decode(errors='surrogateescape'), got):
                bl = scan.blocks(got)
                if bl and set(bl[0].flags) != set(flagged[base]):
                    fnd.report('flags-not-applied ' + base, '%s: manifest sets flags %s on %s but the prepared header is `%s`' % (where, flagged[base], base, bl[0].header),
                               {'config': cfg._asdict(), 'path': k})
                continue
        fnd.report('content-changed ' + k, '%s: content of %s differs from its source %s outside the flags of block-header lines (%s)' % (where, k, os.path.relpath(files[k], ex.snap), first_difference(want.decode(errors='surrogateescape'), got)),
                   {'config': cfg._asdict(), 'path': k})
    for k, name in sorted(links.items()):
        kk = 'apparmor.d/' + k
        if kk not in got_links:
            fnd.report('link-missing ' + k, '%s: overwrite list names %s but %s is not a symlink in the prepared tree' % (where, name, kk), {'config': cfg._asdict()})
            continue
        tgt = os.path.normpath(os.path.join(os.path.dirname(k), got_links[kk][1]))
        if tgt != name:
            fnd.report('link-target ' + k, '%s: %s points at %s (-> %s), not at the upstream name %s' % (where, kk, got_links[kk][1], tgt, name), {'config': cfg._asdict()})
    for k in sorted(set(got_links) - {'apparmor.d/' + x for x in links}):
        fnd.report('leaked-link ' + k, '%s: unexpected symlink %s -> %s' % (where, k, got_links[k][1]), {'config': cfg._asdict()})
    return n


def run(tier):
    ev = C.Evidence(PROP, tier); fnd = C.Findings(PROP)
    if tier == 'thorough':
        cfgs = cfgx.configs60('none')
    else:
        cfgs = sorted({c._replace(mode='none') for c in cfgx.qset()})
    leavers = [cfgx.Cfg('arch', 4, '4.1', 'complain', True), cfgx.Cfg('debian', 3, '3.0', 'none', False),
               cfgx.Cfg('whonix', 4, '4.0', 'enforce', True), cfgx.Cfg('ubuntu', 4, '4.0', 'complain', False),
               cfgx.Cfg('opensuse', 4, '4.1', 'none', True)]
    if tier != 'thorough':
        leavers = leavers[:2]
    ex = cfgx.Explorer(extra_src=planted())
    penv = {'VERIF_PREPARE_ONLY': '1', 'VERIF_MAPX': '-'}
    try:
        jobs = []; meta = []
        for c in cfgs:
            jobs.append({'steps': [(c, penv)], 'prior': None}); meta.append((c, 'clean'))
            jobs.append({'steps': [(c, penv)], 'prior': 'junk'}); meta.append((c, 'junk'))
            for p in leavers:
                if p != c:
                    jobs.append({'steps': [(p, {'VERIF_MAPX': '-'}), (c, penv)], 'prior': None}); meta.append((c, 'after(%s)' % cfgx.tag(p)))
        res = ex.run_jobs(jobs)
    finally:
        ex.close()
    clean = {}
    compared = 0
    for (c, prior), r in zip(meta, res):
        if r['rc'] != 0:
            fnd.report('prepare-failed cfg=%s prior=%s' % (cfgx.tag(c), prior.split('(')[0]), 'prepare of %s from prior state %s failed: %s' % (cfgx.tag(c), prior, r['out'][-400:]),
                       {'config': c._asdict(), 'prior': prior})
            continue
        if prior == 'clean':
            clean[c] = r['tree']
            compared += judge(ex, c, r['tree'], fnd, ev, cfgx.tag(c))
            ev.sample({'config': cfgx.tag(c), 'prior': prior, 'entries': len(r['tree']), 'root': cfgx.root_hash(r['tree'])[:16]}, cap=5)
    for (c, prior), r in zip(meta, res):
        if prior == 'clean' or r['rc'] != 0 or c not in clean:
            continue
        a, b = clean[c], r['tree']
        if a != b:
            diff = sorted(k for k in set(a) | set(b) if a.get(k) != b.get(k))
            for k in diff[:20]:
                fnd.report('prior-state-leak path=%s' % k, 'prepare of %s from prior state %s differs from the clean run at %s (%s vs %s)' % (cfgx.tag(c), prior, k, a.get(k, ('absent',))[0], b.get(k, ('absent',))[0]),
                           {'config': c._asdict(), 'prior': prior, 'path': k})
        ev.sample({'config': cfgx.tag(c), 'prior': prior, 'equal_to_clean': a == b}, cap=9)
    ev.add(states=len(jobs), transitions=ex.runs, traces_validated_against_impl=compared, files_compared_with_source=compared,
           prior_states=['clean', 'junk'] + ['after(%s)' % cfgx.tag(p) for p in leavers])
    ev.add(rule='state = Merkle map of .build after the prepare stage; transition = one prepare (or full prebuild, for the prior state) run of the real binary')
    ev.assume('reference model of the expected listing written from the documentation (ignore entry = path under apparmor.d/ or profile base name; flatten groups/*/ and profiles-*-*/; debian/whonix < 4.1 get dists/ubuntu; 4.1 drops five upstreamed files; ABI 4 overwrite renames + disable/ links; --full installs groups/_full and may edit tunables/multiarch.d/profiles and abstractions/gstreamer, whose content is C18\'s subject)',
              'files named by a flags manifest may differ from the source in block-header lines only and there only in the flags clause (a comment that spells a header is a comment); their first block must carry exactly the manifest flags')
    return C.conclude(ev, fnd)


def replay(path):
    return C.replay_by_rerun(PROP, path)
