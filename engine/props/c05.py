"""C05 -- build mode and flags manifests, and nothing else, determine profile flags.

(real)      every block of every built profile, for every (dist, ABI, version, full) triple of builds
            (none, complain, enforce) of the real prebuild binary;
(generated) the real Complain/Enforce builders on every header layout of a small alphabet
            (main flags x attachment x 0-2 sub-profiles x 0-1 hat, each with its own flags).
Oracle: independent block scanner (engine/scan.py): complain build => every block carries `complain`;
enforce build => none does; in both, flags minus complain (as a set) and the other header tokens
equal those of the same block in the build with neither option; and in that build every block of the source file has
the source flags, or exactly the manifest's flags when a flags manifest (common, then distribution) names the file.
"""
import itertools, json, os
from .. import common as C, cfgx, scan, gox, refparser

PROP = 'C05'
FLAGSETS = [(), ('complain',), ('attach_disconnected',), ('attach_disconnected', 'complain'),
            ('complain', 'mediate_deleted')]


def fl(f):
    return ' flags=(%s)' % ','.join(f) if f else ''


def compare(kind, where, bn, bx, fnd, sigfile):
    """bn: blocks of the `none` text, bx: blocks of the complain/enforce text; returns #blocks checked"""
    pn = [b.path for b in bn]; px = [b.path for b in bx]
    if pn != px:
        fnd.report('%s-blocks-differ file=%s' % (kind, sigfile),
                   '%s: block structure differs between the none and the %s build: %s vs %s' % (where, kind, pn[:6], px[:6]),
                   {'where': where, 'none': pn, kind: px})
        return 0
    for a, b in zip(bn, bx):
        sa, sb = set(a.flags), set(b.flags)
        if kind == 'complain' and 'complain' not in sb:
            fnd.report('complain-missing file=%s block=%s' % (sigfile, a.path),
                       '%s: block %s is not in complain mode in a --complain build: `%s`' % (where, a.path, b.header.strip()),
                       {'where': where, 'none_header': a.header, 'built_header': b.header})
        if kind == 'enforce' and 'complain' in sb:
            fnd.report('enforce-keeps-complain file=%s block=%s' % (sigfile, a.path),
                       '%s: block %s is still in complain mode in an --enforce build: `%s`' % (where, a.path, b.header.strip()),
                       {'where': where, 'none_header': a.header, 'built_header': b.header})
        if sa - {'complain'} != sb - {'complain'}:
            fnd.report('%s-flags-changed file=%s block=%s' % (kind, sigfile, a.path),
                       '%s: block %s has flags %s in the none build but %s in the %s build' % (where, a.path, sorted(sa), sorted(sb), kind),
                       {'where': where, 'none_header': a.header, 'built_header': b.header})
        if scan.header_tokens(a) != scan.header_tokens(b):
            fnd.report('%s-header-changed file=%s block=%s' % (kind, sigfile, a.path),
                       '%s: header of block %s changed beyond its flags: `%s` -> `%s`' % (where, a.path, a.header.strip(), b.header.strip()),
                       {'where': where, 'none_header': a.header, 'built_header': b.header})
    return len(bn)


def real(tier, ev, fnd):
    if tier == 'thorough':
        bases = cfgx.configs60('none')
    else:
        bases = sorted({c._replace(mode='none') for c in cfgx.qset()})
    # a generated profile that the common manifest and two distribution manifests name with different flags: the
    # distribution's entry overrides the common one (shipped manifests only repeat the same flags)
    def rd(rel):
        return open(os.path.join(C.REPO, rel)).read().rstrip('\n') + '\n'
    both = ('abi <abi/4.0>,\n\ninclude <tunables/global>\n\n@{exec_path} = @{bin}/verif-c05-both\nprofile verif-c05-both @{exec_path} flags=(mediate_deleted) {\n  include <abstractions/base>\n\n'
            '  @{exec_path} mr,\n\n  profile sub {\n    include <abstractions/base>\n  }\n\n  include if exists <local/verif-c05-both>\n}\n')
    ex = cfgx.Explorer(extra_src={'apparmor.d/groups/apps/verif-c05-both': both, 'dists/flags/main.flags': rd('dists/flags/main.flags') + 'verif-c05-both complain\n',
                                  'dists/flags/debian.flags': rd('dists/flags/debian.flags') + 'verif-c05-both attach_disconnected\n',
                                  'dists/flags/arch.flags': rd('dists/flags/arch.flags') + 'verif-c05-both attach_disconnected,complain\n'})
    try:
        cfgs = [b._replace(mode=m) for b in bases for m in cfgx.MODES]
        trees = ex.build_all(cfgs)
    finally:
        ex.close()
    cache = {}

    def blocks_of(e):
        if e[1] not in cache:
            cache[e[1]] = scan.blocks(ex.text(e))
        return cache[e[1]]
    nblocks = 0
    srccache = {}
    for b in bases:
        tn = trees[b]
        for mode in ('complain', 'enforce'):
            tx = trees[b._replace(mode=mode)]
            fn, fx = cfgx.aa_files(tn), cfgx.aa_files(tx)
            # ... and the files below the top level that define profile blocks (mappings/sshd/base, mappings/login/base:
            # a sub-profile `shell`) -- "every profile block of every built profile" does not stop at the top directory
            nested = lambda t: sorted(k[len('apparmor.d/'):] for k, e in t.items() if k.startswith('apparmor.d/') and e[0] == 'f' and '/' in k[len('apparmor.d/'):]
                                      and not k.startswith(('apparmor.d/local/', 'apparmor.d/disable/')) and blocks_of(e))
            fn, fx = fn + nested(tn), fx + nested(tx)
            if fn != fx:
                fnd.report('%s-fileset-differs' % mode, 'profile file set differs between none and %s build of %s' % (mode, cfgx.tag(b)),
                           {'only_none': sorted(set(fn) - set(fx)), 'only_' + mode: sorted(set(fx) - set(fn))})
            for f in fn:
                if f not in fx:
                    continue
                en, exx = tn['apparmor.d/' + f], tx['apparmor.d/' + f]
                nblocks += compare(mode, '%s %s' % (cfgx.tag(b._replace(mode=mode)), f), blocks_of(en), blocks_of(exx), fnd, f[:-len('.apparmor.d')] if f.endswith('.apparmor.d') else f)
        # the baseline itself: in the build with neither option every block of the source file carries the source flags,
        # or -- for a file a flags manifest names (common, then per-distribution) -- exactly the manifest's flags
        from . import c04
        files, _, _, flagged, _ = c04.expected(b, ex.snap)
        for f in fn:
            srcp = files.get('apparmor.d/' + f)
            if not srcp or not os.path.isfile(srcp):
                continue
            name = f[:-len('.apparmor.d')] if f.endswith('.apparmor.d') else f
            key = (srcp, tuple(flagged.get(name) or ()))
            if key not in srccache:
                srccache[key] = {x.path: x for x in scan.blocks(open(srcp, errors='surrogateescape').read())}
            sb = srccache[key]
            want = flagged.get(name)
            for blk in blocks_of(tn['apparmor.d/' + f]):
                if blk.path not in sb:
                    continue        # brought in by a stack directive: not a block of this source file
                nblocks += 1
                exp = set(want) if want else set(sb[blk.path].flags)
                if set(blk.flags) != exp and want and '/groups/_full/' in srcp and set(blk.flags) == set(sb[blk.path].flags):
                    # the manifest entry is dead: `setflags` runs before the full-policy task copies groups/_full over the tree
                    fnd.report('baseline-flags file=%s block=%s cause=full-policy-profile-copied-after-setflags' % (name, blk.path),
                               '%s %s: block %s keeps its source flags %s although the flags manifest says %s: the full-system-policy profiles are copied into the tree after the manifests were applied' % (
                                   cfgx.tag(b), f, blk.path, sorted(blk.flags), sorted(exp)), {'config': b._asdict(), 'file': f, 'header': blk.header})
                elif set(blk.flags) != exp:
                    fnd.report('baseline-flags file=%s block=%s' % (name, blk.path), '%s %s: block %s has flags %s in the build with neither option; %s says %s' % (
                        cfgx.tag(b), f, blk.path, sorted(blk.flags), 'the flags manifest' if want else 'the source', sorted(exp)), {'config': b._asdict(), 'file': f, 'header': blk.header})
        ev.sample({'config': cfgx.tag(b), 'files': len(cfgx.aa_files(tn))}, cap=4)
    ev.add(states=len(cfgs), transitions=nblocks, real_blocks_compared=nblocks, real_configurations=len(cfgs))
    # second opinion: what the reference parser itself says about the mode of every block (`Name:` / `Mode:` of its -d dump)
    sel = bases if tier == 'thorough' else bases[:1]
    jobs = [(tuple(b._replace(mode=m)), trees[b._replace(mode=m)], ex.cas) for b in sel for m in ('complain', 'enforce')]
    from concurrent.futures import ProcessPoolExecutor
    with ProcessPoolExecutor(min(C.NPROC, max(1, len(jobs)))) as pool:
        for cfg_t, res in pool.map(_parser_modes, jobs):
            c = cfgx.Cfg(*cfg_t)
            for f, name, mode in res:
                ev.add(parser_mode_lines=1)
                fname = f[:-len('.apparmor.d')] if f.endswith('.apparmor.d') else f
                is_c = 'complain' in mode
                if c.mode == 'complain' and not is_c:
                    fnd.report('complain-missing file=%s block=%s' % (fname, name), '%s %s: the reference parser reports block %s in mode `%s` in a --complain build' % (cfgx.tag(c), f, name, mode), {'config': c._asdict(), 'file': f})
                if c.mode == 'enforce' and is_c:
                    fnd.report('enforce-keeps-complain file=%s block=%s' % (fname, name), '%s %s: the reference parser reports block %s in complain mode in an --enforce build' % (cfgx.tag(c), f, name), {'config': c._asdict(), 'file': f})


def _parser_modes(a):
    """(file, block name as the parser prints it, mode text) for every block of every profile of one tree"""
    import re, shutil, subprocess
    from concurrent.futures import ThreadPoolExecutor
    cfg_t, tree, cas = a
    cfg = cfgx.Cfg(*cfg_t)
    base = os.path.join(C.scratch(), 'c05base.%d' % os.getpid())
    shutil.rmtree(base, ignore_errors=True)
    refparser.make_base(base, tree, cas, cfg)
    out = []

    def one(f):
        ok, err, dump = refparser.parse(base, os.path.join(base, f), '-d')
        res = []
        if ok:
            top = None
            for m in re.finditer(r'^Name:\t\t(\S+)\n(?:.*\n)*?Mode: (.*)$', dump.decode(errors='replace'), re.M):
                name = m.group(1)
                if top is None:
                    top = name
                res.append((f, name if name == top else top + '//' + name, m.group(2).strip()))
        return res
    with ThreadPoolExecutor(4) as tp:
        for r in tp.map(one, cfgx.aa_files(tree)):
            out += r
    shutil.rmtree(base, ignore_errors=True)
    return cfg_t, out


def gen_texts():
    atts = ['', ' /usr/bin/foo', ' /usr/bin/foo xattrs=(user.tag=x)']
    kids = []
    subs = [()] + [(a,) for a in range(5)] + [(a, b) for a in range(5) for b in range(5)]
    hats = [None] + list(range(5))
    for s in subs:
        for h in hats:
            kids.append((s, h))
    for mf, att, (s, h), cm, hatform in itertools.product(range(5), atts, kids, (False, True), ('hat', '^')):
        if h is None and hatform == '^':
            continue
        t = 'abi <abi/4.0>,\n\nprofile main%s%s {\n  include <abstractions/base>\n' % (att, fl(FLAGSETS[mf]))
        if cm:
            t += '  # a comment about a block {\n'
        t += '  /usr/bin/foo mr,\n\n'
        for i, sf in enumerate(s):
            t += '  profile sub%d%s {\n    include <abstractions/base>\n    /bin/x r,\n  }\n\n' % (i, fl(FLAGSETS[sf]))
        if h is not None:
            if hatform == 'hat':
                t += '  hat h1%s {\n    /bin/y r,\n  }\n\n' % fl(FLAGSETS[h])
            else:
                t += '  ^h1%s {\n    /bin/y r,\n  }\n\n' % fl(FLAGSETS[h])
        t += '  include if exists <local/main>\n}\n'
        yield t


def generated(tier, ev, fnd):
    bins = gox.build(os.path.join(C.scratch(), 'gox'), ['applyx'])
    texts = list(gen_texts())
    n = 0
    for mode in ('complain', 'enforce'):
        res = gox.jsonl(bins['applyx'], [{'op': 'builder:' + mode, 'text': t, 'file': 'main'} for t in texts],
                        env={'DISTRIBUTION': 'arch'})
        for t, r in zip(texts, res):
            if r.get('panic') or r.get('err'):
                fnd.report('generated-%s-error' % mode, 'builder %s failed on a generated profile: %s' % (mode, r.get('panic') or r.get('err')), {'text': t})
                continue
            bn = scan.blocks(t); bx = scan.blocks(r['out'])
            hdrs = ' | '.join(b.header.strip() for b in bn)
            k = compare(mode, 'generated[%s]' % hdrs, bn, bx, fnd, 'generated:' + hdrs)
            n += k
        ev.sample({'generated_input_headers': [b.header.strip() for b in scan.blocks(texts[len(texts) // 2])], 'mode': mode,
                   'output_headers': [b.header.strip() for b in scan.blocks(res[len(texts) // 2]['out'])]}, cap=8)
    ev.add(states=2 * len(texts), transitions=n, generated_texts=len(texts), generated_blocks_compared=n,
           traces_validated_against_impl=n)


def layout_variants(tier, ev, fnd):
    """header spellings AppArmor accepts besides the project's usual one: flag lists separated by blanks or `, `, no blank or a
    tab before the brace, no `profile` keyword. Judged with a tolerant header reader of the harness and the reference
    parser (the output must still load and say the right mode)."""
    import re
    from .. import dfax
    bins = gox.build(os.path.join(C.scratch(), 'gox'), ['applyx'])
    heads = []
    for start in ('profile main /usr/bin/foo', 'profile main', '/usr/bin/foo'):
        for flags in ('', 'flags=(complain)', 'flags=(attach_disconnected,complain)', 'flags=(attach_disconnected complain)', 'flags=(attach_disconnected, complain)',
                      'flags=(complain, attach_disconnected)', 'flags=(attach_disconnected)'):
            for brace in (' {', '{', '\t{', '  {'):
                if not flags and brace == '{':
                    continue            # `name{` is not a header: the brace would belong to the name
                heads.append(start + (' ' + flags if flags else '') + brace)
    # (the body also holds a qualifier rule block, `owner { ... }`: it opens a block but is no profile header)
    texts = ['abi <abi/3.0>,\n\n%s\n  /usr/bin/foo mr,\n\n  owner {\n    /srv/own r,\n  }\n\n  profile sub {\n    /bin/x r,\n  }\n}\n' % h for h in heads]

    def read(line):
        m = re.search(r'flags\s*=\s*\(([^)]*)\)', line)
        fl_ = [x for x in re.split(r'[,\s]+', m.group(1)) if x] if m else []
        rest = re.sub(r'flags\s*=\s*\([^)]*\)', ' ', line).replace('{', ' ').split()
        return fl_, rest
    n = 0
    for mode in ('complain', 'enforce'):
        res = gox.jsonl(bins['applyx'], [{'op': 'builder:' + mode, 'text': t, 'file': 'main'} for t in texts], env={'DISTRIBUTION': 'arch'})
        for h, t, r in zip(heads, texts, res):
            n += 1
            sig = 'layout-variant mode=%s header=%s' % (mode, h.replace('\t', '<TAB>'))
            if r.get('panic') or r.get('err'):
                fnd.report(sig + ' fails', 'builder %s fails on header `%s`: %s' % (mode, h, r.get('panic') or r.get('err')), {'text': t}); continue
            out = r['out']
            lines = [l for l in out.split('\n') if l.rstrip().endswith('{') and not l.lstrip().startswith('#')]
            rb = [l for l in lines if re.match(r'^\s*owner\b', l)]
            if rb != ['  owner {']:
                fnd.report(sig + ' rule-block', 'builder %s on header `%s`: the qualifier rule block `owner {` comes out as %s' % (mode, h, rb), {'text': t, 'out': out}); continue
            lines = [l for l in lines if l not in rb]
            if len(lines) != 2:
                fnd.report(sig + ' structure', 'builder %s on header `%s`: %d block headers in the output instead of 2: %s' % (mode, h, len(lines), lines), {'text': t, 'out': out}); continue
            for src, got in ((h, lines[0]), ('  profile sub {', lines[1])):
                f0, r0 = read(src); f1, r1 = read(got)
                want = sorted(set(f0) - {'complain'}) + (['complain'] if mode == 'complain' else [])
                if sorted(f1) != sorted(want) or r0 != r1:
                    fnd.report(sig, 'builder %s turns header `%s` into `%s`: flags %s, expected %s; rest of the header %s vs %s' % (mode, src.strip(), got.strip(), f1, want, r1, r0), {'text': t, 'out': out})
                    break
            else:
                b, err = dfax.compile_text(out, C.UPSTREAM)
                if b is None:
                    fnd.report(sig + ' rejected', 'builder %s on header `%s`: the reference parser rejects the output (%s): `%s`' % (mode, h, err, lines[0].strip()), {'text': t, 'out': out})
    ev.add(transitions=n, layout_variant_headers=len(heads))
    ev.sample({'layout_variant': heads[9].replace('\t', '<TAB>')})


def layout_modes(tier, ev, fnd):
    """(third hunt) spellings of a sub-profile header the reference parser accepts and the builders may not see: another mode
    flag (kill, unconfined, enforce: the modes exclude each other), `flags = (...)`, the bare `(...)` clause, text after the
    brace, the brace on the next line, a flag listed twice. Oracle: the output compiles to the same policy (names, mode and
    flag words, rules) as the text whose sub-profile header is rewritten by hand to the expected flags."""
    import re
    from .. import dfax
    bins = gox.build(os.path.join(C.scratch(), 'gox'), ['applyx'])
    MODES = {'complain', 'enforce', 'kill', 'unconfined'}
    V = [('other-mode-flag', 'profile sub flags=(kill) {', ['kill']), ('other-mode-flag', 'profile sub flags=(unconfined) {', ['unconfined']),
         ('other-mode-flag', 'profile sub flags=(enforce) {', ['enforce']), ('other-mode-flag', 'profile sub flags=(attach_disconnected,enforce) {', ['attach_disconnected', 'enforce']),
         ('blanks-around-the-equal-sign', 'profile sub flags = (complain) {', ['complain']), ('blanks-around-the-equal-sign', 'profile sub flags = (attach_disconnected) {', ['attach_disconnected']),
         ('bare-flags-clause', 'profile sub (complain) {', ['complain']), ('bare-flags-clause', 'profile sub (attach_disconnected) {', ['attach_disconnected']),
         ('text-after-the-brace', 'profile sub { # helper', []), ('text-after-the-brace', 'profile sub flags=(complain) { # helper', ['complain']),
         ('brace-on-the-next-line', 'profile sub flags=(complain)\n  {', ['complain']), ('brace-on-the-next-line', 'profile sub\n  {', []),
         ('flag-listed-twice', 'profile sub flags=(complain,complain) {', ['complain']),
         ('control', 'profile sub flags=(attach_disconnected) {', ['attach_disconnected'])]

    def text(h):
        return 'abi <abi/3.0>,\n\nprofile main /usr/bin/foo {\n  /usr/bin/foo mr,\n\n  %s\n    /bin/x r,\n  }\n}\n' % h

    def policy(t):
        b, err = dfax.compile_text(t, C.UPSTREAM)
        if b is None:
            return None, err
        return [(p.name, p.fields, [C.sha(repr((d.accept, d.accept2))) for d in p.dfas]) for p in dfax.profiles(b)], ''
    n = 0
    for mode in ('complain', 'enforce'):
        res = gox.jsonl(bins['applyx'], [{'op': 'builder:' + mode, 'text': text(h), 'file': 'main'} for _, h, _ in V], env={'DISTRIBUTION': 'arch'})
        for (cause, h, fl_), r in zip(V, res):
            n += 1
            sig = 'layout-mode cause=%s mode=%s' % (cause, mode)
            hh = h.replace('\n', '<NL>')
            if policy(text(h))[0] is None:
                raise SystemExit('HARNESS ERROR: the reference parser rejects the input header `%s`' % hh)
            if r.get('panic') or r.get('err'):
                fnd.report(sig, 'builder %s fails on sub-profile header `%s`: %s' % (mode, hh, r.get('panic') or r.get('err')), {'header': h}); continue
            want = [f for f in fl_ if f not in MODES] + ['complain'] if mode == 'complain' else [f for f in fl_ if f != 'complain']
            exp = text('profile sub %s{' % ('flags=(%s) ' % ','.join(want) if want else '')).replace('profile main /usr/bin/foo {', 'profile main /usr/bin/foo %s{' % ('flags=(complain) ' if mode == 'complain' else ''))
            got, err = policy(r['out'])
            if got is None:
                fnd.report(sig, 'builder %s on sub-profile header `%s`: the reference parser rejects the output (%s): `%s`' % (mode, hh, err[:120], [l.strip() for l in r['out'].split('\n') if 'sub' in l][:2]), {'header': h, 'out': r['out']}); continue
            if got != policy(exp)[0]:
                fnd.report(sig, 'builder %s on sub-profile header `%s`: the output does not compile to the policy of the expected flags %s: `%s`' % (mode, hh, want, [l.strip() for l in r['out'].split('\n') if 'sub' in l][:2]), {'header': h, 'out': r['out']})
    ev.add(transitions=n, layout_mode_headers=len(V))


def run(tier):
    ev = C.Evidence(PROP, tier); fnd = C.Findings(PROP)
    generated(tier, ev, fnd)
    layout_modes(tier, ev, fnd)
    layout_variants(tier, ev, fnd)
    real(tier, ev, fnd)
    ev.add(traces_validated_against_impl=ev.cov['real_blocks_compared'])
    ev.add(rule='state = one build tree / one generated profile text; transition = one block header compared between the none build and the complain or enforce build of the same input')
    ev.assume('flags compared as sets; header compared token by token with the flags group removed (builders legitimately leave a double blank)',
              'block structure read by the harness scanner: header lines `profile NAME ... {`, `hat NAME ... {`, `^NAME ... {`')
    return C.conclude(ev, fnd)


def replay(path):
    return C.replay_by_rerun(PROP, path)
