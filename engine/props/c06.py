"""C06 -- resolved attachments and exec rules match the same executables as @{exec_path}.

For every built profile whose source header is attached to @{exec_path} (all of them, per distribution,
de-duplicated on identical parser input) and every shipped exec directive:
  left  = what the reference parser compiles for the *variable* (`<source preamble> profile p @{exec_path} {}`
          resp. `profile a { @{exec_path} <mode>, }`) over the tunables of that very build,
  right = what it compiles for the literal the build wrote (header attachment resp. generated rule lines),
and the two DFAs are compared by exhaustive BFS over their product (E4): any reachable state pair with
different acceptance is a path matched by one side only (the shortest one is reported).
Generated preambles (variable definitions with =, +=, nesting, alternations) go through the real userspace
builder the same way.
"""
import hashlib, itertools, json, os, re, shutil
from concurrent.futures import ProcessPoolExecutor
from .. import common as C, cfgx, scan, refparser, dfax, gox

PROP = 'C06'
HDR1 = re.compile(r'^profile\s+(\S+)\s+(.*?)\s*\{\s*$', re.M)


def src_index():
    """base name -> (preamble text, header line) for source profiles attached to @{exec_path}"""
    out = {}
    root = os.path.join(C.REPO, 'apparmor.d')
    for d, dn, fn in os.walk(root):
        rel = os.path.relpath(d, root)
        if not (rel.startswith('groups/') or rel.startswith('profiles-')):
            continue
        for f in fn:
            t = open(os.path.join(d, f), errors='surrogateescape').read()
            m = re.search(r'^profile\s+\S+\s+@\{exec_path\}', t, re.M)
            if m:
                out[(rel.startswith('groups/_full'), f)] = t[:m.start()]
    return out


def literal_of(header_rest):
    r = re.sub(r'(flags|xattrs)\s*=\s*\([^)]*\)', ' ', header_rest)
    return ' '.join(r.split())


def _one(a):
    kind, key, left, right, base = a[:5]
    res = _one_raw(kind, key, left, right, base)
    if res[2] == 'DIFF' and len(a) > 5 and a[5]:
        # is the builder at least faithful to its own built-in variable table? then the discrepancy is the table's drift
        # from the shipped tunables, not a resolution error
        alt = _one_raw(kind, key, a[5], right, base)
        if alt[2] == 'OK':
            return res[:2] + ('DRIFT',) + res[3:]
    return res


def _one_raw(kind, key, left, right, base):
    A, e1 = dfax.compile_text(left, base)
    B, e2 = dfax.compile_text(right, base)
    if A is None or B is None:
        return (kind, key, 'COMPILE', (e1 + ' | ' + e2)[:300], 0, 0)
    pa, pb = dfax.profiles(A)[0], dfax.profiles(B)[0]
    if kind == 'att':
        if pa.xmatch is None or pb.xmatch is None:
            return (kind, key, 'COMPILE', 'no attachment DFA', 0, 0)
        cex, st, tr = dfax.equiv(pa.xmatch, pb.xmatch)
        if cex is None:
            return (kind, key, 'OK', None, st, tr)
        side = 'variable only' if pa.xmatch.accept[pa.xmatch.match(cex)] else 'built literal only'
        return (kind, key, 'DIFF', (cex.decode(errors='replace'), side), st, tr)
    cex, st, tr = dfax.equiv(pa.file, pb.file, dfax.full_label)
    if cex is None:
        return (kind, key, 'OK', None, st, tr)
    side = 'variable only' if pa.file.accept[pa.file.match(cex)] else 'generated rules only'
    return (kind, key, 'DIFF', (cex.decode(errors='replace'), side), st, tr)


def gen_preambles():
    """(preamble lines) over a small alphabet of definitions; every one defines @{exec_path}"""
    defs = ['@{a} = /usr/bin/x /opt/y', '@{b} = @{a}/1 @{a}/{2,3}', '@{a} += /srv/z', '@{exec_path} = @{b}',
            '@{exec_path} = @{a}/bin/t', '@{exec_path} += /opt/q', '@{exec_path} = @{bin}/t @{lib}/{,t/}t', '@{exec_path} += @{a}/t2',
            '@{exec_path} = /{usr/,}bin/t{,-[0-9]*}', '# note',
            # (third hunt) a comment that reads like a header, quoted values, a value that starts with an alternation
            '# keep the profile name in sync with @{exec_path}', '@{n} = "Foo Bar" foo', '@{exec_path} = /opt/@{n}/t', '@{exec_path} += {@{bin},/opt/u}/t3']
    out = []
    for L in (1, 2, 3, 4):
        for seq in itertools.permutations(range(len(defs)), L):
            lines = [defs[i] for i in seq]
            names = [l.split()[0] for l in lines if l.startswith('@')]
            # well-formed for the reference parser: every variable defined once with '=' before any '+=' , uses defined
            ok = True; defined = set()
            for l in lines:
                if not l.startswith('@'):
                    continue
                n, op = l.split()[0], l.split()[1]
                if op == '=':
                    if n in defined: ok = False
                    defined.add(n)
                elif n not in defined:
                    ok = False
            used = set(re.findall(r'@\{(\w+)\}', ' '.join(' '.join(l.split()[2:]) for l in lines if l.startswith('@'))))
            if not ok or '@{exec_path}' not in defined or not (used - {'bin', 'lib'}) <= {d[2:-1] for d in defined}:
                continue
            if L == 4 and any(i >= 10 for i in seq):
                continue                      # the additions of the third hunt: up to three lines
            out.append(lines)
    return out


def with_builtin(pre, builtin):
    """the preamble with its tunables includes replaced by the builder's built-in table (own definitions kept)"""
    own = [l for l in pre.split('\n') if not re.match(r'^\s*(#?include|abi)\b', l)]
    defined = set(re.findall(r'^@\{(\w+)\}\s*=', '\n'.join(own), re.M))
    table = [l for l in builtin.split('\n') if l and re.match(r'^@\{(\w+)\}', l).group(1) not in defined]
    return 'abi <abi/4.0>,\n' + '\n'.join(table) + '\n' + '\n'.join(own) + '\n'


def _drift_one(a):
    """does the built-in definition of one variable denote something else than the shipped definition, the variables it
    refers to taken from the shipped tunables on both sides (so that only the variable's OWN definition is judged)?"""
    name, table, base = a
    m = re.search(r'^@\{%s\}\s*=\s*(.*)$' % re.escape(name), table, re.M)
    head = 'abi <abi/4.0>,\ninclude <tunables/global>\n'
    A, e1 = dfax.compile_text(head + 'profile p {\n  /probe/@{%s}/x r,\n}\n' % name, base)
    B, e2 = dfax.compile_text(head + '@{verif_probe} = %s\nprofile p {\n  /probe/@{verif_probe}/x r,\n}\n' % m.group(1), base)
    if A is None:
        return name, 'not-shipped'
    if B is None:
        return name, 'table-value-rejected'
    cex, st, tr = dfax.equiv(dfax.profiles(A)[0].file, dfax.profiles(B)[0].file, dfax.full_label)
    return name, (None if cex is None else 'differs')


def drifting_variables(builtin, bases):
    """{base: {variable name: how}} -- built-in variables whose value in aa.DefaultTunables does not denote the same
    set of strings as the tunables shipped in that tree (decided by the reference parser + DFA equivalence)"""
    names = re.findall(r'^@\{(\w+)\}\s*=', builtin, re.M)
    jobs = [(n, builtin, b) for b in bases for n in names]
    with ProcessPoolExecutor(C.NPROC) as pool:
        res = list(pool.map(_drift_one, jobs, chunksize=4))
    out = {b: {} for b in bases}
    for (n, _, b), (_, how) in zip(jobs, res):
        if how:
            out[b][n] = how
    return out


def referenced(pre, builtin):
    """built-in variables a preamble's @{exec_path} definitions reach (transitively through the table and own definitions)"""
    defs = {}
    for text in (builtin, pre):
        for m in re.finditer(r'^@\{(\w+)\}\s*\+?=\s*(.*)$', text, re.M):
            defs.setdefault(m.group(1), []).append(m.group(2))
    seen = set(); todo = [k for k in defs if k.startswith('exec_path')]
    while todo:
        n = todo.pop()
        if n in seen:
            continue
        seen.add(n)
        for v in defs.get(n, []):
            todo += re.findall(r'@\{(\w+)\}', v)
    return seen


def run(tier):
    ev = C.Evidence(PROP, tier); fnd = C.Findings(PROP)
    dists = cfgx.DISTS if tier == 'thorough' else ['arch', 'debian']
    cfgs = [cfgx.Cfg(d, 4, '4.1', 'none', True) for d in dists]
    if tier == 'thorough':
        cfgs += [cfgx.Cfg(d, 3, '3.0', 'none', False) for d in dists]
    ex = cfgx.Explorer()
    try:
        trees = ex.build_all(cfgs)
    finally:
        ex.close()
    src = src_index()
    root = os.path.join(C.scratch(), 'c06'); os.makedirs(root, exist_ok=True)
    bins = gox.build(os.path.join(C.scratch(), 'gox'), ['applyx'])
    jobs = []; seen = set(); logical = 0
    builtin = gox.jsonl(bins['applyx'], [{'op': 'tunables'}], env={'DISTRIBUTION': 'arch'})[0]['out']
    for c in cfgs:
        tree = trees[c]
        base = os.path.join(root, cfgx.tag(c))
        refparser.make_base(base, tree, ex.cas, c)
        tun = hashlib.sha256(repr(sorted((k, e) for k, e in tree.items() if k.startswith('apparmor.d/tunables/'))).encode()).hexdigest()
        # materialised build tree for the directive runs (read-only use)
        bdir = os.path.join(root, 'b.' + cfgx.tag(c))
        cfgx.materialise(cfgx.subtree(tree, 'apparmor.d'), ex.cas, os.path.join(bdir, '.build/apparmor.d'), link=True)
        for f in cfgx.aa_files(tree):
            name = f[:-len('.apparmor.d')] if f.endswith('.apparmor.d') else f
            text = ex.text(tree['apparmor.d/' + f])
            pre = src.get((True, name)) if (c.full and (True, name) in src) else src.get((False, name))
            if pre is not None:
                bl = scan.blocks(text)
                if bl:
                    lit = literal_of(bl[0].rest)
                    logical += 1
                    key = (C.sha(pre), lit, tun)
                    if lit and key not in seen:
                        seen.add(key)
                        jobs.append(('att', '%s %s' % (cfgx.tag(c), name), pre + 'profile p @{exec_path} {\n}\n', pre + 'profile p ' + lit + ' {\n}\n', base,
                                     with_builtin(pre, builtin) + 'profile p @{exec_path} {\n}\n'))
                    elif not lit:
                        fnd.report('attachment-dropped profile=%s' % name, '%s: source attaches %s to @{exec_path} but the built header has no attachment' % (cfgx.tag(c), name), {'config': c._asdict(), 'file': f})
        # exec directives: run the real directive on a one-line host inside the built tree
        srcroot = os.path.join(C.REPO, 'apparmor.d')
        dirs = []
        for d, dn, fn in os.walk(srcroot):
            for f in fn:
                for line in open(os.path.join(d, f), errors='replace'):
                    m = re.match(r'^\s*#aa:exec\s+(.*)$', line)
                    if m:
                        dirs.append((f, m.group(1).split()))
        for host, args in sorted(dirs):
            mode = 'Px'
            targets = args
            if args and args[0] in ('P', 'U', 'p', 'u', 'PU', 'pu'):
                mode = args[0] + 'x'; targets = args[1:]
            if not all(('apparmor.d/' + t) in tree for t in targets):
                continue
            hosttext = 'profile h {\n  #aa:exec %s\n}\n' % ' '.join(args)
            r = gox.jsonl(bins['applyx'], [{'op': 'directive', 'text': hosttext, 'file': 'h', 'root': bdir, 'abi': c.abi, 'version': float(c.ver)}],
                          env={'DISTRIBUTION': c.dist})[0]
            if r.get('err') or r.get('panic'):
                fnd.report('exec-directive-fails host=%s' % host, '%s: #aa:exec %s fails: %s' % (cfgx.tag(c), args, r.get('err') or r.get('panic')), {'config': c._asdict()})
                continue
            for t in targets:
                tp = src.get((False, t))
                if tp is None:
                    continue
            rules = '\n'.join(l for l in r['out'].split('\n')[1:-2])
            pre = ''
            left_rules = ''
            for i, t in enumerate(targets):
                tt = ex.text(tree['apparmor.d/' + t])
                m = re.search(r'^profile\s+\S+', tt, re.M)
                tpre = tt[:m.start()]
                # several targets: rename each target's exec_path so the preambles can be concatenated
                tpre = tpre.replace('@{exec_path}', '@{exec_path_%d}' % i)
                if i:
                    tpre = '\n'.join(l for l in tpre.split('\n') if not re.match(r'^\s*(abi|include)\b', l))
                pre += tpre + '\n'
                left_rules += '  @{exec_path_%d} %s,\n' % (i, mode)
            logical += 1
            key = (C.sha(pre + left_rules), rules, tun)
            if key not in seen:
                seen.add(key)
                jobs.append(('exec', '%s %s #aa:exec %s' % (cfgx.tag(c), host, ' '.join(args)), pre + 'profile a {\n' + left_rules + '}\n',
                             'abi <abi/4.0>,\ninclude <tunables/global>\nprofile a {\n' + rules + '\n}\n', base,
                             with_builtin(pre, builtin) + 'profile a {\n' + left_rules + '}\n'))
    # generated preambles through the real userspace builder
    gens = gen_preambles()
    if tier != 'thorough':
        gens = [g for g in gens if len(g) <= 3]
    base0 = os.path.join(root, cfgx.tag(cfgs[0]))
    # the file around the preamble: the plain one, text after the opening brace, a child attached to @{exec_path} too
    FRAMES = [('plain', 'profile gen @{exec_path} {\n  include <abstractions/base>\n}\n'),
              ('comment-after-brace', 'profile gen @{exec_path} { # the main binary\n  include <abstractions/base>\n}\n'),
              ('blank-after-brace', 'profile gen @{exec_path} { \n  include <abstractions/base>\n}\n'),
              ('flags-and-comment', 'profile gen @{exec_path} flags=(complain) { # c\n  include <abstractions/base>\n}\n'),
              ('child-on-exec-path', 'profile gen @{exec_path} {\n  include <abstractions/base>\n  @{bin}/w rCx -> worker,\n\n  profile worker @{exec_path} {\n    include <abstractions/base>\n  }\n}\n')]
    reqs = []; meta = []
    for lines in gens:
        pre = 'abi <abi/4.0>,\n\ninclude <tunables/global>\n\n' + '\n'.join(lines) + '\n'
        for fname, frame in FRAMES:
            if fname != 'plain' and len(lines) > 2:
                continue
            reqs.append({'op': 'builder:userspace', 'text': pre + frame, 'file': 'gen'}); meta.append((lines, fname, pre))
    res = gox.jsonl(bins['applyx'], reqs, env={'DISTRIBUTION': 'arch'})
    ngen = 0
    for (lines, fname, pre), rq, r in zip(meta, reqs, res):
        tagf = '' if fname == 'plain' else ' [%s]' % fname
        if r.get('panic') or r.get('err'):
            fnd.report('generated-preamble-rejected' + (' frame=' + fname if tagf else ''), 'the userspace builder fails on a preamble the reference parser accepts: %s%s: %s' % (lines, tagf, r.get('panic') or r.get('err')), {'preamble': lines, 'frame': fname})
            continue
        bl = scan.blocks(r['out'])
        lit = literal_of(bl[0].rest) if bl else ''
        if not bl or bl[0].name != 'gen':
            fnd.report('generated-header-renamed', 'the userspace builder turns the header `profile gen @{exec_path} {` into `%s`: %s%s' % (bl[0].header.strip() if bl else r['out'][:200], lines, tagf), {'preamble': lines, 'frame': fname})
            continue
        if fname == 'child-on-exec-path' and [b.path for b in bl] != ['gen', 'gen//worker']:
            fnd.report('generated-child-renamed', 'a child profile that is also attached to @{exec_path} is given the header of its parent: blocks %s after the userspace builder' % [b.path for b in bl], {'preamble': lines, 'frame': fname})
            continue
        # every other line of the file is carried through
        want_rest = [l for l in rq['text'].split('\n') if not l.startswith('profile gen ')]
        got_rest = [l for l in r['out'].split('\n') if not l.startswith('profile gen ')]
        if want_rest != got_rest:
            d = [(a, b) for a, b in zip(want_rest, got_rest) if a != b][:2]
            fnd.report('generated-other-line-rewritten', 'the userspace builder rewrites a line that is not the header: %s%s: %s' % (lines, tagf, d), {'preamble': lines, 'frame': fname})
            continue
        ngen += 1
        jobs.append(('att', 'generated ' + ' ; '.join(lines) + tagf, pre + 'profile p @{exec_path} {\n}\n', pre + 'profile p ' + lit + ' {\n}\n', base0))
    with ProcessPoolExecutor(C.NPROC) as pool:
        results = list(pool.map(_one, jobs, chunksize=4))
    drift = drifting_variables(builtin, sorted({j[4] for j in jobs}))
    ev.add(builtin_variables_out_of_sync={os.path.basename(b): sorted(d) for b, d in drift.items()})
    st = tr = 0
    for job, (kind, key, verdict, detail, s, t) in zip(jobs, results):
        st += s; tr += t
        who = key.split(' ', 1)[1] if not key.startswith('generated') else key
        gen_cause = None
        if key.startswith('generated'):
            fr = re.search(r' \[([\w-]+)\]$', key)
            if '{@{bin},/opt/u}/t3' in key:
                gen_cause = 'cause=a-value-of-exec_path-starts-with-an-alternation'
            elif fr:
                gen_cause = 'frame=' + fr.group(1)
        if gen_cause and verdict in ('COMPILE', 'DIFF'):
            fnd.report('generated-attachment-wrong %s' % gen_cause, '%s: %s' % (key, ('the reference parser rejects the built header: ' + str(detail)[-160:]) if verdict == 'COMPILE' else '%s is matched by the %s' % detail), {'case': key})
        elif verdict == 'COMPILE':
            fnd.report('reference-parser-rejects %s' % who, '%s: the reference parser cannot compile one side: %s' % (key, detail), {'case': key})
        elif verdict == 'DRIFT':
            cex, side = detail
            # which out-of-sync built-in variables does this @{exec_path} reach? the finding is identified by them, so a
            # variable that goes out of sync later is a new violation, not a reproduction of a listed one
            vs = sorted(referenced(job[2], builtin) & set(drift[job[4]]))
            for v in vs or ['none']:
                fnd.report('%s cause=built-in-variable-table-drift var=%s' % ('attachment-differs' if kind == 'att' else 'exec-rules-differ', v),
                           '%s: %s is matched by the %s; the built text equals what the builder\'s built-in variable table (aa.DefaultTunables) yields, and the table\'s @{%s} does not denote what the tunables shipped for this target define (all out-of-sync variables this @{exec_path} reaches: %s)' % (
                               key, cex, side, v, ', '.join(vs) or 'none the harness can name'),
                           {'case': key, 'path': cex, 'side': side, 'variables': vs})
        elif verdict == 'DIFF':
            cex, side = detail
            if kind == 'att':
                fnd.report('attachment-differs profile=%s path=%s side=%s' % (who.split(' ', 1)[-1] if not key.startswith('generated') else who, cex, side.replace(' ', '-')), '%s: %s is matched by the %s' % (key, cex, side), {'case': key, 'path': cex, 'side': side})
            else:
                fnd.report('exec-rules-differ %s path=%s side=%s' % (who.split(' ', 1)[-1], cex, side.replace(' ', '-')), '%s: %s is matched by the %s' % (key, cex, side), {'case': key, 'path': cex, 'side': side})
    for kind, key, verdict, detail, s, t in results[:3] + results[-3:]:
        ev.sample({'case': key, 'verdict': verdict, 'product_states': s, 'transitions': t})
    ev.add(states=st, transitions=tr, traces_validated_against_impl=len(results), logical_cases=logical, compiled_pairs=len(jobs), generated_preambles=ngen,
           configurations=[cfgx.tag(c) for c in cfgs])
    ev.add(rule='state = pair of states of the two DFAs compiled by the reference parser; transition = one byte step of the product automaton (bytes 0..255), explored breadth-first to exhaustion')
    ev.assume('@{exec_path} is compiled by apparmor_parser 3.0.8 over the tunables of the same build (upstream tunables below them, DESIGN.md §2 stand-ins)',
              'xattrs and flags are not part of the attachment language')
    return C.conclude(ev, fnd)


def replay(path):
    return C.replay_by_rerun(PROP, path)
