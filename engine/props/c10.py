"""C10 -- merging rules never changes what the rules grant or deny.

Real code : Rules.Merge on every ordered pair of every kind's universe, every ordered triple of a reduced
            universe (thorough: quadruples too), run in-process (engine/gox/cmd/c10x).
Oracle    : independent denotation [[list]] = set of (qualifier, subject, permission) facts; Merge must keep
            it, and Merge(Merge(l)) == Merge(l).
Binding   : for the kinds AppArmor 3 can express, every pair that Merge touched is also compiled by the
            reference parser, unmerged and merged, and the two policies compared by DFA product exploration
            (E4 policy_equiv). Parser says "different" where the model says "same" => violation; parser says
            "same" where the model says "different" => the model is too strict: harness error, not a verdict.
"""
import json, os, subprocess
from concurrent.futures import ThreadPoolExecutor, ProcessPoolExecutor
from .. import common as C, gox, dfax

PROP = 'C10'
KINDS = ['file', 'link', 'capability', 'network', 'mount', 'remount', 'umount', 'pivot_root', 'change_profile', 'signal', 'ptrace',
         'unix', 'dbus', 'rlimit', 'userns', 'mqueue', 'io_uring', 'all', 'include', 'mixed']
AA3 = {'file', 'link', 'capability', 'network', 'mount', 'remount', 'umount', 'pivot_root', 'change_profile', 'signal', 'ptrace', 'unix', 'dbus', 'rlimit'}
STUB = 'abi <abi/3.0>,\ninclude <tunables/global>\n@{exec_path}=/usr/bin/stub\n@{p_tgt}=tgt\nprofile stub {\n%s\n}\n'


def _conf(pair):
    a, e1 = dfax.compile_text(STUB % '\n'.join('  ' + x for x in pair['in']), C.UPSTREAM)
    b, e2 = dfax.compile_text(STUB % '\n'.join('  ' + x for x in pair['out']), C.UPSTREAM)
    if a is None or b is None:
        return ('skip', e1 or e2, 0, 0)
    pa, pb = dfax.profiles(a)[0], dfax.profiles(b)[0]
    why, st, tr = dfax.policy_equiv(pa, pb)
    if why is not None and pair['same']:
        # the parser sets audit bits of a multi-permission rule on states where only some of its permissions are
        # granted: an audit bit for a permission that is not granted there has no effect. Second opinion with
        # the audit word restricted to granted permissions.
        why2, s2, t2 = dfax.policy_equiv(pa, pb, dfax.allow_masked_label)
        st += s2; tr += t2
        if why2 is None:
            return ('equiv', 'audit bits outside granted permissions differ (no effect)', st, tr)
    return ('equiv' if why is None else 'differ', why, st, tr)


def run(tier):
    ev = C.Evidence(PROP, tier); fnd = C.Findings(PROP)
    bins = gox.build(os.path.join(C.scratch(), 'gox'), ['c10x'])
    t = '1' if tier == 'thorough' else '0'
    emit = '1200' if tier == 'thorough' else '150'

    def one(k):
        r = subprocess.run([bins['c10x'], '-kind', k, '-tier', t, '-emit', emit], capture_output=True, text=True)
        if r.returncode != 0:
            raise SystemExit('HARNESS ERROR: c10x %s: %s' % (k, r.stderr[-1500:]))
        return json.loads(r.stdout)
    with ThreadPoolExecutor(C.NPROC) as pool:
        res = list(pool.map(one, KINDS))
    # lists that come out of the parser, merged in place (what the parser shares between rules is shared here too)
    pj = one('parsed')
    for v in pj['violations']:
        fnd.report(v['sig'], '%s (x%d): input %s' % (v['what'], v['count'], ' | '.join(v['input'])), {'kind': 'parsed', 'rules': v['input']})
    ev.add(transitions=pj['lists'], parsed_lists_merged=pj['lists'])
    conf = []
    for j in res:
        ev.add(states=j['n'], transitions=j['lists'], lists_merged=j['lists'])
        ev.sample({'kind': j['kind'], 'universe': j['n'], 'lists': j['lists'], 'pairs_touched_by_merge': j['touched_total'], 'e.g.': j.get('sample')}, cap=20)
        for v in j['violations']:
            fnd.report(v['sig'], '%s (x%d): input %s' % (v['what'], v['count'], ' | '.join(v['input'])), {'kind': j['kind'], 'rules': v['input']})
        if j['kind'] in AA3:
            conf += [(j['kind'], p) for p in j['touched']]
    with ProcessPoolExecutor(C.NPROC) as pool:
        verdicts = list(pool.map(_conf, [p for _, p in conf], chunksize=8))
    agree = skip = 0; model_errors = []
    for (kind, p), (v, why, st, tr) in zip(conf, verdicts):
        ev.add(dfa_product_states=st, dfa_product_transitions=tr)
        if v == 'skip':
            skip += 1
        elif v == 'equiv' and p['same'] or v == 'differ' and not p['same']:
            agree += 1
        elif v == 'differ' and p['same']:
            fnd.report('meaning-changed-per-reference-parser kind=%s' % kind, 'the reference parser compiles %s and the merged %s to different policies (%s)' % (p['in'], p['out'], why),
                       {'kind': kind, 'rules': p['in'], 'merged': p['out']})
        else:
            model_errors.append((kind, p, why))
    if model_errors and not fnd.viol:
        for kind, p, why in model_errors[:5]:
            print('MODEL ERROR: denotation says the meaning of %s changed by merging to %s, the reference parser compiles both to equivalent policies' % (p['in'], p['out']))
        print('HARNESS ERROR: the denotation is stricter than AppArmor on %d pairs (fix the harness; not a verdict)' % len(model_errors))
        return 2
    if model_errors:
        ev.add(model_stricter_than_reference_on_pairs=len(model_errors))       # reported next to real violations, never instead of them
    ev.add(traces_validated_against_impl=agree, conformance_pairs_compiled=len(conf), conformance_pairs_skipped_uncompilable=skip)
    ev.add(rule='state = one rule of the universe; transition = one real Rules.Merge of an ordered list (pairs of the whole universe, triples/quadruples of a reduced one); traces_validated = merged pairs on which the denotation was confirmed by the reference parser (DFA product equivalence)')
    ev.assume('comments are not part of the meaning; explicit allow == no access type; a rule without access list / signal set / capability names stands for all of them',
              'mount/remount/umount options=(...) and an exec mode with its target are atomic (conjunctive), validated against the reference parser')
    return C.conclude(ev, fnd)


def replay(path):
    return C.replay_by_rerun(PROP, path)
