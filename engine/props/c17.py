"""C17 -- full-system-policy builds leave no unconfined fallback on rewritten exec rules.

Alphabet : every source file rule `<path> ...r(PU|U)x,` without target (independent tokenizer) x
           every --full configuration (thorough: 90 = 5 dist x ABI x version x mode; quick: 10)
Generated: one synthetic profile (planted in the harness' snapshot of the source tree, built by the real pipeline next
           to the shipped ones) with every rule shape {rPUx, rUx} x {no qualifier, owner, audit} x {blank, blanks, tab}
           x {nothing, comment, inline directive naming every distribution, trailing blanks, trailing tab} x {profile,
           sub-profile} plus other path shapes (quoted with a blank, alternation, character class, glob): each
           must come out of every full build as a profile-only transition, and keep its fallback in the normal build
           (control: the harness found the rule).
Oracle   : the same rule (same file, same index in the file-rule sequence) of the full build has an exec
           mode without u/U that still has r and p/P; the matching normal build is the control that the
           harness located the right rule (there the mode is still PUx/Ux, upper or lower case).
"""
import json, os, re, sys
from .. import common as C, cfgx, scan

PROP = 'C17'
FALLBACK = re.compile(r'^[a-zA-Z]*r(PU|U)x$')


def source_rules():
    """(file base name, path token, perms, ordinal among equal (path, perms) in that file)"""
    out = []
    root = os.path.join(C.REPO, 'apparmor.d')
    for d, dn, fn in os.walk(root):
        dn.sort()
        rel = os.path.relpath(d, root)
        flat = rel.startswith('groups/') or rel.startswith('profiles-')
        for f in sorted(fn):
            if not flat:
                f = os.path.normpath(os.path.join(rel, f))
            text = open(os.path.join(root, rel, os.path.basename(f)), errors='surrogateescape').read()
            seen = {}
            for r in scan.rules(text):
                c = scan.classify(r.raw)
                if c['kind'] != 'file' or not c.get('perms') or not c.get('path'):
                    continue
                if c.get('target') is None and FALLBACK.match(c['perms']):
                    k = (c['path'], c['perms'])
                    seen[k] = seen.get(k, 0) + 1
                    out.append((f, c['path'], c['perms'], seen[k] - 1, r.lineno, rel))
    return out


def file_rules(text):
    res = []
    for r in scan.rules(text):
        c = scan.classify(r.raw)
        if c['kind'] == 'file' and c.get('path'):
            res.append((c['path'], c.get('perms') or '', c.get('target'), r.lineno, r.raw))
    return res


def built_name(tree, f):
    for n in ('apparmor.d/' + f, 'apparmor.d/' + f + '.apparmor.d'):
        if n in tree and tree[n][0] == 'f':
            return n
    return None


def check_pair(ex, S, cfgF, treeN, treeF, fnd, ev, stats):
    cacheN = {}; cacheF = {}
    for (f, path, perms, ordn, lineno, rel) in S:
        if rel.startswith('groups/_full'):
            nN = None
        else:
            nN = built_name(treeN, f)
        nF = built_name(treeF, f)
        if nF is None:
            stats['file_not_built'] += 1
            continue
        if nF not in cacheF:
            cacheF[nF] = file_rules(ex.text(treeF[nF]))
        RF = cacheF[nF]
        idx = None
        if nN is not None:
            if nN not in cacheN:
                cacheN[nN] = file_rules(ex.text(treeN[nN]))
            RN = cacheN[nN]
            hits = [i for i, x in enumerate(RN) if x[0] == path and x[1].lower() == perms.lower() and x[2] is None]
            if ordn >= len(hits):
                stats['filtered_for_target'] += 1
                continue
            idx = hits[ordn]
            if len(RN) != len(RF) or RN[idx][0] != RF[idx][0]:
                # full build of this file has a different rule sequence (stacked rules etc.): align by path+ordinal
                idx = None
        if idx is None:
            hits = [i for i, x in enumerate(RF) if x[0] == path and x[2] is None and re.match(r'^[a-z]*r(pu|u|p)x$', x[1].lower())]
            if ordn >= len(hits):
                stats['filtered_for_target'] += 1
                continue
            idx = hits[ordn]
            stats['aligned_by_path'] += 1
        else:
            stats['aligned_by_index'] += 1
        got = RF[idx][1]
        ev.add(transitions=1)
        low = got.lower()
        m = scan.EXEC_RE.findall(got)
        ok = len(m) == 1 and 'u' not in m[0].lower() and 'p' in m[0].lower() and 'r' in low
        if len(ev.cov['samples']) < 6:
            ev.sample({'config': cfgx.tag(cfgF), 'file': f, 'source': '%s %s,' % (path, perms), 'built_full': RF[idx][4]})
        if not ok:
            stats['bad'] += 1
            fnd.report('fallback-kept file=%s path=%s src=%s' % (f, path, perms),
                       'full build %s still has `%s` for source rule `%s %s,`' % (cfgx.tag(cfgF), RF[idx][4], path, perms),
                       {'config': cfgF._asdict(), 'file': f, 'source_line': lineno, 'built_rule': RF[idx][4]})


GEN_FILE = 'apparmor.d/groups/apps/verif-c17'


def generated_profile():
    """(text, [(path token, perms, description)])"""
    shapes = []
    body = {0: [], 1: []}
    n = 0
    for depth in (0, 1):
        for perms in ('rPUx', 'rUx'):
            for qual in ('', 'owner ', 'audit '):
                for sep in (' ', '      ', '\t'):
                    for trail in ('', '  # a comment', ' #aa:only arch debian ubuntu opensuse whonix', '   ', '\t'):
                        n += 1
                        path = '@{bin}/verif-g%d' % n
                        body[depth].append('%s%s%s%s,%s' % (qual, path, sep, perms, trail))
                        shapes.append((path, perms, 'depth=%d qual=%r sep=%r trail=%r' % (depth, qual, sep, trail)))
    for path in ('"/opt/verif a b/x"', '@{bin}/verif-{a,b}', '/verif/x[0-9]*', '@{lib}/verif/**'):
        for perms in ('rPUx', 'rUx'):
            q = path.replace('verif', 'verif-' + perms[1:-1].lower())      # one rule per path
            body[0].append('%s %s,' % (q, perms))
            shapes.append((q, perms, 'path shape'))
    t = 'abi <abi/4.0>,\n\ninclude <tunables/global>\n\n@{exec_path} = @{bin}/verif-c17\nprofile verif-c17 @{exec_path} {\n  include <abstractions/base>\n\n  @{exec_path} mr,\n\n'
    t += ''.join('  ' + l + '\n' for l in body[0])
    t += '\n  profile sub {\n    include <abstractions/base>\n\n' + ''.join('    ' + l + '\n' for l in body[1]) + '\n    include if exists <local/verif-c17_sub>\n  }\n'
    t += '\n  include if exists <local/verif-c17>\n}\n'
    return t, shapes


GEN_STACK = {
    # a host that sorts BEFORE the profile it stacks (X: exec transitions are kept), and the stacked profile with fallback
    # rules at its top level and inside a sub-profile
    'apparmor.d/groups/apps/verif-c17-aaa': 'abi <abi/4.0>,\n\ninclude <tunables/global>\n\n@{exec_path} = @{bin}/verif-c17-aaa\nprofile verif-c17-aaa @{exec_path} {\n  include <abstractions/base>\n\n'
                                            '  @{exec_path} mr,\n  @{bin}/verif-st-own rPUx,\n\n  #aa:stack X verif-c17-zzz\n\n  include if exists <local/verif-c17-aaa>\n}\n',
    'apparmor.d/groups/apps/verif-c17-zzz': 'abi <abi/4.0>,\n\ninclude <tunables/global>\n\n@{exec_path} = @{bin}/verif-c17-zzz\nprofile verif-c17-zzz @{exec_path} {\n  include <abstractions/base>\n\n'
                                            '  @{exec_path} mr,\n  @{bin}/verif-st-a rPUx,\n  @{bin}/verif-st-b  rUx,\n  @{bin}/verif-st-sub rCx -> sub,\n\n  profile sub {\n    include <abstractions/base>\n\n'
                                            '    @{bin}/verif-st-c rPUx,\n\n    include if exists <local/verif-c17-zzz_sub>\n  }\n\n  include if exists <local/verif-c17-zzz>\n}\n',
}


def check_stacked(ex, cfgF, treeF, fnd, ev, stats):
    """the rules a stack directive pastes into a host are rules of the built host: no unconfined fallback there either"""
    name = 'apparmor.d/verif-c17-aaa'
    if name not in treeF:
        fnd.report('generated-profile-not-built', '%s: the synthetic stack host is missing from the build' % cfgx.tag(cfgF), {'config': cfgF._asdict()}); return
    rules = [x for x in file_rules(ex.text(treeF[name])) if '/verif-st-' in x[0] and x[0] != '@{bin}/verif-st-sub']
    if len(rules) != 4:
        raise SystemExit('HARNESS ERROR: expected 4 verif-st rules in the built stack host, found %s' % [x[4] for x in rules])
    for x in rules:
        ev.add(transitions=1); stats['generated_checked'] += 1
        m = scan.EXEC_RE.findall(x[1])
        if not (len(m) == 1 and 'u' not in m[0].lower() and 'p' in m[0].lower()):
            fnd.report('fallback-kept stacked-rule path=%s' % x[0], 'full build %s: the stack host verif-c17-aaa carries `%s` (pasted from verif-c17-zzz, which is built after it)' % (cfgx.tag(cfgF), x[4].strip()),
                       {'config': cfgF._asdict(), 'file': 'verif-c17-aaa', 'rule': x[4]})


def check_generated(ex, cfgF, treeN, treeF, shapes, fnd, ev, stats):
    name = 'apparmor.d/verif-c17'
    if name not in treeF or name not in treeN:
        fnd.report('generated-profile-not-built', '%s: the synthetic profile is missing from the build' % cfgx.tag(cfgF), {'config': cfgF._asdict()}); return
    RN = {}; RF = {}
    for R, tree in ((RN, treeN), (RF, treeF)):
        for x in file_rules(ex.text(tree[name])):
            R.setdefault(x[0], []).append(x)
    for path, perms, desc in shapes:
        hn = [x for x in RN.get(path, []) if x[1].lower() == perms.lower()]
        if len(hn) != 1:
            raise SystemExit('HARNESS ERROR: generated rule %s %s not found once in the normal build (%s): %s' % (path, perms, desc, RN.get(path)))
        hf = RF.get(path, [])
        ev.add(transitions=1); stats['generated_checked'] += 1
        ok = len(hf) == 1
        if ok:
            m = scan.EXEC_RE.findall(hf[0][1])
            ok = len(m) == 1 and 'u' not in m[0].lower() and 'p' in m[0].lower() and 'r' in hf[0][1].lower() and hf[0][2] is None
        if not ok:
            fnd.report('fallback-kept generated perms=%s shape=%s' % (perms, desc), 'full build %s builds the generated rule `%s %s,` (%s) as %s' % (
                cfgx.tag(cfgF), path, perms, desc, [x[4] for x in hf]), {'config': cfgF._asdict(), 'file': 'verif-c17', 'rule': '%s %s,' % (path, perms), 'shape': desc})


def run(tier):
    ev = C.Evidence(PROP, tier); fnd = C.Findings(PROP)
    S = source_rules()
    gen_text, shapes = generated_profile()
    if tier == 'thorough':
        fulls = [c for c in cfgx.all_configs() if c.full]
    else:
        fulls = [cfgx.Cfg(d, a, v, 'complain', True) for d in cfgx.DISTS for a, v in ((4, '4.1'), (3, '3.0'))]
    ex = cfgx.Explorer(extra_src=dict(GEN_STACK, **{GEN_FILE: gen_text}))
    try:
        normals = sorted({c._replace(full=False) for c in fulls})
        trees = ex.build_all(fulls + normals)
    finally:
        ex.close()
    stats = dict(file_not_built=0, filtered_for_target=0, aligned_by_index=0, aligned_by_path=0, bad=0, generated_checked=0)
    for c in fulls:
        check_pair(ex, S, c, trees[c._replace(full=False)], trees[c], fnd, ev, stats)
        check_generated(ex, c, trees[c._replace(full=False)], trees[c], shapes, fnd, ev, stats)
        check_stacked(ex, c, trees[c], fnd, ev, stats)
    ev.add(states=len(fulls) + len(normals), source_rules=len(S), generated_rule_shapes=len(shapes), configurations=len(fulls), **stats)
    ev.add(traces_validated_against_impl=ev.cov['transitions'])
    ev.add(rule='state = one build tree of the real prebuild; transition = one (source rule, full configuration) pair looked up in the built text')
    ev.assume('rules are read with the harness tokenizer (engine/scan.py); a rule a filter directive removes for a target is skipped, counted in filtered_for_target',
              'builds run under the all-default map-iteration schedule (order dependence is C02)')
    if len(S) < 50:
        fnd.report('vacuous', 'only %d source rules with an unconfined fallback were found' % len(S), None)
    return C.conclude(ev, fnd)


def replay(path):
    j = json.load(open(path))
    rp = j['replay']
    c = cfgx.Cfg(**rp['config'])
    ex = cfgx.Explorer(jobs=1)
    t = ex.build_all([c])[c]
    ex.close()
    n = built_name(t, rp['file'])
    bad = [x for x in file_rules(ex.text(t[n])) if re.search(r'r(pu|u)x$', x[1].lower()) and x[2] is None]
    for b in bad:
        print('still unconfined-capable:', b[4])
    if bad:
        print('VIOLATION property=%s replay=%s' % (PROP, path))
    return 1 if bad else 0
