"""C17 -- full-system-policy builds leave no unconfined fallback on rewritten exec rules.

Alphabet : every source file rule `<path> ...r(PU|U)x,` without target (independent tokenizer) x
           every --full configuration (thorough: 90 = 5 dist x ABI x version x mode; quick: 10)
Oracle   : the same rule (same file, same index in the file-rule sequence) of the full build has an exec
           mode without u/U that still has r and p/P; the matching normal build is the control that the
           harness located the right rule (there the mode is still PUx/Ux, upper or lower case).
"""
import json, os, re, sys
from .. import common as C, cfgx, scan

PROP = 'C17'
FALLBACK = re.compile(r'^[a-zA-Z]*r(PU|U)x$')


def source_rules():
    """(file base name, path token, perms, ordinal among equal (path, perms) in that file)"""
    out = []
    root = os.path.join(C.REPO, 'apparmor.d')
    for d, dn, fn in os.walk(root):
        dn.sort()
        rel = os.path.relpath(d, root)
        flat = rel.startswith('groups/') or rel.startswith('profiles-')
        for f in sorted(fn):
            if not flat:
                f = os.path.normpath(os.path.join(rel, f))
            text = open(os.path.join(root, rel, os.path.basename(f)), errors='surrogateescape').read()
            seen = {}
            for r in scan.rules(text):
                c = scan.classify(r.raw)
                if c['kind'] != 'file' or not c.get('perms') or not c.get('path'):
                    continue
                if c.get('target') is None and FALLBACK.match(c['perms']):
                    k = (c['path'], c['perms'])
                    seen[k] = seen.get(k, 0) + 1
                    out.append((f, c['path'], c['perms'], seen[k] - 1, r.lineno, rel))
    return out


def file_rules(text):
    res = []
    for r in scan.rules(text):
        c = scan.classify(r.raw)
        if c['kind'] == 'file' and c.get('path'):
            res.append((c['path'], c.get('perms') or '', c.get('target'), r.lineno, r.raw))
    return res


def built_name(tree, f):
    for n in ('apparmor.d/' + f, 'apparmor.d/' + f + '.apparmor.d'):
        if n in tree and tree[n][0] == 'f':
            return n
    return None


def check_pair(ex, S, cfgF, treeN, treeF, fnd, ev, stats):
    cacheN = {}; cacheF = {}
    for (f, path, perms, ordn, lineno, rel) in S:
        if rel.startswith('groups/_full'):
            nN = None
        else:
            nN = built_name(treeN, f)
        nF = built_name(treeF, f)
        if nF is None:
            stats['file_not_built'] += 1
            continue
        if nF not in cacheF:
            cacheF[nF] = file_rules(ex.text(treeF[nF]))
        RF = cacheF[nF]
        idx = None
        if nN is not None:
            if nN not in cacheN:
                cacheN[nN] = file_rules(ex.text(treeN[nN]))
            RN = cacheN[nN]
            hits = [i for i, x in enumerate(RN) if x[0] == path and x[1].lower() == perms.lower() and x[2] is None]
            if ordn >= len(hits):
                stats['filtered_for_target'] += 1
                continue
            idx = hits[ordn]
            if len(RN) != len(RF) or RN[idx][0] != RF[idx][0]:
                # full build of this file has a different rule sequence (stacked rules etc.): align by path+ordinal
                idx = None
        if idx is None:
            hits = [i for i, x in enumerate(RF) if x[0] == path and x[2] is None and re.match(r'^[a-z]*r(pu|u|p)x$', x[1].lower())]
            if ordn >= len(hits):
                stats['filtered_for_target'] += 1
                continue
            idx = hits[ordn]
            stats['aligned_by_path'] += 1
        else:
            stats['aligned_by_index'] += 1
        got = RF[idx][1]
        ev.add(transitions=1)
        low = got.lower()
        m = scan.EXEC_RE.findall(got)
        ok = len(m) == 1 and 'u' not in m[0].lower() and 'p' in m[0].lower() and 'r' in low
        if len(ev.cov['samples']) < 6:
            ev.sample({'config': cfgx.tag(cfgF), 'file': f, 'source': '%s %s,' % (path, perms), 'built_full': RF[idx][4]})
        if not ok:
            stats['bad'] += 1
            fnd.report('fallback-kept file=%s path=%s src=%s' % (f, path, perms),
                       'full build %s still has `%s` for source rule `%s %s,`' % (cfgx.tag(cfgF), RF[idx][4], path, perms),
                       {'config': cfgF._asdict(), 'file': f, 'source_line': lineno, 'built_rule': RF[idx][4]})


def run(tier):
    ev = C.Evidence(PROP, tier); fnd = C.Findings(PROP)
    S = source_rules()
    if tier == 'thorough':
        fulls = [c for c in cfgx.all_configs() if c.full]
    else:
        fulls = [cfgx.Cfg(d, a, v, 'complain', True) for d in cfgx.DISTS for a, v in ((4, '4.1'), (3, '3.0'))]
    ex = cfgx.Explorer()
    try:
        normals = sorted({c._replace(full=False) for c in fulls})
        trees = ex.build_all(fulls + normals)
    finally:
        ex.close()
    stats = dict(file_not_built=0, filtered_for_target=0, aligned_by_index=0, aligned_by_path=0, bad=0)
    for c in fulls:
        check_pair(ex, S, c, trees[c._replace(full=False)], trees[c], fnd, ev, stats)
    ev.add(states=len(fulls) + len(normals), source_rules=len(S), configurations=len(fulls), **stats)
    ev.add(traces_validated_against_impl=ev.cov['transitions'])
    ev.add(rule='state = one build tree of the real prebuild; transition = one (source rule, full configuration) pair looked up in the built text')
    ev.assume('rules are read with the harness tokenizer (engine/scan.py); a rule a filter directive removes for a target is skipped, counted in filtered_for_target',
              'builds run under the all-default map-iteration schedule (order dependence is C02)')
    if len(S) < 50:
        fnd.report('vacuous', 'only %d source rules with an unconfined fallback were found' % len(S), None)
    return C.conclude(ev, fnd)


def replay(path):
    j = json.load(open(path))
    rp = j['replay']
    c = cfgx.Cfg(**rp['config'])
    ex = cfgx.Explorer(jobs=1)
    t = ex.build_all([c])[c]
    ex.close()
    n = built_name(t, rp['file'])
    bad = [x for x in file_rules(ex.text(t[n])) if re.search(r'r(pu|u)x$', x[1].lower()) and x[2] is None]
    for b in bad:
        print('still unconfined-capable:', b[4])
    if bad:
        print('VIOLATION property=%s replay=%s' % (PROP, path))
    return 1 if bad else 0
