"""Builds the Go harnesses (module verifx under engine/gox) against the *current* /repo tree.
The module is copied to scratch with `replace github.com/roddhjav/apparmor.d => $VERIF_REPO`;
instrumentation files are injected with -overlay (see overlay.py)."""
import json, os, shutil, subprocess
from . import common as C, overlay

SRC = os.path.join(C.VERIF, 'engine', 'gox')


def prepare(outdir, extra_overlay=None):
    mod = os.path.join(outdir, 'mod')
    shutil.rmtree(mod, ignore_errors=True)
    shutil.copytree(SRC, mod)
    gm = open(os.path.join(mod, 'go.mod.in')).read().replace('@REPO@', C.REPO)
    open(os.path.join(mod, 'go.mod'), 'w').write(gm)
    shutil.copyfile(os.path.join(C.REPO, 'go.sum'), os.path.join(mod, 'go.sum'))
    extra = {}
    # files dropped into repo packages at build time: engine/gox/inject/<pkg path with __>/<file>.go
    inj = os.path.join(SRC, 'inject')
    if os.path.isdir(inj):
        for pk in sorted(os.listdir(inj)):
            for f in sorted(os.listdir(os.path.join(inj, pk))):
                extra[os.path.join(C.REPO, pk.replace('__', '/'), f)] = os.path.join(inj, pk, f)
    if extra_overlay:
        extra.update(extra_overlay)
    ov = overlay.make(os.path.join(outdir, 'ov'), with_main=True, extra_replace=extra)
    return mod, ov


def build(outdir, names, extra_overlay=None, race=False):
    """returns {name: binary path}"""
    mod, ov = prepare(outdir, extra_overlay)
    bins = {}
    procs = []
    for n in names:
        b = os.path.join(outdir, n)
        cmd = ['go', 'build', '-overlay', ov, '-o', b] + (['-race'] if race else []) + ['./cmd/' + n]
        env = C.go_env({'CGO_ENABLED': '1'} if race else None)
        procs.append((n, b, subprocess.Popen(cmd, cwd=mod, env=env, stdout=subprocess.PIPE, stderr=subprocess.STDOUT)))
    for n, b, p in procs:
        out = p.communicate()[0]
        if p.returncode:
            raise SystemExit('HARNESS ERROR: go build of harness %s failed against the current tree\n%s' % (n, out.decode()))
        bins[n] = b
    return bins


def all_names():
    return sorted(os.listdir(os.path.join(SRC, 'cmd')))


def build_all():
    out = os.path.join(C.scratch(), 'gox-setup')
    build(out, all_names())
    print('setup: built harnesses', all_names())


def jsonl(binary, reqs, env=None, cwd=None, timeout=600):
    """one process, many requests; returns list of responses"""
    inp = '\n'.join(json.dumps(r) for r in reqs) + '\n'
    e = dict(os.environ, LC_ALL='C'); e.update(env or {})
    r = subprocess.run([binary], input=inp.encode(), capture_output=True, env=e, cwd=cwd, timeout=timeout)
    if r.returncode != 0:
        raise SystemExit('HARNESS ERROR: %s exited %d: %s' % (binary, r.returncode, r.stderr.decode()[-2000:]))
    return [json.loads(l) for l in r.stdout.decode().split('\n') if l.strip()]
