"""E5 scan -- independent readers of AppArmor policy text. Shares no code with pkg/aa.

 blocks(text)  -> list of Block(name path, header line, flags, attachment tokens, xattrs, line range)
 rules(text)   -> list of Rule(line, block path, raw text, comment) for every comma-terminated rule
 classify(raw) -> dict(kind, quals, owner, path, perms, exec_mode, target, ...)
"""
import collections, re

Block = collections.namedtuple('Block', 'path name kind header lineno flags rest indent')
Rule = collections.namedtuple('Rule', 'lineno block raw comment indent')

KINDS = ['capability', 'network', 'mount', 'remount', 'umount', 'pivot_root', 'change_profile', 'signal',
         'ptrace', 'unix', 'dbus', 'rlimit', 'set', 'userns', 'mqueue', 'io_uring', 'all', 'link', 'file',
         'include', 'abi', 'alias']
PERM_RE = re.compile(r'^(?:[rwaklmdDc]|[pPcCuU][uU]?i?x|i[xX]|ux|Ux|x)+$')
EXEC_RE = re.compile(r'(?:[pPcC][uU]?i?x|[uU]x|i[xX]|(?<![a-zA-Z])x)')


def split_comment(line):
    """(code, comment) -- '#' starts a comment at line start or after whitespace, outside quotes"""
    q = False
    for i, ch in enumerate(line):
        if ch == '"' and (i == 0 or line[i - 1] != '\\'):
            q = not q
        elif ch == '#' and not q and (i == 0 or line[i - 1] in ' \t'):
            return line[:i], line[i:]
    return line, ''


HDR = re.compile(r'^(\s*)(profile\s+|hat\s+|\^)("[^"]*"|[^\s{]+)(.*?)\{\s*$')


def blocks(text):
    out = []
    stack = []
    for ln, line in enumerate(text.split('\n'), 1):
        code, _ = split_comment(line)
        if not code.strip():
            continue
        m = HDR.match(code)
        if m:
            indent, kw, name, rest = m.group(1), m.group(2).strip(), m.group(3), m.group(4)
            fm = re.search(r'flags\s*=\s*\(([^)]*)\)', rest)
            flags = tuple(x for x in re.split(r'[,\s]+', fm.group(1)) if x) if fm else ()
            kind = 'hat' if kw in ('hat', '^') else 'profile'
            stack.append(name)
            out.append(Block('//'.join(stack), name, kind, code.rstrip(), ln, flags, rest, len(indent)))
        elif code.strip() == '}':
            if stack:
                stack.pop()
    return out


def header_tokens(b):
    """header of a block as a token list with the flags=(...) group removed"""
    h = re.sub(r'flags\s*=\s*\([^)]*\)', ' ', b.header)
    return h.split()


def _depth_scan(s, depth, q):
    """advance nesting state over s; returns (depth, q, index of a terminating comma or -1)"""
    for i, ch in enumerate(s):
        if ch == '"' and (i == 0 or s[i - 1] != '\\'):
            q = not q
        elif q:
            continue
        elif ch in '({[':
            depth += 1
        elif ch in ')}]':
            depth = max(0, depth - 1)
        elif ch == ',' and depth == 0 and s[i + 1:].strip() == '':
            return depth, q, i
    return depth, q, -1


def rules(text):
    out = []
    stack = []
    cur = None
    depth = 0; q = False
    for ln, line in enumerate(text.split('\n'), 1):
        code, com = split_comment(line)
        if cur is None:
            if not code.strip():
                continue
            if HDR.match(code):
                stack.append(HDR.match(code).group(3)); continue
            if code.strip() == '}':
                if stack: stack.pop()
                continue
            if re.match(r'^\s*(if|else)\b.*\{\s*$', code):
                stack.append('?cond'); continue
            if re.match(r'^\s*[@$]\{?[A-Za-z0-9_]+\}?\s*\+?=', code):
                # variable definition: one line, no terminating comma
                out.append(Rule(ln, '//'.join(stack), code.strip(), com.strip(), len(code) - len(code.lstrip())))
                continue
            cur = {'ln': ln, 'parts': [], 'indent': len(code) - len(code.lstrip())}
            depth = 0; q = False
        depth, q, end = _depth_scan(code, depth, q)
        cur['parts'].append(code.strip())
        if end >= 0:
            raw = ' '.join(cur['parts'])
            out.append(Rule(cur['ln'], '//'.join(stack), raw, com.strip(), cur['indent']))
            cur = None
        elif re.match(r'^\s*#?include\b', cur['parts'][0]) and depth == 0:
            # include without trailing comma (legal)
            out.append(Rule(cur['ln'], '//'.join(stack), ' '.join(cur['parts']), com.strip(), cur['indent']))
            cur = None
        elif len(cur['parts']) > 12:
            out.append(Rule(cur['ln'], '//'.join(stack), ' '.join(cur['parts']) + ' <unterminated>', '', cur['indent']))
            cur = None
    return out


def tokens(raw):
    """split on whitespace outside quotes and brackets"""
    out = []; cur = ''; depth = 0; q = False
    for i, ch in enumerate(raw):
        if ch == '"' and (i == 0 or raw[i - 1] != '\\'):
            q = not q; cur += ch
        elif q:
            cur += ch
        elif ch in '({[':
            depth += 1; cur += ch
        elif ch in ')}]':
            depth = max(0, depth - 1); cur += ch
        elif ch in ' \t' and depth == 0:
            if cur: out.append(cur); cur = ''
        else:
            cur += ch
    if cur: out.append(cur)
    return out


def is_path(t):
    return t[:1] in ('/', '"', '{') or t.startswith('@{')


def classify(raw):
    raw = raw.strip()
    if raw.endswith(','):
        raw = raw[:-1].rstrip()
    toks = tokens(raw)
    r = {'kind': None, 'quals': [], 'owner': False, 'tokens': toks}
    i = 0
    while i < len(toks) and toks[i] in ('audit', 'allow', 'deny', 'priority'):
        r['quals'].append(toks[i]); i += 1
    if i < len(toks) and toks[i] == 'owner':
        r['owner'] = True; i += 1
    if i >= len(toks):
        return r
    t = toks[i]
    kw = t.split('=')[0]
    if t in ('include', '#include'):
        r['kind'] = 'include'; return r
    if t == 'file' or is_path(t) or PERM_RE.match(t):
        r['kind'] = 'file'
        rest = toks[i + 1:] if t == 'file' else toks[i:]
        if '->' in rest:
            k = rest.index('->'); r['target'] = ' '.join(rest[k + 1:]); rest = rest[:k]
        else:
            r['target'] = None
        path = perms = None
        if len(rest) == 2:
            if is_path(rest[0]) and not is_path(rest[1]):
                path, perms = rest
            elif is_path(rest[1]):
                perms, path = rest
        elif len(rest) == 1:
            path = rest[0] if is_path(rest[0]) else None
        r['path'] = path; r['perms'] = perms
        r['exec_mode'] = None
        if perms:
            m = EXEC_RE.findall(perms)
            r['exec_mode'] = m[0] if m else None
        return r
    if kw in KINDS:
        r['kind'] = kw
        if kw == 'link':
            rest = toks[i + 1:]
            r['target'] = None
        if kw == 'change_profile':
            rest = toks[i + 1:]
            r['target'] = ' '.join(rest[rest.index('->') + 1:]) if '->' in rest else None
            r['exec'] = rest[0] if rest and rest[0] != '->' and is_path(rest[0]) else None
        return r
    r['kind'] = 'unknown'
    return r
