"""E4 dfax -- language questions answered on the DFAs compiled by the reference apparmor_parser.

Reader for the binary policy written by `apparmor_parser -Q -K -S` (TLV stream, little-endian; flex-style
DFA tables, big-endian, magic 1B5E783D) and the kernel's own matching loop; membership by walking a
string, equivalence by BFS over the product of two DFAs (shortest distinguishing string)."""
import collections, os, struct, subprocess, tempfile
from . import common as C


def walk(buf):
    i = 0; name = None; n = len(buf)
    while i < n:
        t = buf[i]; i += 1
        if t == 4:
            l = struct.unpack_from('<H', buf, i)[0]; i += 2
            name = buf[i:i + l - 1].decode('latin1'); i += l; continue
        if t == 0: v = buf[i]; i += 1; k = 'u8'
        elif t == 1: v = struct.unpack_from('<H', buf, i)[0]; i += 2; k = 'u16'
        elif t == 2: v = struct.unpack_from('<I', buf, i)[0]; i += 4; k = 'u32'
        elif t == 3: v = struct.unpack_from('<Q', buf, i)[0]; i += 8; k = 'u64'
        elif t == 5:
            l = struct.unpack_from('<H', buf, i)[0]; i += 2; v = buf[i:i + l - 1].decode('latin1'); i += l; k = 'str'
        elif t == 6:
            l = struct.unpack_from('<I', buf, i)[0]; i += 4; v = buf[i:i + l]; i += l; k = 'blob'
        elif t == 7: v = None; k = 'struct'
        elif t == 8: v = None; k = 'structend'
        elif t == 9: v = struct.unpack_from('<H', buf, i)[0]; i += 2; k = 'list'
        elif t == 10: v = None; k = 'listend'
        elif t == 11: v = struct.unpack_from('<H', buf, i)[0]; i += 2; k = 'array'
        elif t == 12: v = None; k = 'arrayend'
        else:
            raise ValueError('bad tag %d at %d' % (t, i - 1))
        yield name, k, v
        name = None


class DFA:
    def __init__(self, blob):
        off = blob.find(b'\x1b\x5e\x78\x3d')
        if off < 0:
            raise ValueError('no DFA magic')
        b = blob[off:]
        magic, hsize, ssize, flags = struct.unpack_from('>IIIH', b, 0)
        self.flags = flags
        i = hsize
        self.t = {}
        while i + 12 <= len(b):
            tid, tfl, hi, lo = struct.unpack_from('>HHII', b, i); i += 12
            if tid == 0 and lo == 0:
                break
            w = {1: 1, 2: 2, 4: 4}[tfl]
            fmt = {1: 'B', 2: 'H', 4: 'I'}[tfl]
            self.t[tid] = struct.unpack_from('>%d%s' % (lo, fmt), b, i)
            i += lo * w
            i = (i + 7) & ~7
        self.accept = self.t[1]; self.accept2 = self.t.get(7) or tuple([0] * len(self.accept))
        self.base = self.t[2]; self.chk = self.t[3]; self.deflt = self.t[4]; self.nxt = self.t[8]
        self.ec = self.t.get(5)
        self._memo = {}

    def step(self, s, c):
        key = (s, c)
        r = self._memo.get(key)
        if r is not None:
            return r
        s0 = s
        if self.ec:
            c = self.ec[c]
        while True:
            b = self.base[s]; pos = (b & 0xffffff) + c
            if pos < len(self.chk) and self.chk[pos] == s:
                r = self.nxt[pos]; break
            s2 = self.deflt[s]
            if b & 0x80000000:
                s = s2; continue
            r = s2; break
        self._memo[key] = r
        return r

    def match(self, data, start=1):
        s = start
        for c in data:
            s = self.step(s, c)
            if s == 0:
                break
        return s

    def label(self, s):
        return (self.accept[s], self.accept2[s])


class Profile:
    def __init__(self):
        self.name = None; self.xmatch = None; self.policy = None; self.fields = []; self.xtable = []


def profiles(buf):
    """split a compiled policy stream into profiles: name, xmatch DFA, policydb DFA, file DFA, other fields.
    Layout written by apparmor_parser 3.0.x: name, [aadfa xmatch, u32 xmatch_len], flags, caps, ...,
    policydb{aadfa}, aadfa (file rules), xtable."""
    out = []
    items = list(walk(buf))
    i = 0; cur = None
    while i < len(items):
        name, k, v = items[i]
        if k == 'struct' and name == 'profile':
            cur = Profile(); cur.dfas = []; cur.policydb = None; cur.file = None; out.append(cur)
            cur.name = items[i + 1][2]
            i += 2
            if i < len(items) and items[i][0] == 'aadfa' and items[i][1] == 'blob' and items[i + 1][0] is None and items[i + 1][1] == 'u32':
                cur.xmatch = DFA(items[i][2]); cur.fields.append(('xmatch_len', items[i + 1][2])); i += 2
            continue
        if cur is not None:
            if k == 'struct' and name == 'policydb' and items[i + 1][0] == 'aadfa':
                cur.policydb = DFA(items[i + 1][2]); cur.dfas.append(cur.policydb); i += 2; continue
            if k == 'blob' and name == 'aadfa':
                cur.file = DFA(v); cur.dfas.append(cur.file); i += 1; continue
            cur.fields.append((name, k, v) if k != 'blob' else (name, k, C.sha(v)))
        i += 1
    return out


def compile_text(text, base, extra=(), tmpdir=None):
    """-> (bytes | None, error)"""
    tmpdir = tmpdir or os.path.join(C.scratch(), 'dfax'); os.makedirs(tmpdir, exist_ok=True)
    with tempfile.NamedTemporaryFile('w', suffix='.aa', delete=False, dir=tmpdir) as f:
        f.write(text); n = f.name
    try:
        r = subprocess.run([C.PARSER, '-Q', '-K', '--policy-features', C.FEATURES, '--kernel-features', C.FEATURES, '-b', base, '-S', *extra, n], capture_output=True, cwd=base)
    finally:
        os.unlink(n)
    if r.returncode:
        err = [l for l in r.stderr.decode(errors='replace').split('\n') if l.strip() and 'Cache' not in l and not l.startswith('Warning')]
        return None, (err[0] if err else 'exit %d' % r.returncode).replace(n, '<stub>')
    return r.stdout, ''


def equiv(a, b, label=lambda d, s: d.accept[s] != 0, limit=2000000):
    """BFS over the product automaton from (1,1) over bytes 0..255 (NUL separates the fields of mount, link and dbus entries).
    -> (shortest distinguishing string | None, product states, transitions)"""
    seen = {(1, 1)}; q = collections.deque([((1, 1), b'')]); tr = 0
    while q:
        (s, t), path = q.popleft()
        if label(a, s) != label(b, t):
            return path, len(seen), tr
        for c in range(0, 256):
            n = (a.step(s, c) if s else 0, b.step(t, c) if t else 0); tr += 1
            if n != (0, 0) and n not in seen:
                seen.add(n); q.append((n, path + bytes([c])))
        if len(seen) > limit:
            raise RuntimeError('product too large')
    return None, len(seen), tr


def full_label(d, s):
    return (d.accept[s], d.accept2[s])


def allow_masked_label(d, s):
    """permission word, and the audit/quiet word restricted to permissions that are granted in that state"""
    return (d.accept[s], d.accept2[s] & d.accept[s])


def policy_equiv(pa, pb, label=None):
    """two compiled single-profile policies mean the same: xmatch language, every policy DFA with full
    permission words, and all other fields. -> (None | reason, states, transitions)"""
    st = tr = 0
    if (pa.xmatch is None) != (pb.xmatch is None):
        return 'attachment present on one side only', 0, 0
    if pa.xmatch is not None:
        cex, s, t = equiv(pa.xmatch, pb.xmatch); st += s; tr += t
        if cex is not None:
            return 'attachment differs on %r' % cex, st, tr
    if len(pa.dfas) != len(pb.dfas):
        return 'number of policy DFAs differs (%d vs %d)' % (len(pa.dfas), len(pb.dfas)), st, tr
    for da, db in zip(pa.dfas, pb.dfas):
        cex, s, t = equiv(da, db, label or full_label); st += s; tr += t
        if cex is not None:
            return 'policy DFA differs on input %r' % cex, st, tr
    fa = [f for f in pa.fields if f[0] not in ('aadfa',)]
    fb = [f for f in pb.fields if f[0] not in ('aadfa',)]
    if fa != fb:
        d = [(x, y) for x, y in zip(fa, fb) if x != y][:3]
        return 'non-DFA fields differ: %s' % (d or 'length'), st, tr
    return None, st, tr


# ---------------------------------------------------------------------------------------------
# self-test: the reader against a naive glob matcher on an enumerated space


def _glob_match(pat, s):
    """40-line backtracking matcher for the AARE subset used in the self-test: literals, ?, *, **, {a,b}, [..]"""
    def expand(p):
        i = p.find('{')
        if i < 0:
            return [p]
        depth = 0
        for j in range(i, len(p)):
            if p[j] == '{': depth += 1
            elif p[j] == '}':
                depth -= 1
                if depth == 0:
                    break
        inner = p[i + 1:j]; alts = []; d = 0; cur = ''
        for ch in inner:
            if ch == ',' and d == 0:
                alts.append(cur); cur = ''
            else:
                if ch == '{': d += 1
                if ch == '}': d -= 1
                cur += ch
        alts.append(cur)
        out = []
        for a in alts:
            out += expand(p[:i] + a + p[j + 1:])
        return out

    def m(p, s, prev='/'):
        # prev: the pattern character before p (AppArmor: a glob directly after '/' that ends the component
        # or the pattern must consume at least one character)
        if not p:
            return not s
        if p.startswith('**'):
            least = 1 if prev == '/' and (len(p) == 2 or p[2] == '/') else 0
            if least and (not s or s[0] == '/'):
                return False
            return any(m(p[2:], s[k:], '*') for k in range(least, len(s) + 1))
        if p[0] == '*':
            least = 1 if prev == '/' and (len(p) == 1 or p[1] == '/') else 0
            k = 0
            while True:
                if k >= least and m(p[1:], s[k:], '*'): return True
                if k >= len(s) or s[k] == '/': return False
                k += 1
        if p[0] == '?':
            return bool(s) and s[0] != '/' and m(p[1:], s[1:], '?')
        if p[0] == '[':
            j = p.index(']')
            return bool(s) and s[0] in p[1:j] and m(p[j + 1:], s[1:], ']')
        return bool(s) and s[0] == p[0] and m(p[1:], s[1:], p[0])
    return any(m(x[1:], s[1:], '/') for x in expand(pat) if s[:1] == x[:1] == '/')


def selftest():
    import itertools
    pats = ['/a', '/a*', '/a**', '/{a,b}', '/a/{,b}', '/?', '/a/*/b', '/**/b', '/[ab]', '/a.b', '/{a,b}/{a,b}', '/a/**', '/*', '/**',
            '/a{,/b}', '/{a,b/{a,b}}', '/.a', '/a/', '/a/*', '/*.*']
    text = 'profile t {\n' + ''.join('  %s r,\n' % p for p in []) + '}\n'
    n = 0
    strings = [''.join(t) for L in range(1, 6) for t in itertools.product('/ab.', repeat=L) if t[0] == '/']
    for p in pats:
        b, err = compile_text('profile t {\n  %s r,\n}\n' % p, C.UPSTREAM)
        if b is None:
            raise SystemExit('dfax selftest: cannot compile %s: %s' % (p, err))
        pr = profiles(b)[0]
        d = pr.file
        for s in strings:
            st = d.match(s.encode())
            got = bool(d.accept[st] & 0x4) if st else False     # AA_MAY_READ user bit
            want = _glob_match(p, s)
            n += 1
            if got != want:
                raise SystemExit('dfax selftest: pattern %s string %s: DFA says %s, glob matcher says %s' % (p, s, got, want))
    return n
