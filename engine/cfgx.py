"""E1 cfgx -- configuration / build-directory-history explorer on the real prebuild binary.

State      = content of .build as a Merkle map  rel path -> ('f', sha256, mode) | ('l', target) | ('d',)
Transition = one prebuild run with one configuration from a chosen prior state of .build
Blobs go to a content-addressed store in the scratch dir.
"""
import collections, hashlib, itertools, os, shutil, subprocess, sys
from concurrent.futures import ProcessPoolExecutor
from . import common as C, overlay

DISTS = ['arch', 'debian', 'ubuntu', 'opensuse', 'whonix']
ABIS = [3, 4]
VERS = ['3.0', '4.0', '4.1']
MODES = ['none', 'complain', 'enforce']
FULLS = [False, True]
SRC_DIRS = ['apparmor.d', 'dists', 'share', 'systemd', 'debian']

Cfg = collections.namedtuple('Cfg', 'dist abi ver mode full')


def tag(c):
    return '%s-abi%d-v%s-%s-%s' % (c.dist, c.abi, c.ver, c.mode, 'full' if c.full else 'normal')


def all_configs():
    return [Cfg(*t) for t in itertools.product(DISTS, ABIS, VERS, MODES, FULLS)]


def configs60(mode='complain'):
    return [Cfg(d, a, v, mode, f) for d, a, v, f in itertools.product(DISTS, ABIS, VERS, FULLS)]


def qset():
    """greedy pairwise covering array over the 5 factors + the three Makefile entry points"""
    allc = all_configs()
    factors = [DISTS, ABIS, VERS, MODES, FULLS]
    need = set()
    for i, j in itertools.combinations(range(5), 2):
        for a in factors[i]:
            for b in factors[j]:
                need.add((i, a, j, b))
    chosen = [Cfg('arch', 4, '4.1', 'complain', False), Cfg('arch', 4, '4.1', 'none', False),
              Cfg('arch', 4, '4.1', 'complain', True)]

    def pairs(c):
        return {(i, c[i], j, c[j]) for i, j in itertools.combinations(range(5), 2)}
    for c in chosen:
        need -= pairs(c)
    while need:
        best = max(allc, key=lambda c: (len(pairs(c) & need), -allc.index(c)))
        chosen.append(best)
        need -= pairs(best)
    return chosen


def neighbours(c):
    out = []
    for i, dom in enumerate([DISTS, ABIS, VERS, MODES, FULLS]):
        for v in dom:
            if v != c[i]:
                l = list(c); l[i] = v; out.append(Cfg(*l))
    return out


def args_of(c):
    a = ['--abi', str(c.abi), '--version', c.ver]
    if c.mode != 'none':
        a.append('--' + c.mode)
    if c.full:
        a.append('--full')
    return a


# ----------------------------------------------------------------------------------------------
# merkle / CAS


def merkle(root, cas=None):
    ent = {}
    for d, dn, fn in os.walk(root):
        for n in dn + fn:
            p = os.path.join(d, n)
            rel = os.path.relpath(p, root)
            if os.path.islink(p):
                ent[rel] = ('l', os.readlink(p))
            elif os.path.isdir(p):
                ent[rel] = ('d',)
            else:
                b = open(p, 'rb').read()
                h = hashlib.sha256(b).hexdigest()
                ent[rel] = ('f', h, os.stat(p).st_mode & 0o777)
                if cas:
                    q = os.path.join(cas, h)
                    if not os.path.exists(q):
                        tmp = q + '.%d' % os.getpid()
                        open(tmp, 'wb').write(b)
                        os.replace(tmp, q)
    return ent


def root_hash(ent):
    h = hashlib.sha256()
    for k in sorted(ent):
        h.update(repr((k, ent[k])).encode())
    return h.hexdigest()


def materialise(ent, cas, root, link=False):
    """write a Merkle map back to disk; link=True hard-links blobs (read-only consumers only)"""
    os.makedirs(root, exist_ok=True)
    for rel in sorted(ent):
        e = ent[rel]
        p = os.path.join(root, rel)
        if e[0] == 'd':
            os.makedirs(p, exist_ok=True)
    for rel in sorted(ent):
        e = ent[rel]
        p = os.path.join(root, rel)
        if e[0] == 'f':
            os.makedirs(os.path.dirname(p), exist_ok=True)
            if link:
                os.link(os.path.join(cas, e[1]), p)
            else:
                shutil.copyfile(os.path.join(cas, e[1]), p)
                os.chmod(p, e[2])
        elif e[0] == 'l':
            os.makedirs(os.path.dirname(p), exist_ok=True)
            os.symlink(e[1], p)


def blob(cas, e):
    return open(os.path.join(cas, e[1]), 'rb').read()


def text(cas, e):
    return blob(cas, e).decode('utf-8', errors='surrogateescape')


# ----------------------------------------------------------------------------------------------
# junk prior state: content no build creates, in every managed directory


def plant_junk(build):
    j = []
    for d in ('apparmor.d', 'apparmor.d/abstractions', 'apparmor.d/tunables', 'apparmor.d/disable',
              'apparmor.d/groups/stale', 'apparmor.d/local', 'systemd/system/stale.service.d', 'systemd/user',
              'share', 'share/stale'):
        os.makedirs(os.path.join(build, d), exist_ok=True)
    files = {
        'apparmor.d/zz-stale-profile': 'profile zz-stale-profile /usr/bin/zz-stale { }\n',
        'apparmor.d/zz-stale.apparmor.d': 'profile zz-stale /usr/bin/zz-stale2 { }\n',
        'apparmor.d/abstractions/zz-stale': '  /stale r,\n',
        'apparmor.d/tunables/zz-stale': '@{stale}=/x\n',
        'apparmor.d/groups/stale/zz-stale-group': 'profile zz-stale-group { }\n',
        'apparmor.d/local/zz-stale': '/stale r,\n',
        'systemd/system/stale.service.d/apparmor.conf': '[Service]\nAppArmorProfile=zz-stale\n',
        'systemd/user/zz-stale.conf': 'x\n',
        'share/stale/zz': 'x\n',
        'apparmor.d/systemd': 'profile systemd-stale { }\n',
    }
    for rel, t in files.items():
        p = os.path.join(build, rel)
        open(p, 'w').write(t)
        j.append(rel)
    # entries in the ROOT of the build directory named like by-name ignore entries (a file and a directory): nothing a
    # run leaves there may change what the ignore lists remove
    bare = []
    for mf in sorted(os.listdir(os.path.join(C.REPO, 'dists/ignore'))):
        for l in open(os.path.join(C.REPO, 'dists/ignore', mf), errors='replace'):
            l = l.split('#')[0].strip()
            if l and '/' not in l and l not in bare:
                bare.append(l)
    for i, n in enumerate(bare[:4]):
        q = os.path.join(build, n)
        if os.path.lexists(q):
            continue
        if i % 2:
            os.makedirs(q)
        else:
            open(q, 'w').write('stale\n')
        j.append(n)
    ro = os.path.join(build, 'apparmor.d/zz-readonly'); open(ro, 'w').write('ro\n'); os.chmod(ro, 0o444)
    os.symlink('../zz-stale-profile', os.path.join(build, 'apparmor.d/disable/zz-stale-profile'))
    os.symlink('/nonexistent', os.path.join(build, 'apparmor.d/zz-dangling'))
    os.symlink('../flatpak', os.path.join(build, 'apparmor.d/disable/flatpak-stale'))
    return j


# ----------------------------------------------------------------------------------------------
# workers

_W = {}


def _winit(src_snapshot, cas, binaries):
    wdir = os.path.join(os.path.dirname(cas), 'w.%d' % os.getpid())
    shutil.rmtree(wdir, ignore_errors=True)
    os.makedirs(wdir)
    for d in SRC_DIRS:
        shutil.copytree(os.path.join(src_snapshot, d), os.path.join(wdir, d), symlinks=True)
    _W.update(dir=wdir, cas=cas, bins=binaries, snap=src_snapshot)


def _reset_src(wdir, snap):
    # prebuild rewrites debian/apparmor.d.hide in the *source* tree: put the pristine one back
    for n in ('apparmor.d.hide',):
        s = os.path.join(snap, 'debian', n); d = os.path.join(wdir, 'debian', n)
        if os.path.exists(s):
            shutil.copyfile(s, d)
        elif os.path.exists(d):
            os.unlink(d)


def _job(job):
    """job = dict(cfg, prior, env, bin, keep) -> dict(rc, out, tree, hide)"""
    wdir, cas = _W['dir'], _W['cas']
    build = os.path.join(wdir, '.build')
    subprocess.run(['chmod', '-R', 'u+rwX', build], stderr=subprocess.DEVNULL)
    shutil.rmtree(build, ignore_errors=True)
    _reset_src(wdir, _W['snap'])
    prior = job.get('prior')
    rootjunk = []
    if prior == 'junk':
        os.makedirs(build)
        rootjunk = [n for n in plant_junk(build) if '/' not in n]
    elif isinstance(prior, dict):       # a Merkle map
        materialise(prior, cas, build)
    res_steps = []
    rc = 0; out = b''
    for cfg, env_extra in job['steps']:
        _reset_src(wdir, _W['snap'])
        env = dict(os.environ, DISTRIBUTION=cfg.dist, LC_ALL='C', GOMAXPROCS='1')
        env.pop('VERIF_MAPX', None)
        env.update(env_extra or {})
        r = subprocess.run([_W['bins'][job.get('bin', 'inst')]] + args_of(cfg), cwd=wdir, env=env,
                           stdout=subprocess.PIPE, stderr=subprocess.STDOUT)
        rc = r.returncode; out = r.stdout
        if rc:
            break
    # entries planted in the ROOT of the build directory are not output of any run (prebuild only ever writes
    # apparmor.d/, share/ and systemd/ there): whether they are still lying around is not compared, what they did to
    # the three output directories is
    for n in rootjunk:
        q = os.path.join(build, n)
        if os.path.isdir(q) and not os.path.islink(q):
            shutil.rmtree(q, ignore_errors=True)
        elif os.path.lexists(q):
            os.unlink(q)
    tree = merkle(build, cas) if os.path.isdir(build) else {}
    hide = None
    hp = os.path.join(wdir, 'debian/apparmor.d.hide')
    if os.path.exists(hp):
        hide = C.sha(open(hp, 'rb').read())
    return {'rc': rc, 'out': out.decode(errors='replace'), 'tree': tree, 'hide': hide}


class Explorer:
    """builds both binaries from the current tree, snapshots the source dirs, runs build jobs on
    a process pool; every job is a sequence of prebuild runs from a prior state."""

    _n = 0

    def __init__(self, jobs=None, extra_src=None):
        """extra_src: {path relative to the source root: text} written into the harness' *snapshot* of the source
        tree (never into the repository): generated profiles that go through the real pipeline next to the shipped ones"""
        Explorer._n += 1
        self.root = os.path.join(C.scratch(), 'cfgx%d' % Explorer._n)
        os.makedirs(self.root, exist_ok=True)
        self.cas = os.path.join(self.root, 'cas'); os.makedirs(self.cas, exist_ok=True)
        self.snap = os.path.join(self.root, 'src')
        for d in SRC_DIRS:
            shutil.copytree(os.path.join(C.REPO, d), os.path.join(self.snap, d), symlinks=True)
        for rel, txt in (extra_src or {}).items():
            q = os.path.join(self.snap, rel)
            os.makedirs(os.path.dirname(q), exist_ok=True)
            open(q, 'w').write(txt)
        plain, inst = overlay.build_prebuild(os.path.join(self.root, 'bin'))
        self.bins = {'plain': plain, 'inst': inst}
        self.pool = ProcessPoolExecutor(jobs or C.NPROC, initializer=_winit,
                                        initargs=(self.snap, self.cas, self.bins))
        self.runs = 0

    def run_jobs(self, jobs):
        jobs = list(jobs)
        self.runs += sum(len(j['steps']) for j in jobs)
        return list(self.pool.map(_job, jobs, chunksize=1))

    def build_all(self, cfgs, prior=None, env=None, binary='inst'):
        """one clean (or prior-state) build per configuration under the default map schedule"""
        env = dict(env or {})
        if binary == 'inst':
            env.setdefault('VERIF_MAPX', '-')
        res = self.run_jobs({'steps': [(c, env)], 'prior': prior, 'bin': binary} for c in cfgs)
        out = {}
        for c, r in zip(cfgs, res):
            if r['rc'] != 0:
                raise BuildFailed(c, r['out'])
            out[c] = r['tree']
        return out

    def text(self, e):
        return text(self.cas, e)

    def close(self):
        self.pool.shutdown()


class BuildFailed(Exception):
    def __init__(self, cfg, out):
        super().__init__('prebuild failed for %s:\n%s' % (tag(cfg), out[-1500:]))
        self.cfg = cfg; self.out = out


def aa_files(tree):
    """top-level regular files of .build/apparmor.d (the profiles)"""
    return sorted(k[len('apparmor.d/'):] for k, e in tree.items()
                  if k.startswith('apparmor.d/') and '/' not in k[len('apparmor.d/'):] and e[0] == 'f')


def subtree(tree, prefix):
    prefix = prefix.rstrip('/') + '/'
    return {k[len(prefix):]: e for k, e in tree.items() if k.startswith(prefix)}
