"""The reference oracle: apparmor_parser 3.0.8 over an overlay directory = upstream /etc/apparmor.d
(+ the stand-ins DESIGN.md §2 lists for ABI 4 / version 4.1) with a build output copied on top."""
import os, re, shutil, subprocess
from . import common as C, cfgx

AA4_KINDS = ('userns', 'mqueue', 'io_uring', 'all')
AA4_RE = re.compile(r'^(\s*)((?:(?:audit|allow|deny)\s+)*)(userns|mqueue|io_uring|all)\b(.*)$')
UPSTREAMED_41 = ['abstractions/devices-usb-read', 'abstractions/devices-usb', 'abstractions/nameservice-strict',
                 'tunables/multiarch.d/base']
INC_RE = re.compile(r'^\s*#?include\s+(if\s+exists\s+)?(?:<([^>]+)>|"([^"]+)"|(\S+))')


def set_aside_aa4(text):
    """comment out rules whose kind only exists in AppArmor 4 (harness tokenizer, not repo code)"""
    out = []; cont = False; n = 0
    for line in text.split('\n'):
        if cont:
            out.append('#[set aside]' + line)
            code = line.split(' #', 1)[0].rstrip()
            cont = not code.endswith(',')
            continue
        if line.lstrip().startswith('#'):
            out.append(line); continue
        m = AA4_RE.match(line)
        if m and (m.group(4) == '' or m.group(4)[0] in ' ,\t('):
            out.append(m.group(1) + '#[set aside] ' + line.strip())
            n += 1
            code = line.split(' #', 1)[0].rstrip()
            cont = not code.endswith(',')
        else:
            out.append(line)
    return '\n'.join(out), n


def make_base(base, tree, cas, cfg, src_root=None):
    """overlay dir for one build tree; returns number of rules set aside"""
    src_root = src_root or os.path.join(C.REPO, 'apparmor.d')
    shutil.copytree(C.UPSTREAM, base, symlinks=True)
    sub = cfgx.subtree(tree, 'apparmor.d')
    aside = 0
    for rel in sorted(sub):
        e = sub[rel]; p = os.path.join(base, rel)
        if e[0] == 'd':
            os.makedirs(p, exist_ok=True)
    for rel in sorted(sub):
        e = sub[rel]; p = os.path.join(base, rel)
        if e[0] == 'f':
            os.makedirs(os.path.dirname(p), exist_ok=True)
            if os.path.lexists(p):
                os.unlink(p)
            if cfg.abi == 4:
                t = cfgx.text(cas, e)
                if any(k in t for k in AA4_KINDS):
                    t2, n = set_aside_aa4(t)
                    aside += n
                    with open(p, 'w', errors='surrogateescape') as f:
                        f.write(t2)
                    continue
            os.link(os.path.join(cas, e[1]), p)
        elif e[0] == 'l':
            if os.path.lexists(p):
                os.unlink(p)
            os.symlink(e[1], p)
    if not os.path.exists(os.path.join(base, 'abi/4.0')):
        shutil.copyfile(os.path.join(base, 'abi/3.0'), os.path.join(base, 'abi/4.0'))
    if cfg.ver == '4.1':
        for n in UPSTREAMED_41:
            if not os.path.exists(os.path.join(base, n)):
                t = open(os.path.join(src_root, n)).read()
                if cfg.abi == 3:
                    t = t.replace('abi/4.0', 'abi/3.0')
                open(os.path.join(base, n), 'w').write(t)
    return aside


def parse(base, path, mode='-d', extra=()):
    """-> (ok, first error line, stdout bytes)"""
    r = subprocess.run([C.PARSER, '-Q', '-K', '--policy-features', C.FEATURES, '--kernel-features', C.FEATURES, '-b', base, mode, *extra, path],
                       cwd=base, capture_output=True)
    if r.returncode == 0:
        return True, '', r.stdout
    err = [l for l in r.stderr.decode(errors='replace').split('\n') if l.strip() and 'Cache read' not in l and not l.startswith('Warning')]
    return False, (err[0] if err else 'exit %d' % r.returncode).replace(base + '/', ''), r.stdout


def closure(base, relfile, cache):
    """include closure of a file inside base (harness include walker): set of relative paths"""
    seen = set(); todo = [relfile]
    while todo:
        f = todo.pop()
        if f in seen:
            continue
        seen.add(f)
        if f not in cache:
            incs = []
            p = os.path.join(base, f)
            try:
                for line in open(p, errors='replace'):
                    m = INC_RE.match(line)
                    if not m:
                        continue
                    t = m.group(2) or m.group(3) or m.group(4)
                    t = t.rstrip(',')
                    tp = t if not t.startswith('/') else os.path.relpath(t, '/etc/apparmor.d')
                    q = os.path.join(base, tp)
                    if os.path.isdir(q):
                        for d, dn, fn in os.walk(q):
                            for x in sorted(fn):
                                incs.append(os.path.relpath(os.path.join(d, x), base))
                    elif os.path.exists(q):
                        incs.append(os.path.normpath(tp))
                    elif not m.group(1):
                        incs.append('?missing:' + tp)
            except OSError:
                pass
            cache[f] = incs
        for i in cache[f]:
            if not i.startswith('?') and i not in seen:
                todo.append(i)
            elif i.startswith('?'):
                seen.add(i)
    return seen
