// c09x: rule text round-trips through the printer and the parser -- bounded-exhaustive on the real
// String()/ParseRules/Parse/Format.  Modes: rules (every rule of U(kind) x comment variants), blocks (all
// short lists of a mixed universe after Merge+Sort+Format), files (preamble sequences x header variants).
package main

import (
	"encoding/json"
	"flag"
	"fmt"
	"os"
	"reflect"
	"regexp"
	"sort"
	"strings"
	_ "unsafe"

	"github.com/roddhjav/apparmor.d/pkg/aa"
	"verifx/enum"
	"verifx/universe"
)

//go:linkname mapHook runtime.verifMapIterHook
var mapHook func(count int, B uint8, fn string) uintptr

type viol struct {
	Sig   string   `json:"sig"`
	What  string   `json:"what"`
	Input []string `json:"input"`
	Count int      `json:"count"`
}

var viols = map[string]*viol{}

func report(sig, what string, input ...string) {
	if v, ok := viols[sig]; ok {
		v.Count++
		return
	}
	viols[sig] = &viol{sig, what, input, 1}
}

func parseBlock(text string) (aa.Rules, string) {
	var rs aa.Rules
	perr := ""
	func() {
		defer func() {
			if p := recover(); p != nil {
				perr = "panic: " + fmt.Sprint(p)
			}
		}()
		if !strings.HasSuffix(text, "\n") {
			text += "\n"
		}
		pr, _, err := aa.ParseRules(text + "\n")
		if err != nil {
			perr = err.Error()
			return
		}
		rs = pr.Flatten()
	}()
	return rs, perr
}

// squash: runs of blanks collapsed, leading blanks dropped (formatting is layout only; an explicit `allow`
// qualifier is never printed but reserves padding, so exact layout may differ after a round trip)
func squash(s string) string {
	lines := strings.Split(s, "\n")
	for i, l := range lines {
		lines[i] = strings.Join(strings.Fields(l), " ")
	}
	return strings.Join(lines, "\n")
}

var bareRule = regexp.MustCompile(`^((audit|deny|allow) )*[a-z_]+ ?,( #.*)?$`)

func nonNil(rs aa.Rules) aa.Rules {
	out := aa.Rules{}
	for _, r := range rs {
		if r != nil {
			out = append(out, r)
		}
	}
	return out
}

func diffNames(a, b string) string {
	// a, b are universe.Fields strings: " Name=value" items
	pa, pb := strings.Split(a, " "), strings.Split(b, " ")
	set := map[string]bool{}
	ma := map[string]string{}
	for _, x := range pa[1:] {
		k := strings.SplitN(x, "=", 2)[0]
		ma[k] = x
	}
	for _, x := range pb[1:] {
		k := strings.SplitN(x, "=", 2)[0]
		if ma[k] != x {
			set[k] = true
		}
		delete(ma, k)
	}
	for k := range ma {
		set[k] = true
	}
	if pa[0] != pb[0] {
		set["kind"] = true
	}
	l := []string{}
	for k := range set {
		l = append(l, k)
	}
	sort.Strings(l)
	return strings.Join(l, "+")
}

var bases = []aa.Base{{}, {Comment: " a comment"}, {FileInherit: true}, {NoNewPrivs: true}, {Optional: true, Comment: " because"}, {Comment: " with, comma"},
	{Comment: " see (bug 12"}, {Comment: " was @{HOME} and \"quoted\""}, {Comment: " see @{etc_ro}"}}

func setBase(r aa.Rule, b aa.Base) bool {
	switch r := r.(type) {
	case *aa.File:
		r.Base = b
	case *aa.Link:
		r.Base = b
	case *aa.Capability:
		r.Base = b
	case *aa.Network:
		r.Base = b
	case *aa.Mount:
		r.Base = b
	case *aa.Remount:
		r.Base = b
	case *aa.Umount:
		r.Base = b
	case *aa.PivotRoot:
		r.Base = b
	case *aa.ChangeProfile:
		r.Base = b
	case *aa.Signal:
		r.Base = b
	case *aa.Ptrace:
		r.Base = b
	case *aa.Unix:
		r.Base = b
	case *aa.Dbus:
		r.Base = b
	case *aa.Rlimit:
		r.Base = b
	case *aa.Userns:
		r.Base = b
	case *aa.Mqueue:
		r.Base = b
	case *aa.IOUring:
		r.Base = b
	case *aa.All:
		r.Base = b
	case *aa.Include:
		r.Base = b
	default:
		return false
	}
	return true
}

func isBareFile(r aa.Rule) bool {
	f, ok := r.(*aa.File)
	return ok && f.Path == "" && len(f.Access) == 0
}

func rulesMode(kind string, tier int) int {
	n := 0
	for ri, r0 := range universe.Of(kind, tier) {
		if isBareFile(r0) {
			// judged once, on its own: whatever surrounds it would only repeat the same finding
			n++
			if text := r0.String(); !strings.Contains(text, "file") {
				report("bare-file-rule-printed-without-keyword", fmt.Sprintf("the bare file rule (every file access) is printed as %q: neither the library nor AppArmor reads that back", text), text)
			} else if l, perr := parseBlock(text); perr != "" || len(l) != 1 || universe.Fields(l[0], true) != universe.Fields(r0, true) {
				report("bare-file-rule-round-trip", fmt.Sprintf("the bare file rule printed as %q does not parse back to itself", text), text)
			}
			continue
		}
		for bi, b := range bases {
			r := universe.Clone(r0)
			if bi > 0 {
				if tier == universe.Quick && bi > 1 && (ri+bi)%4 != 0 {
					continue // quick tier: every comment variant on every fourth rule, shifted by the variant's index
				}
				if !setBase(r, b) {
					continue
				}
			}
			n++
			text := r.String()
			want := universe.Fields(r, true)
			rs, perr := parseBlock("  " + text)
			rs = nonNil(rs)
			bt := "plain"
			if bi > 0 {
				bt = []string{"", "comment", "file_inherit", "no-new-privs", "optional", "comment-with-comma", "comment-open-paren", "comment-var-quote", "comment-closing-brace"}[bi]
			}
			switch {
			case perr != "":
				report("rule-not-parsed kind="+kind+" base="+bt+" err="+strings.SplitN(perr, ":", 2)[0], "the printed rule does not parse back: "+perr, text)
			case len(rs) != 1:
				report(fmt.Sprintf("rule-count kind=%s base=%s got=%d", kind, bt, len(rs)), fmt.Sprintf("one printed rule parses back to %d rules", len(rs)), text)
			default:
				got := universe.Fields(rs[0], true)
				if got != want && bareRule.MatchString(squash(text)) && universe.Fields(rs[0], false) == universe.Fields(r, false) {
					report("comment-of-bare-rule-lost", "a rule that consists of its keyword only loses its trailing comment / markers when parsed back ("+got+" instead of "+want+")", text)
				} else if got != want {
					report("rule-fields kind="+kind+" base="+bt+" fields="+diffNames(want, got), "parsed back with different fields: "+got+" instead of "+want, text)
				} else if again := rs[0].String(); again != text {
					report("rule-reprint kind="+kind+" base="+bt, "printing the parsed rule gives `"+again+"`", text)
				}
			}
		}
	}
	return n
}

func blocksMode(tier, shard, of int) int {
	per := 2
	maxL := 2
	if tier == universe.Thorough {
		per = 3
	}
	U := universe.Mixed(tier, per)
	// give some rules comments so that paddings and comments meet
	for i, r := range U {
		if i%4 == 1 {
			setBase(r, aa.Base{Comment: " c"})
		}
		if i%4 == 3 {
			setBase(r, aa.Base{Comment: []string{" see (bug 12", " 1) needed", " was @{HOME", " foo[0-9", " a, b", " x # y"}[(i/4)%6]})
		}
	}
	n := 0
	one := func(seq []int) {
		l := make(aa.Rules, len(seq))
		for i, x := range seq {
			l[i] = universe.Clone(U[x])
		}
		n++
		var text string
		var formatted aa.Rules
		perr := ""
		func() {
			defer func() {
				if p := recover(); p != nil {
					perr = fmt.Sprint(p)
				}
			}()
			formatted = l.Merge().Sort().Format()
			text = formatted.String()
		}()
		in := []string{}
		for _, x := range seq {
			in = append(in, U[x].String())
		}
		if perr != "" {
			report("block-format-panics", "Merge+Sort+Format+String panics: "+perr, in...)
			return
		}
		rs, e := parseBlock(text)
		if e != "" {
			sig := "block-not-parsed err=" + strings.SplitN(e, ":", 2)[0]
			if strings.Contains(e, "Unbalanced block") {
				for _, l := range strings.Split(text, "\n") {
					t := strings.TrimSpace(l)
					if i := strings.Index(t, "#"); strings.HasPrefix(t, "include") && i > 0 && strings.ContainsAny(t[i:], ")]}") {
						sig += " cause=closing-bracket-in-the-comment-of-an-include-line"
						break
					}
				}
			}
			report(sig, "the formatted block does not parse back: "+e+" -- text: "+text, in...)
			return
		}
		a, b := nonNil(formatted), nonNil(rs)
		if len(a) != len(b) {
			report(fmt.Sprintf("block-count want=%d got=%d", len(a), len(b)), "the formatted block parses back to a different number of rules -- text: "+text, in...)
			return
		}
		lostBare := false
		for i := range a {
			fa, fb := universe.Fields(a[i], true), universe.Fields(b[i], true)
			if fa != fb && bareRule.MatchString(squash(a[i].String())) && universe.Fields(a[i], false) == universe.Fields(b[i], false) {
				report("comment-of-bare-rule-lost", "a rule that consists of its keyword only loses its trailing comment / markers when parsed back ("+fb+" instead of "+fa+")", a[i].String())
				lostBare = true
				continue
			}
			if fa != fb {
				report("block-fields kind="+string(a[i].Kind())+" fields="+diffNames(fa, fb), "rule "+fa+" of a formatted block parses back as "+fb+" -- text: "+text, in...)
				return
			}
		}
		again := ""
		func() {
			defer func() {
				if p := recover(); p != nil {
					again = "panic: " + fmt.Sprint(p)
				}
			}()
			again = rs.Format().String()
		}()
		if squash(again) != squash(text) && !lostBare {
			report("block-reprint", "formatting and printing the parsed block gives a different text: "+again+" -- instead of: "+text, in...)
		}
	}
	for L := 1; L <= maxL; L++ {
		enum.Tuples(len(U), L, shard, of, one)
	}
	// all ordered pairs of file rules on two paths (merged access lists, transitions, qualifiers, owner)
	fu := []aa.Rule{}
	for _, r := range universe.Of("file", tier) {
		if f := r.(*aa.File); (f.Path == "/a" || f.Path == "@{bin}/c") && f.Comment == "" {
			fu = append(fu, r)
		}
	}
	savedU := U
	U = fu
	enum.Tuples(len(U), 2, shard, of, one)
	U = savedU
	// all ordered pairs inside every group of same-kind rules that agree on their non-mergeable fields
	// (merged access lists, signal sets, capability names must come back the way they were printed)
	for _, kind := range universe.AllKinds {
		KU := []aa.Rule{}
		for _, r := range universe.Of(kind, tier) {
			if !isBareFile(r) {
				KU = append(KU, r)
			}
		}
		groups := map[string][]int{}
		order := []string{}
		for i, r := range KU {
			c := universe.Clone(r)
			v := reflect.ValueOf(c).Elem()
			for _, f := range []string{"Access", "Set", "Names"} {
				if fv := v.FieldByName(f); fv.IsValid() && fv.CanSet() {
					fv.Set(reflect.Zero(fv.Type()))
				}
			}
			k := universe.Fields(c, false)
			if _, ok := groups[k]; !ok {
				order = append(order, k)
			}
			groups[k] = append(groups[k], i)
		}
		ng := 0
		for gi, k := range order {
			g := groups[k]
			if len(g) < 2 || gi%of != shard {
				continue
			}
			ng++
			if ng > 40 && tier == universe.Quick {
				break
			}
			U = KU
			for _, a := range g {
				for _, b := range g {
					one([]int{a, b})
				}
			}
		}
	}
	U = savedU
	// triples over one rule per kind
	U1 := universe.Mixed(tier, 1)
	saved := U
	U = U1
	enum.Tuples(len(U), 3, shard, of, one)
	U = saved
	return n
}

type item struct {
	text string
	rule func() aa.Rule
}

func filesMode(tier, shard, of int) int {
	items := []item{
		{"# a comment", func() aa.Rule { return &aa.Comment{Base: aa.Base{IsLineRule: true, Comment: " a comment"}} }},
		{"abi <abi/4.0>,", func() aa.Rule { return &aa.Abi{IsMagic: true, Path: "abi/4.0"} }},
		{"alias /usr/ -> /mnt/usr/,", func() aa.Rule { return &aa.Alias{Path: "/usr/", RewrittenPath: "/mnt/usr/"} }},
		{"include <tunables/global>", func() aa.Rule { return &aa.Include{IsMagic: true, Path: "tunables/global"} }},
		{`include "/etc/apparmor.d/x"`, func() aa.Rule { return &aa.Include{Path: "/etc/apparmor.d/x"} }},
		{"include if exists <local/x>", func() aa.Rule { return &aa.Include{IsMagic: true, IfExists: true, Path: "local/x"} }},
		{"@{exec_path} = @{bin}/x", func() aa.Rule { return &aa.Variable{Name: "exec_path", Define: true, Values: []string{"@{bin}/x"}} }},
		{"@{exec_path} += @{lib}/x /opt/x", func() aa.Rule {
			return &aa.Variable{Name: "exec_path", Define: false, Values: []string{"@{lib}/x", "/opt/x"}}
		}},
		{"#", func() aa.Rule { return &aa.Comment{Base: aa.Base{IsLineRule: true, Comment: ""}} }},
		{"@{gxx} = /usr/include/c++/ /opt/k=v", func() aa.Rule {
			return &aa.Variable{Name: "gxx", Define: true, Values: []string{"/usr/include/c++/", "/opt/k=v"}}
		}},
		{"# second comment", func() aa.Rule { return &aa.Comment{Base: aa.Base{IsLineRule: true, Comment: " second comment"}} }},
		// (fourth hunt) a trailing comment glued to its `#` on a line rule: an inline directive (shipped: packagekitd), one word
		{"include <abstractions/common/apt> #aa:only apt", func() aa.Rule {
			return &aa.Include{Base: aa.Base{Comment: "aa:only apt"}, IsMagic: true, Path: "abstractions/common/apt"}
		}},
		{"@{browsers} += @{tor_path} #aa:only whonix", func() aa.Rule {
			return &aa.Variable{Base: aa.Base{Comment: "aa:only whonix"}, Name: "browsers", Define: false, Values: []string{"@{tor_path}"}}
		}},
		{"include <tunables/none> #todo", func() aa.Rule { return &aa.Include{Base: aa.Base{Comment: "todo"}, IsMagic: true, Path: "tunables/none"} }},
	}
	maxL := 4
	if tier == universe.Thorough {
		maxL = 5
	}
	type hdr struct {
		name  string
		att   []string
		flags []string
		attrs map[string]string
	}
	hdrs := []hdr{}
	for _, att := range [][]string{nil, {"@{exec_path}"}, {"/usr/bin/a", "/usr/bin/b"}} {
		for _, fl := range [][]string{nil, {"complain"}, {"attach_disconnected", "complain"}} {
			for _, at := range []map[string]string{nil, {"user.tag": "x"}, {"user.tag": "x", "security.ima": "y"}} {
				hdrs = append(hdrs, hdr{"foo", att, fl, at})
			}
		}
	}
	// names the policy language allows besides plain words: a path, a variable, a dotted word, a quoted name
	nPlain := len(hdrs)
	for _, name := range []string{"/usr/bin/foo", "@{bin}/foo", "foo-bar.baz", `"foo bar"`, "profile"} {
		for i := 0; i < nPlain; i++ {
			h := hdrs[i]
			h.name = name
			hdrs = append(hdrs, h)
		}
	}
	n := 0
	enum.Perms(len(items), maxL, shard, of, func(seq []int) {
		for hi, h := range hdrs {
			if len(seq) > 3 && hi%5 != 0 || hi >= nPlain && len(seq) > 2 {
				continue
			}
			alts := 1
			if len(h.attrs) > 1 {
				alts = 8 // every start the runtime can choose when the template ranges over the xattrs map
			}
			firstText := ""
			for alt := 0; alt < alts; alt++ {
				f := &aa.AppArmorProfileFile{}
				want := []string{}
				for _, i := range seq {
					r := items[i].rule()
					f.Preamble = append(f.Preamble, r)
					want = append(want, universe.Fields(r, true))
				}
				attrs := map[string]string{}
				for k, v := range h.attrs {
					attrs[k] = v
				}
				f.Profiles = []*aa.Profile{{Header: aa.Header{Name: h.name, Attachments: h.att, Flags: h.flags, Attributes: attrs}}}
				n++
				a := alt
				mapHook = func(count int, B uint8, fn string) uintptr { return uintptr(a) }
				text := f.String()
				g := &aa.AppArmorProfileFile{}
				perr := ""
				func() {
					defer func() {
						if p := recover(); p != nil {
							perr = "panic: " + fmt.Sprint(p)
						}
					}()
					if _, err := g.Parse(text); err != nil {
						perr = err.Error()
					}
				}()
				mapHook = nil
				in := strings.Split(strings.TrimSpace(text), "\n")
				if alt == 0 {
					firstText = text
				} else if text != firstText {
					// "rendering the result again reproduces the same text": also from one rendering to the next
					report("file-text-depends-on-map-order", fmt.Sprintf("the same profile file renders differently under map iteration start %d: %q vs %q", alt, strings.SplitN(text, "{", 2)[0], strings.SplitN(firstText, "{", 2)[0]), in...)
				}
				if perr != "" {
					report("file-not-parsed err="+strings.SplitN(perr, ":", 2)[0], "the rendered profile file does not parse back: "+perr, in...)
					continue
				}
				// comments, includes, variables in original order; abi and alias as a set
				ordered := func(l []string) (o []string, s []string) {
					for _, x := range l {
						if strings.HasPrefix(x, "abi") || strings.HasPrefix(x, "alias") {
							s = append(s, x)
						} else {
							o = append(o, x)
						}
					}
					sort.Strings(s)
					return
				}
				got := []string{}
				for _, r := range g.Preamble {
					if r != nil {
						got = append(got, universe.Fields(r, true))
					}
				}
				wo, ws := ordered(want)
				gotO, gotS := ordered(got)
				if strings.Join(wo, "\n") != strings.Join(gotO, "\n") {
					report("file-preamble-order-or-content", fmt.Sprintf("comments/includes/variables come back as %v instead of %v", gotO, wo), in...)
				}
				if strings.Join(ws, "\n") != strings.Join(gotS, "\n") {
					report("file-preamble-abi-alias", fmt.Sprintf("abi/alias rules come back as %v instead of %v", gotS, ws), in...)
				}
				if len(g.Profiles) != 1 {
					report("file-header-missing", "no profile header parsed back", in...)
					continue
				}
				ph := g.Profiles[0].Header
				if ph.Name != h.name {
					report("file-header-name", "name "+h.name+" parsed back as "+ph.Name, in...)
				}
				if strings.Join(ph.Attachments, " ") != strings.Join(h.att, " ") {
					report("file-header-attachments", fmt.Sprintf("attachments parsed back as %q instead of %q", ph.Attachments, h.att), in...)
				}
				if strings.Join(ph.Flags, ",") != strings.Join(h.flags, ",") {
					report("file-header-flags", fmt.Sprintf("flags parsed back as %q instead of %q", ph.Flags, h.flags), in...)
				}
				if fmt.Sprint(ph.Attributes) != fmt.Sprint(attrs) && !(len(ph.Attributes) == 0 && len(attrs) == 0) {
					report("file-header-xattrs", fmt.Sprintf("xattrs parsed back as %v instead of %v", ph.Attributes, attrs), in...)
				}
			}
		}
	})
	return n
}

func main() {
	mode := flag.String("mode", "rules", "")
	kind := flag.String("kind", "file", "")
	tier := flag.Int("tier", 0, "")
	shard := flag.Int("shard", 0, "")
	of := flag.Int("of", 1, "")
	flag.Parse()
	n := 0
	switch *mode {
	case "rules":
		n = rulesMode(*kind, *tier)
	case "blocks":
		n = blocksMode(*tier, *shard, *of)
	case "files":
		n = filesMode(*tier, *shard, *of)
	}
	vs := []*viol{}
	for _, v := range viols {
		vs = append(vs, v)
	}
	sort.Slice(vs, func(i, j int) bool { return vs[i].Sig < vs[j].Sig })
	json.NewEncoder(os.Stdout).Encode(map[string]any{"mode": *mode, "kind": *kind, "n": n, "violations": vs})
}
