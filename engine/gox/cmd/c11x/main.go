// c11x: Compare is a consistent total preorder and Sort is canonical -- bounded-exhaustive check on the
// real Compare / Rules.Sort. The n x n sign matrix is filled by n^2 calls of the real Compare (the only
// place the implementation is consulted for pairs/triples); all ordered pairs and triples are then checked
// on the matrix with bitsets; all permutations of all k-subsets of a 12-rule universe go through Rules.Sort.
package main

import (
	"encoding/json"
	"flag"
	"fmt"
	"math/bits"
	"reflect"
	"os"
	"sort"
	"strings"

	"github.com/roddhjav/apparmor.d/pkg/aa"
	"verifx/universe"
)

type viol struct {
	Sig   string   `json:"sig"`
	What  string   `json:"what"`
	Input []string `json:"input"`
	Count int      `json:"count"`
}

var viols = map[string]*viol{}

// pairs of different rules that compare equal, to be put into the permutation universe as well
var twins [][2]int

func report(sig, what string, input ...string) {
	if v, ok := viols[sig]; ok {
		v.Count++
		return
	}
	viols[sig] = &viol{sig, what, input, 1}
}

// render: the sorted list as text, one rule per line, comments left out (they are exempt from the order)
func render(rs aa.Rules) string {
	var sb strings.Builder
	for _, r := range rs {
		if r == nil {
			sb.WriteString("<nil>\n")
			continue
		}
		c := universe.Clone(r)
		if b, ok := baseOf(c); ok {
			b.Comment, b.NoNewPrivs, b.FileInherit, b.Optional = "", false, false, false
		}
		sb.WriteString(c.String() + "\n")
	}
	return sb.String()
}

func baseOf(r aa.Rule) (*aa.Base, bool) {
	v := reflect.ValueOf(r).Elem().FieldByName("Base")
	if !v.IsValid() {
		return nil, false
	}
	return v.Addr().Interface().(*aa.Base), true
}

func sign(x int) int8 {
	switch {
	case x < 0:
		return -1
	case x > 0:
		return 1
	}
	return 0
}

func pathOf(r aa.Rule) (string, bool) {
	if f, ok := r.(*aa.File); ok {
		return f.Path, true
	}
	return "", false
}

// why two rules that compare equal differ
func isCommentLine(rs ...aa.Rule) bool {
	for _, r := range rs {
		if _, ok := r.(*aa.Comment); ok {
			return true
		}
	}
	return false
}

// isPreambleKind: abi, alias and variable rules have no weight in the kind order of Rules.Sort either
func isPreambleKind(rs ...aa.Rule) bool {
	for _, r := range rs {
		switch r.(type) {
		case *aa.Abi, *aa.Alias, *aa.Variable:
			return true
		}
	}
	return false
}

func diffCause(a, b aa.Rule) string {
	if isCommentLine(a, b) {
		return "comment-line-in-the-kind-order"
	}
	if isPreambleKind(a, b) {
		return "preamble-kind-without-weight-in-the-kind-order"
	}
	fa, fb := universe.Fields(a, false), universe.Fields(b, false)
	if strings.EqualFold(fa, fb) {
		return "case-fold"
	}
	// differing bytes all outside the documented sort alphabet?
	alpha := "!\"#$%&'*(){}[]@+,-./:;<=>?\\^_`|~0123456789abcdefghijklmnopqrstuvwxyz"
	la, lb := strings.ToLower(fa), strings.ToLower(fb)
	if len(la) == len(lb) {
		only := true
		for i := 0; i < len(la); i++ {
			if la[i] != lb[i] && (strings.IndexByte(alpha, la[i]) > 0 && strings.IndexByte(alpha, lb[i]) > 0) {
				only = false
			}
		}
		if only {
			return "byte-outside-sort-alphabet"
		}
	}
	// name the first differing field
	var ma, mb map[string]any
	ja, _ := json.Marshal(a)
	jb, _ := json.Marshal(b)
	_ = json.Unmarshal(ja, &ma)
	_ = json.Unmarshal(jb, &mb)
	keys := []string{}
	for k := range ma {
		keys = append(keys, k)
	}
	sort.Strings(keys)
	for _, k := range keys {
		if k == "Paddings" || k == "Comment" {
			continue
		}
		if fmt.Sprint(ma[k]) != fmt.Sprint(mb[k]) {
			return "field-ignored:" + k
		}
	}
	return "other"
}

func tripleCause(kind string, a, b, c aa.Rule) string {
	if isCommentLine(a, b, c) {
		return "comment-line-in-the-kind-order"
	}
	if isPreambleKind(a, b, c) {
		return "preamble-kind-without-weight-in-the-kind-order"
	}
	ifx, plain := 0, 0
	for _, r := range []aa.Rule{a, b, c} {
		if inc, ok := r.(*aa.Include); ok {
			if inc.IfExists {
				ifx++
			} else {
				plain++
			}
		}
	}
	if ifx > 0 && plain > 0 && ifx+plain < 3 {
		return "include-and-include-if-exists-with-another-kind"
	}
	for _, p := range [][2]aa.Rule{{a, b}, {b, c}, {a, c}} {
		if p[0].Kind() == p[1].Kind() && p[0].Compare(p[1]) == 0 && universe.Fields(p[0], false) != universe.Fields(p[1], false) {
			return "contains-equal-but-different:" + diffCause(p[0], p[1])
		}
	}
	if kind == "file" {
		known, unknown := 0, 0
		for _, r := range []aa.Rule{a, b, c} {
			p, _ := pathOf(r)
			if universe.HasKnownPrefix(p) {
				known++
			} else {
				unknown++
			}
		}
		if known > 0 && unknown > 0 {
			return "path-without-known-prefix-among-prefixed-paths"
		}
	}
	return "other"
}

type matrix struct {
	n int
	m [][]int8
}

func analyse(kind string, U []aa.Rule, cmp func(i, j int) int8) (pairs, triples int) {
	n := len(U)
	M := make([][]int8, n)
	for i := range M {
		M[i] = make([]int8, n)
		for j := range M[i] {
			M[i][j] = cmp(i, j)
		}
	}
	pairs = n * n
	for i := 0; i < n; i++ {
		if M[i][i] != 0 {
			report("irreflexive kind="+kind, "Compare(a, a) != 0", U[i].String())
		}
		for j := i + 1; j < n; j++ {
			if M[i][j] != -M[j][i] {
				report("antisymmetry kind="+kind, fmt.Sprintf("sign(Compare(a,b)) = %d but sign(Compare(b,a)) = %d", M[i][j], M[j][i]), U[i].String(), U[j].String())
			}
			if M[i][j] == 0 && universe.Fields(U[i], false) != universe.Fields(U[j], false) {
				report("equal-but-different kind="+kind+" cause="+diffCause(U[i], U[j]), "two different rules compare equal", U[i].String(), U[j].String())
				if len(twins) < 2 {
					twins = append(twins, [2]int{i, j})
				}
			}
		}
	}
	// transitivity: a<=b and b<=c  =>  a<=c ; LE[x] = {k : M[x][k] <= 0}
	w := (n + 63) / 64
	LE := make([][]uint64, n)
	for i := range LE {
		LE[i] = make([]uint64, w)
		for k := 0; k < n; k++ {
			if M[i][k] <= 0 {
				LE[i][k/64] |= 1 << (k % 64)
			}
		}
	}
	triples = n * n * n
	known := make([]bool, n)
	KN := make([]uint64, w)
	for i, r := range U {
		if p, ok := pathOf(r); ok && universe.HasKnownPrefix(p) {
			known[i] = true
			KN[i/64] |= 1 << (i % 64)
		}
	}
	count := func(sig string, c int, i, j, k int) {
		if c == 0 {
			return
		}
		if v, ok := viols[sig]; ok {
			v.Count += c
			return
		}
		viols[sig] = &viol{sig, "a <= b and b <= c but a > c", []string{U[i].String(), U[j].String(), U[k].String()}, c}
	}
	mixedSig := "intransitive kind=" + kind + " cause=path-without-known-prefix-among-prefixed-paths"
	for i := 0; i < n; i++ {
		for j := 0; j < n; j++ {
			if M[i][j] > 0 {
				continue
			}
			for x := 0; x < w; x++ {
				bad := LE[j][x] &^ LE[i][x]
				if bad == 0 {
					continue
				}
				if kind == "file" {
					var same uint64 // k in the same prefix class as both i and j: not explained by the mixture
					if known[i] == known[j] {
						if known[i] {
							same = bad & KN[x]
						} else {
							same = bad &^ KN[x]
						}
					}
					mixed := bad &^ same
					if mixed != 0 {
						count(mixedSig, bits.OnesCount64(mixed), i, j, x*64+bits.TrailingZeros64(mixed))
					}
					bad = same
				}
				for bad != 0 {
					k := x*64 + bits.TrailingZeros64(bad)
					count("intransitive kind="+kind+" cause="+tripleCause(kind, U[i], U[j], U[k]), 1, i, j, k)
					bad &= bad - 1
				}
			}
		}
	}
	return
}

func subsetCause(kind string, sub []aa.Rule) string {
	if isCommentLine(sub...) {
		return "comment-line-in-the-kind-order"
	}
	if isPreambleKind(sub...) {
		return "preamble-kind-without-weight-in-the-kind-order"
	}
	for i := range sub {
		for j := range sub {
			if i < j && sub[i].Kind() == sub[j].Kind() && sub[i].Compare(sub[j]) == 0 && universe.Fields(sub[i], false) != universe.Fields(sub[j], false) {
				return "contains-equal-but-different:" + diffCause(sub[i], sub[j])
			}
		}
	}
	le := func(a, b aa.Rule) bool { return a.Kind() == b.Kind() && a.Compare(b) <= 0 }
	for _, a := range sub {
		for _, b := range sub {
			for _, c := range sub {
				if le(a, b) && le(b, c) && a.Kind() == c.Kind() && a.Compare(c) > 0 {
					return "contains-intransitive-triple:" + tripleCause(kind, a, b, c)
				}
			}
		}
	}
	return "other"
}

func permutations(n int, f func(p []int)) {
	p := make([]int, n)
	for i := range p {
		p[i] = i
	}
	var rec func(k int)
	rec = func(k int) {
		if k == n {
			f(p)
			return
		}
		for i := k; i < n; i++ {
			p[k], p[i] = p[i], p[k]
			rec(k + 1)
			p[k], p[i] = p[i], p[k]
		}
	}
	rec(0)
}

func subsets(n, k int, f func(idx []int)) {
	idx := make([]int, 0, k)
	var rec func(start int)
	rec = func(start int) {
		if len(idx) == k {
			f(idx)
			return
		}
		for i := start; i < n; i++ {
			idx = append(idx, i)
			rec(i + 1)
			idx = idx[:len(idx)-1]
		}
	}
	rec(0)
}

func sortCheck(kind string, U []aa.Rule, maxK int) (lists int) {
	for k := 2; k <= maxK; k++ {
		subsets(len(U), k, func(idx []int) {
			sub := make([]aa.Rule, k)
			for i, x := range idx {
				sub[i] = U[x]
			}
			canon := ""
			bad := false
			permutations(k, func(p []int) {
				l := make(aa.Rules, k)
				for i, x := range p {
					l[i] = universe.Clone(sub[x])
				}
				lists++
				s := l.Sort()
				txt := render(s)
				if canon == "" {
					canon = txt
					if again := render(s.Sort()); again != txt {
						report("sort-not-idempotent kind="+kind, "Sort(Sort(l)) != Sort(l)", strings.Split(strings.TrimSpace(txt), "\n")...)
					}
				} else if txt != canon && !bad {
					bad = true
					report("sort-order-dependent kind="+kind+" cause="+subsetCause(kind, sub), "the same rules supplied in two orders sort to different texts",
						append(strings.Split(strings.TrimSpace(canon), "\n"), append([]string{"-- versus --"}, strings.Split(strings.TrimSpace(txt), "\n")...)...)...)
				}
			})
		})
	}
	return
}

func spread(U []aa.Rule, n int) []aa.Rule {
	if len(U) <= n {
		return U
	}
	out := []aa.Rule{}
	for i := 0; i < n; i++ {
		out = append(out, U[i*len(U)/n])
	}
	return out
}

func main() {
	kind := flag.String("kind", "file", "rule kind or 'mixed'")
	tier := flag.Int("tier", 0, "")
	flag.Parse()
	res := map[string]any{"kind": *kind}
	maxK := 4
	if *tier == universe.Thorough {
		maxK = 5
	}
	if *kind == "twins" {
		// (third hunt) pairs that print differently and that no Compare tells apart: the same rule with and without a
		// trailing comment or marker; two blocks of one name. Each pair: Compare in both directions, Sort in both orders.
		type pair struct {
			kind, cause string
			a, b        aa.Rule
		}
		f := func(c string, fi bool) aa.Rule {
			return &aa.File{Base: aa.Base{Comment: c, FileInherit: fi}, Path: "/etc/foo.conf", Access: []string{"r"}}
		}
		pairs := []pair{
			{"file", "trailing-comment-or-marker-not-compared", f("", false), f(" needed by the loader", false)},
			{"file", "trailing-comment-or-marker-not-compared", f("", false), f("", true)},
			{"capability", "trailing-comment-or-marker-not-compared", &aa.Capability{Names: []string{"chown"}}, &aa.Capability{Base: aa.Base{Comment: " why"}, Names: []string{"chown"}}},
			{"profile", "block-compared-by-its-name-only",
				&aa.Profile{Header: aa.Header{Name: "child", Flags: []string{"complain"}}, Rules: aa.Rules{&aa.Capability{Names: []string{"chown"}}}},
				&aa.Profile{Header: aa.Header{Name: "child", Attributes: map[string]string{"security.tag": "x"}}, Rules: aa.Rules{&aa.File{Path: "/etc/foo.conf", Access: []string{"r"}}}}},
			{"hat", "block-compared-by-its-name-only",
				&aa.Hat{Name: "h", Rules: aa.Rules{&aa.Capability{Names: []string{"chown"}}}},
				&aa.Hat{Name: "h", Rules: aa.Rules{&aa.File{Path: "/etc/foo.conf", Access: []string{"r"}}}}},
		}
		n := 0
		for _, p := range pairs {
			n += 4
			if p.a.String() == p.b.String() {
				continue
			}
			if p.a.Compare(p.b) == 0 && p.b.Compare(p.a) == 0 {
				report("equal-but-different kind="+p.kind+" cause="+p.cause, "two rules that print differently compare equal", p.a.String(), p.b.String())
			}
			ab := aa.Rules{p.a, p.b}.Sort().String()
			ba := aa.Rules{p.b, p.a}.Sort().String()
			if ab != ba {
				report("sort-order-dependent kind="+p.kind+" cause=contains-equal-but-different:"+p.cause, "the same rules supplied in two orders sort to different texts", p.a.String(), p.b.String())
			}
		}
		res["n"], res["pairs"], res["triples"], res["lists"] = 2*len(pairs), n/2, 0, n/2
	} else if *kind == "mixed" {
		U := universe.MixedWithPreamble(*tier, 3)
		// the comparator of Rules.Sort is not exported: read its sign off two-element sorts
		cmp := func(i, j int) int8 {
			if i == j {
				return 0
			}
			a, b := universe.Clone(U[i]), universe.Clone(U[j])
			ab := aa.Rules{a, b}.Sort()
			c, d := universe.Clone(U[i]), universe.Clone(U[j])
			ba := aa.Rules{d, c}.Sort()
			keptAB := ab[0] == a
			keptBA := ba[0] == d
			switch {
			case keptAB && keptBA:
				return 0
			case keptAB && !keptBA:
				return -1
			case !keptAB && keptBA:
				return 1
			}
			return 2 // both orders swapped: contradictory
		}
		p, t := analyse("mixed", U, cmp)
		sub := spread(U, 11)
		lists := sortCheck("mixed", sub, maxK)
		res["n"], res["pairs"], res["triples"], res["lists"] = len(U), p, t, lists
		res["sample"] = []string{U[0].String(), U[len(U)/2].String(), U[len(U)-1].String()}
	} else {
		U := universe.Of(*kind, *tier)
		cmp := func(i, j int) int8 { return sign(U[i].Compare(U[j])) }
		p, t := analyse(*kind, U, cmp)
		sub := spread(U, 12)
		// make sure near-duplicates are in the permutation universe too
		if len(twins) > 0 {
			sub = append([]aa.Rule{}, spread(U, 12-2*len(twins))...)
			for _, t := range twins {
				sub = append(sub, U[t[0]], U[t[1]])
			}
		}
		lists := sortCheck(*kind, sub, maxK)
		res["n"], res["pairs"], res["triples"], res["lists"] = len(U), p, t, lists
		if len(U) > 0 {
			res["sample"] = []string{U[0].String(), U[len(U)/2].String(), U[len(U)-1].String()}
		}
	}
	vs := []*viol{}
	for _, v := range viols {
		vs = append(vs, v)
	}
	sort.Slice(vs, func(i, j int) bool { return vs[i].Sig < vs[j].Sig })
	res["violations"] = vs
	json.NewEncoder(os.Stdout).Encode(res)
}
