// c13x: bounded-exhaustive exploration of preambles for aa.Parse + Resolve against a naive reference
// expander. Modes:
//   -dump   print one JSON line per sequence with the reference verdict (for conformance with apparmor_parser)
//   default run the real code on every sequence and print a JSON summary with violations
package main

import (
	"encoding/json"
	"flag"
	"fmt"
	"os"
	"runtime/debug"
	"sort"
	"strings"

	"github.com/roddhjav/apparmor.d/pkg/aa"
	"verifx/enum"
)

var alphabet = []string{
	"# a comment",
	"abi <abi/3.0>,",
	"include if exists <tunables/none.d>",
	"alias /usr/ -> /mnt/usr/,",
	"@{a} = /x /y",
	"@{b} = @{a}/1 @{a}//2",
	"@{a} += /z",
	"@{b} += /w",
	"@{exec_path} = @{b}/bin",
	"@{exec_path} += /opt/q",
	"@{exec_path} = /bin/e @{a}/e",
	"@{exec_path} = @{a}/e@{b}",
	"@{exec_path} = /o/@{a}/@{a}",
	"@{ab} = /p /q",
	"@{a} = @{ab}/k",
	"@{s} = @{s}/x",
	"@{u} = @{undef}",
	"@{a} = /second",
}

type refResult struct {
	Class  string              // ok | dup | undef | self | append-before-def (excluded)
	All    []string            // every error class present
	Values map[string][]string // expanded, // collapsed, sorted sets
}

func splitVar(line string) (name, op string, vals []string, ok bool) {
	if !strings.HasPrefix(line, "@{") {
		return
	}
	f := strings.Fields(line)
	name = strings.TrimSuffix(strings.TrimPrefix(f[0], "@{"), "}")
	return name, f[1], f[2:], true
}

// reference: fold += into the definition, substitute recursively, all combinations.
func reference(lines []string) refResult {
	decl := map[string][]string{}
	order := []string{}
	for _, l := range lines {
		name, op, vals, ok := splitVar(l)
		if !ok {
			continue
		}
		if op == "=" {
			if _, dup := decl[name]; dup {
				return refResult{Class: "dup", All: []string{"dup"}}
			}
			decl[name] = append([]string{}, vals...)
			order = append(order, name)
		} else {
			if _, have := decl[name]; !have {
				return refResult{Class: "append-before-def", All: []string{"append-before-def"}}
			}
			decl[name] = append(decl[name], vals...)
		}
	}
	class := "ok"
	all := map[string]bool{}
	var expand func(v string, stack []string) []string
	expand = func(v string, stack []string) []string {
		i := strings.Index(v, "@{")
		if i < 0 {
			return []string{v}
		}
		j := strings.Index(v[i:], "}") + i
		ref := v[i+2 : j]
		for _, s := range stack {
			if s == ref {
				class = "self"
				all["self"] = true
				return nil
			}
		}
		vals, ok := decl[ref]
		if !ok {
			if class == "ok" {
				class = "undef"
			}
			all["undef"] = true
			return nil
		}
		out := []string{}
		for _, x := range vals {
			for _, y := range expand(x, append(stack, ref)) {
				out = append(out, expand(v[:i]+y+v[j+1:], stack)...)
			}
		}
		return out
	}
	res := map[string][]string{}
	for _, name := range order {
		set := map[string]bool{}
		for _, v := range decl[name] {
			for _, e := range expand(v, []string{name}) {
				for strings.Contains(e, "//") {
					e = strings.ReplaceAll(e, "//", "/")
				}
				set[e] = true
			}
		}
		l := []string{}
		for k := range set {
			l = append(l, k)
		}
		sort.Strings(l)
		res[name] = l
	}
	if _, ok := decl["exec_path"]; !ok {
		all["undef"] = true // the attachment references @{exec_path}
		if class == "ok" {
			class = "undef"
		}
	}
	allList := []string{}
	for k := range all {
		allList = append(allList, k)
	}
	sort.Strings(allList)
	return refResult{Class: class, Values: res, All: allList}
}

type violation struct {
	Sig   string   `json:"sig"`
	What  string   `json:"what"`
	Input []string `json:"input"`
}

func setOf(l []string) []string {
	m := map[string]bool{}
	for _, x := range l {
		for strings.Contains(x, "//") {
			x = strings.ReplaceAll(x, "//", "/")
		}
		m[x] = true
	}
	out := []string{}
	for k := range m {
		out = append(out, k)
	}
	sort.Strings(out)
	return out
}

func eq(a, b []string) bool {
	if len(a) != len(b) {
		return false
	}
	for i := range a {
		if a[i] != b[i] {
			return false
		}
	}
	return true
}

func nonVar(rs aa.Rules) []string {
	out := []string{}
	for _, r := range rs {
		if r == nil || r.Kind() == aa.VARIABLE {
			continue
		}
		out = append(out, string(r.Kind())+"|"+strings.TrimSpace(r.String()))
	}
	return out
}

// tunablesAlphabet: lines of files that are resolved on top of the built-in table (aa.DefaultTunables), the way the
// userspace builder and the exec directive do it; some append to a built-in variable
var tunablesAlphabet = []string{
	"@{exec_path} = @{lib}/t",
	"@{exec_path} = @{bin}/t",
	"@{exec_path} += @{lib}/u",
	"@{lib} += /opt/lib",
	"@{bin} += /opt/bin",
	"@{exec_path} = @{etc_ro}/t @{bin}/v",
	"@{etc_ro} += /opt/etc",
}

// resolveOnTunables: the real code, as builder.Userspace calls it
func resolveOnTunables(lines []string) (vals []string, err string) {
	defer func() {
		if p := recover(); p != nil {
			err = "panic: " + fmt.Sprint(p)
		}
	}()
	f := aa.DefaultTunables()
	if _, e := f.Parse(strings.Join(lines, "\n") + "\nprofile p @{exec_path} {\n}\n"); e != nil {
		return nil, "parse: " + e.Error()
	}
	if e := f.Resolve(); e != nil {
		return nil, "resolve: " + e.Error()
	}
	if len(f.Profiles) == 0 {
		return nil, "no profile"
	}
	return setOf(f.Profiles[0].Attachments), ""
}

// tunablesMode: every sequence of <= depth files (each file = a sequence of <= 3 distinct alphabet lines the reference
// accepts) resolved one after the other in this process: the k-th result must be the reference expansion of
// (built-in table as it was at process start + the file's own lines), whatever was resolved before it.
func tunablesMode(depth int, w *json.Encoder) {
	table := []string{}
	for _, v := range aa.DefaultTunables().Preamble.GetVariables() {
		table = append(table, "@{"+v.Name+"} = "+strings.Join(v.Values, " "))
	}
	type file struct {
		lines []string
		want  []string
	}
	files := []file{}
	enum.Perms(len(tunablesAlphabet), 3, 0, 1, func(seq []int) {
		l := []string{}
		for _, i := range seq {
			l = append(l, tunablesAlphabet[i])
		}
		ref := reference(append(append([]string{}, table...), l...))
		if ref.Class != "ok" {
			return
		}
		files = append(files, file{l, ref.Values["exec_path"]})
	})
	viol := map[string]*violation{}
	count := map[string]int{}
	n := 0
	idx := make([]int, depth)
	var rec func(k int)
	rec = func(k int) {
		if k > 0 {
			// replay the whole history: earlier files first, then judge the last one
			n++
			hist := []string{}
			var got []string
			var err string
			for j := 0; j < k; j++ {
				got, err = resolveOnTunables(files[idx[j]].lines)
				hist = append(hist, strings.Join(files[idx[j]].lines, " ; "))
			}
			f := files[idx[k-1]]
			sig := ""
			what := ""
			switch {
			case err != "":
				sig, what = "tunables-resolve-fails", "Resolve on the built-in table fails: "+err
			case !eq(got, f.want):
				sig = "tunables-history-dependent"
				if k == 1 {
					sig = "tunables-wrong-values"
				}
				what = fmt.Sprintf("file %d of the in-process history resolves its attachment to %v, the reference expansion over the built-in table is %v", k, got, f.want)
			}
			if sig != "" {
				count[sig]++
				if _, ok := viol[sig]; !ok {
					viol[sig] = &violation{sig, what, hist}
				}
			}
		}
		if k == depth {
			return
		}
		for i := range files {
			idx[k] = i
			rec(k + 1)
		}
	}
	rec(0)
	vs := []violation{}
	for _, v := range viol {
		v.What = fmt.Sprintf("%s (x%d)", v.What, count[v.Sig])
		vs = append(vs, *v)
	}
	sort.Slice(vs, func(i, j int) bool { return vs[i].Sig < vs[j].Sig })
	w.Encode(map[string]any{"sequences": n, "files": len(files), "violations": vs, "alphabet": tunablesAlphabet, "table": table})
}

// extrasAlphabet: spellings the main alphabet leaves out -- quoted values (the quotes delimit a value, they are not part of
// it), a value that is a label and holds //, trailing comments on non-variable lines (also with a bracket), a comment line
// whose text also ends an earlier line, the empty comment. Every sequence is judged by apparmor_parser itself (python side).
var extrasAlphabet = []string{
	`@{q} = "/o p" /r`,
	`@{q} += "/s t"`,
	`@{exec_path} = @{q}/e`,
	`@{exec_path} = "/x y/@{q}"`,
	`@{n} = "Foo Bar" foo`,
	`@{exec_path} = /opt/@{n}/@{q}`,
	`@{l} = sys//&unc`,
	`@{m} = @{l} other`,
	`alias /opt/ -> /mnt/opt/, # a comment`,
	`# a comment`,
	`#`,
	`abi <abi/3.0>, # needed`,
	`include if exists <tunables/none.d> # a) note`,
	`@{exec_path} = /bin/e`,
}

func extrasMode(maxLen int, w *json.Encoder) {
	lines := make([]string, 0, 8)
	enum.Perms(len(extrasAlphabet), maxLen, 0, 1, func(seq []int) {
		lines = lines[:0]
		kinds := map[string]int{}
		for _, i := range seq {
			l := extrasAlphabet[i]
			lines = append(lines, l)
			switch {
			case strings.HasPrefix(l, "#"):
				kinds["comment"]++
			case strings.HasPrefix(l, "abi"):
				kinds["abi"]++
			case strings.HasPrefix(l, "include"):
				kinds["include"]++
			case strings.HasPrefix(l, "alias"):
				kinds["alias"]++
			}
		}
		out := map[string]any{"lines": append([]string{}, lines...), "kinds": kinds}
		func() {
			defer func() {
				if p := recover(); p != nil {
					out["panic"] = fmt.Sprint(p)
				}
			}()
			f := aa.NewAppArmorProfile()
			if _, e := f.Parse(strings.Join(lines, "\n") + "\nprofile p @{exec_path} {\n}\n"); e != nil {
				out["perr"] = e.Error()
				return
			}
			before := nonVar(f.Preamble)
			out["before"] = before
			if e := f.Resolve(); e != nil {
				out["rerr"] = e.Error()
				return
			}
			out["after"] = nonVar(f.Preamble)
			vars := map[string][]string{}
			for _, v := range f.Preamble.GetVariables() {
				vars[v.Name] = append(vars[v.Name], v.Values...)
			}
			out["vars"] = vars
			if len(f.Profiles) > 0 {
				out["att"] = f.Profiles[0].Attachments
				out["header"] = f.Profiles[0].GetAttachments()
			}
		}()
		w.Encode(out)
	})
}

// cycleLayouts: the cycle alone; a variable outside the cycle that points into it and stands first (a search that shares its
// visited marks between starting points misses the cycle); a cycle that only an append closes, outsider first
var cycleLayouts = [][]string{
	{"@{p} = @{q}/1", "@{q} = @{p}/2"},
	{"@{o} = @{p}/0", "@{p} = @{q}/1", "@{q} = @{p}/2"},
	{"@{o} = @{q}/0", "@{p} = /x", "@{q} = @{p}/2", "@{p} += @{q}/3"},
}

func main() {
	maxLen := flag.Int("len", 4, "max number of preamble lines")
	shard := flag.Int("shard", 0, "")
	of := flag.Int("of", 1, "")
	dump := flag.Bool("dump", false, "")
	tun := flag.Int("tunables", 0, "history depth of the built-in-table mode (0 = off)")
	probe := flag.Bool("probe-cycle", false, "resolve a two-variable cycle with a small stack limit and say what happened")
	layout := flag.Int("layout", 0, "which cycle layout the probe resolves")
	cycles := flag.Bool("cycles", false, "extend the alphabet by a two-variable cycle (only when the probe says Resolve survives it)")
	extras := flag.Bool("extras", false, "dump what the real code makes of every sequence over the extras alphabet")
	flag.Parse()
	// the library prints diagnostics ("Unknown rule: ...") on stdout: keep the result stream clean
	realOut := os.Stdout
	if null, e := os.OpenFile(os.DevNull, os.O_WRONLY, 0); e == nil {
		os.Stdout = null
	}
	w := json.NewEncoder(realOut)
	if *extras {
		extrasMode(*maxLen, w)
		return
	}
	if *probe {
		// an unbounded mutual expansion must end in an error; a Go stack overflow is fatal (not recoverable), so this
		// runs in its own process with a small stack limit and the parent reads the exit status
		debug.SetMaxStack(2 << 20)
		f := aa.NewAppArmorProfile()
		_, perr := f.Parse(strings.Join(cycleLayouts[*layout], "\n") + "\n@{exec_path} = /bin/e\nprofile p @{exec_path} {\n}\n")
		if perr != nil {
			fmt.Fprintln(realOut, "parse-error: "+perr.Error())
			return
		}
		if rerr := f.Resolve(); rerr != nil {
			fmt.Fprintln(realOut, "error: "+rerr.Error())
		} else {
			fmt.Fprintln(realOut, "no-error")
		}
		return
	}
	if *cycles {
		alphabet = append(alphabet, "@{p} = @{q}/1", "@{q} = @{p}/2", "@{o} = @{p}/0")
	}
	if *tun > 0 {
		tunablesMode(*tun, w)
		return
	}
	classes := map[string]int{}
	viol := map[string]*violation{}
	violCount := map[string]int{}
	n := 0
	report := func(sig, what string, lines []string) {
		violCount[sig]++
		if _, ok := viol[sig]; !ok {
			viol[sig] = &violation{sig, what, append([]string{}, lines...)}
		}
	}
	lines := make([]string, 0, 8)
	enum.Perms(len(alphabet), *maxLen, *shard, *of, func(seq []int) {
		lines = lines[:0]
		kinds := map[string]int{}
		for _, i := range seq {
			lines = append(lines, alphabet[i])
			switch {
			case strings.HasPrefix(alphabet[i], "#"):
				kinds["comment"]++
			case strings.HasPrefix(alphabet[i], "abi"):
				kinds["abi"]++
			case strings.HasPrefix(alphabet[i], "include"):
				kinds["include"]++
			case strings.HasPrefix(alphabet[i], "alias"):
				kinds["alias"]++
			}
		}
		n++
		ref := reference(lines)
		classes[ref.Class]++
		text := strings.Join(lines, "\n") + "\nprofile p @{exec_path} {\n}\n"
		if *dump {
			w.Encode(map[string]any{"lines": lines, "class": ref.Class, "values": ref.Values, "all": ref.All})
			return
		}
		if ref.Class == "append-before-def" {
			return // the reference parser rejects the layout for another reason: not judged
		}
		var perr, rerr error
		var before, after []string
		var vars map[string][]string
		var att []string
		panicked := ""
		func() {
			defer func() {
				if p := recover(); p != nil {
					panicked = fmt.Sprint(p)
				}
			}()
			f := aa.NewAppArmorProfile()
			_, perr = f.Parse(text)
			if perr != nil {
				return
			}
			before = nonVar(f.Preamble)
			rerr = f.Resolve()
			if rerr != nil {
				return
			}
			after = nonVar(f.Preamble)
			vars = map[string][]string{}
			for _, v := range f.Preamble.GetVariables() {
				vars[v.Name] = append(vars[v.Name], v.Values...)
			}
			if len(f.Profiles) > 0 {
				att = f.Profiles[0].Attachments
			}
		}()
		switch {
		case panicked != "":
			report("panic class="+ref.Class, "Parse+Resolve panics: "+panicked, lines)
		case perr != nil:
			report("parse-error", "Parse fails on a well-formed preamble: "+perr.Error(), lines)
		case ref.Class != "ok":
			if rerr == nil {
				report("missing-error class="+ref.Class, "Resolve returns no error for a preamble with class "+ref.Class, lines)
			}
		case rerr != nil:
			report("spurious-error", "Resolve fails on a valid preamble: "+rerr.Error(), lines)
		default:
			for name, want := range ref.Values {
				if got := setOf(vars[name]); !eq(got, want) {
					report("wrong-values var="+name, fmt.Sprintf("@{%s} resolves to %v, reference expansion is %v", name, got, want), lines)
				}
			}
			for name := range vars {
				if _, ok := ref.Values[name]; !ok {
					report("extra-variable", "variable "+name+" appears after Resolve", lines)
				}
			}
			if got := setOf(att); !eq(got, ref.Values["exec_path"]) {
				report("wrong-attachment", fmt.Sprintf("attachment resolves to %v, reference expansion of @{exec_path} is %v", got, ref.Values["exec_path"]), lines)
			}
			if !eq(before, after) {
				report("preamble-rule-lost-or-altered", fmt.Sprintf("non-variable preamble rules before Resolve %v, after %v", before, after), lines)
			}
			cnt := map[string]int{}
			for _, r := range before {
				cnt[strings.SplitN(r, "|", 2)[0]]++
			}
			for k, c := range kinds {
				if cnt[k] != c {
					report("preamble-rule-not-parsed kind="+k, fmt.Sprintf("input has %d %s line(s), parsed preamble has %d", c, k, cnt[k]), lines)
				}
			}
		}
	})
	if *dump {
		return
	}
	vs := []violation{}
	for _, v := range viol {
		v.What = fmt.Sprintf("%s (x%d)", v.What, violCount[v.Sig])
		vs = append(vs, *v)
	}
	sort.Slice(vs, func(i, j int) bool { return vs[i].Sig < vs[j].Sig })
	w.Encode(map[string]any{"sequences": n, "classes": classes, "violations": vs, "alphabet": alphabet})
}
