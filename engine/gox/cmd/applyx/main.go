// applyx: run real prebuild builders / directives on texts given as JSON lines on stdin.
// One process = one history of operations (package-level state is carried between lines on purpose).
// The distribution and family are the repo's own (DISTRIBUTION env, getDistribution/getFamily).
package main

import (
	"bufio"
	"encoding/json"
	"fmt"
	"os"
	"strings"

	"github.com/roddhjav/apparmor.d/pkg/aa"
	"github.com/roddhjav/apparmor.d/pkg/paths"
	"github.com/roddhjav/apparmor.d/pkg/prebuild"
	"github.com/roddhjav/apparmor.d/pkg/prebuild/builder"
	"github.com/roddhjav/apparmor.d/pkg/prebuild/directive"
)

type req struct {
	Op      string  `json:"op"`   // "builder:<name>", "directive", "builders+directive"
	Text    string  `json:"text"`
	File    string  `json:"file"` // path relative to .build/apparmor.d
	ABI     int     `json:"abi"`
	Version float64 `json:"version"`
	Root    string  `json:"root"` // optional: chdir here first (a prepared build tree's parent)
}

type resp struct {
	Out     string `json:"out"`
	Err     string `json:"err,omitempty"`
	Panic   string `json:"panic,omitempty"`
	Globals string `json:"globals"`
	Dist    string `json:"dist"`
	Family  string `json:"family"`
}

func apply(r req) (out string, err error) {
	if r.ABI != 0 {
		prebuild.ABI = r.ABI
	}
	if r.Version != 0 {
		prebuild.Version = r.Version
	}
	name := r.File
	if name == "" {
		name = "p"
	}
	file := prebuild.RootApparmord.Join(name)
	switch {
	case strings.HasPrefix(r.Op, "builder:"):
		b, ok := builder.Builders[strings.TrimPrefix(r.Op, "builder:")]
		if !ok {
			return "", fmt.Errorf("unknown builder %s", r.Op)
		}
		return b.Apply(builder.NewOption(file), r.Text)
	case r.Op == "directive":
		return directive.Run(file, r.Text)
	case r.Op == "tunables":
		// the built-in variable table the builders resolve against, as preamble text
		out := ""
		for _, v := range aa.DefaultTunables().Preamble.GetVariables() {
			out += "@{" + v.Name + "} = " + strings.Join(v.Values, " ") + "\n"
		}
		return out, nil
	}
	return "", fmt.Errorf("unknown op %s", r.Op)
}

func main() {
	_ = paths.New
	sc := bufio.NewScanner(os.Stdin)
	sc.Buffer(make([]byte, 1<<20), 1<<28)
	w := bufio.NewWriter(os.Stdout)
	defer w.Flush()
	for sc.Scan() {
		var r req
		if err := json.Unmarshal(sc.Bytes(), &r); err != nil {
			fmt.Fprintln(os.Stderr, "bad request:", err)
			os.Exit(2)
		}
		if r.Root != "" {
			if err := os.Chdir(r.Root); err != nil {
				fmt.Fprintln(os.Stderr, "chdir:", err)
				os.Exit(2)
			}
		}
		var res resp
		func() {
			defer func() {
				if p := recover(); p != nil {
					res.Panic = fmt.Sprint(p)
				}
			}()
			out, err := apply(r)
			res.Out = out
			if err != nil {
				res.Err = err.Error()
			}
		}()
		res.Globals = directive.VerifGlobals() + "|" + aa.VerifGlobals()
		res.Dist, res.Family = prebuild.Distribution, prebuild.Family
		b, _ := json.Marshal(res)
		w.Write(b)
		w.WriteByte('\n')
	}
}
