// c12x: prints, for every rule of the AppArmor-3 universes, the text the library renders and the text an
// independent reference printer renders for the same struct (one canonical spelling per field, straight
// from apparmor.d(5), no padding). The Python side compiles both with the reference parser and compares
// the policies (DFA product equivalence).  Modes: rules | blocks
package main

import (
	"encoding/json"
	"flag"
	"os"
	"strings"

	"github.com/roddhjav/apparmor.d/pkg/aa"
	"verifx/universe"
)

func qual(q aa.Qualifier) string {
	s := ""
	if q.Audit {
		s += "audit "
	}
	switch q.AccessType {
	case "deny":
		s += "deny "
	case "allow":
		s += "allow "
	}
	return s
}

func list(l []string) string {
	return "(" + strings.Join(l, ", ") + ")"
}

func opt(prefix, v string) string {
	if v == "" {
		return ""
	}
	return " " + prefix + v
}

func optl(prefix string, l []string) string {
	if len(l) == 0 {
		return ""
	}
	return " " + prefix + list(l)
}

// reference printer
func ref(r aa.Rule) string {
	switch r := r.(type) {
	case *aa.File:
		o := ""
		if r.Owner {
			o = "owner "
		}
		if r.Path == "" && len(r.Access) == 0 {
			return qual(r.Qualifier) + o + "file," // apparmor.d(5): the bare file rule
		}
		return qual(r.Qualifier) + o + r.Path + " " + strings.Join(r.Access, "") + opt("-> ", r.Target) + ","
	case *aa.Link:
		o, s := "", ""
		if r.Owner {
			o = "owner "
		}
		if r.Subset {
			s = "subset "
		}
		return qual(r.Qualifier) + o + "link " + s + r.Path + " -> " + r.Target + ","
	case *aa.Capability:
		return qual(r.Qualifier) + "capability" + opt("", strings.Join(r.Names, " ")) + ","
	case *aa.Network:
		t := r.Type
		if t == "" {
			t = r.Protocol
		}
		return qual(r.Qualifier) + "network" + opt("", r.Domain) + opt("", t) + ","
	case *aa.Mount:
		return qual(r.Qualifier) + "mount" + opt("fstype=", r.FsType) + optl("options=", r.Options) + opt("", r.Source) + opt("-> ", r.MountPoint) + ","
	case *aa.Remount:
		return qual(r.Qualifier) + "remount" + opt("fstype=", r.FsType) + optl("options=", r.Options) + opt("", r.MountPoint) + ","
	case *aa.Umount:
		return qual(r.Qualifier) + "umount" + opt("fstype=", r.FsType) + optl("options=", r.Options) + opt("", r.MountPoint) + ","
	case *aa.PivotRoot:
		return qual(r.Qualifier) + "pivot_root" + opt("oldroot=", r.OldRoot) + opt("", r.NewRoot) + opt("-> ", r.TargetProfile) + ","
	case *aa.ChangeProfile:
		return qual(r.Qualifier) + "change_profile" + opt("", r.ExecMode) + opt("", r.Exec) + opt("-> ", r.ProfileName) + ","
	case *aa.Signal:
		return qual(r.Qualifier) + "signal" + optl("", r.Access) + optl("set=", r.Set) + opt("peer=", r.Peer) + ","
	case *aa.Ptrace:
		return qual(r.Qualifier) + "ptrace" + optl("", r.Access) + opt("peer=", r.Peer) + ","
	case *aa.Unix:
		peer := ""
		switch {
		case r.PeerLabel != "" && r.PeerAddr != "":
			peer = " peer=(label=" + r.PeerLabel + ", addr=" + r.PeerAddr + ")"
		case r.PeerLabel != "":
			peer = " peer=(label=" + r.PeerLabel + ")"
		case r.PeerAddr != "":
			peer = " peer=(addr=" + r.PeerAddr + ")"
		}
		return qual(r.Qualifier) + "unix" + optl("", r.Access) + opt("type=", r.Type) + opt("protocol=", r.Protocol) + opt("addr=", r.Address) +
			opt("label=", r.Label) + opt("attr=", r.Attr) + opt("opt=", r.Opt) + peer + ","
	case *aa.Dbus:
		if len(r.Access) > 0 && r.Access[0] == "bind" {
			return qual(r.Qualifier) + "dbus" + optl("", r.Access) + opt("bus=", r.Bus) + opt("name=", r.Name) + ","
		}
		peer := ""
		switch {
		case r.PeerName != "" && r.PeerLabel != "":
			peer = " peer=(name=" + r.PeerName + ", label=" + r.PeerLabel + ")"
		case r.PeerName != "":
			peer = " peer=(name=" + r.PeerName + ")"
		case r.PeerLabel != "":
			peer = " peer=(label=" + r.PeerLabel + ")"
		}
		return qual(r.Qualifier) + "dbus" + optl("", r.Access) + opt("bus=", r.Bus) + opt("name=", r.Name) + opt("path=", r.Path) + opt("interface=", r.Interface) + opt("member=", r.Member) + peer + ","
	case *aa.Rlimit:
		return "set rlimit " + r.Key + " " + r.Op + " " + r.Value + ","
	}
	return ""
}

var aa3 = []string{"file", "link", "capability", "network", "mount", "remount", "umount", "pivot_root", "change_profile", "signal", "ptrace", "unix", "dbus", "rlimit"}

func main() {
	mode := flag.String("mode", "rules", "")
	tier := flag.Int("tier", 0, "")
	flag.Parse()
	w := json.NewEncoder(os.Stdout)
	switch *mode {
	case "rules":
		for _, k := range aa3 {
			for _, r := range universe.Of(k, *tier) {
				if rl, ok := r.(*aa.Rlimit); ok && rl.Op != "<=" {
					continue // AppArmor only has <=
				}
				w.Encode(map[string]any{"kind": k, "lib": r.String(), "ref": ref(r), "fields": universe.Fields(r, false)})
			}
		}
	case "blocks":
		// every ordered pair of a mixed universe, merged + sorted + formatted by the library
		var U []aa.Rule
		for _, k := range aa3 {
			u := universe.Of(k, *tier)
			for i := 0; i < 3 && i < len(u); i++ {
				U = append(U, u[i*len(u)/3])
			}
		}
		for _, a := range U {
			for _, b := range U {
				l := aa.Rules{universe.Clone(a), universe.Clone(b)}
				text := l.Merge().Sort().Format().String()
				refs := []string{ref(a), ref(b)}
				w.Encode(map[string]any{"kind": "block", "lib": text, "ref": strings.Join(refs, "\n"), "fields": universe.Fields(a, false) + " ; " + universe.Fields(b, false)})
			}
		}
	}
}
