// c10x: Rules.Merge preserves meaning -- bounded-exhaustive check of the real Merge against an
// independent denotation: [[list]] = union of facts(rule), fact = (qualifier, subject, one permission).
// Fields AppArmor reads conjunctively (mount options=(...), exec mode with its target) are atomic.
package main

import (
	"encoding/json"
	"flag"
	"fmt"
	"os"
	"reflect"
	"sort"
	"strings"

	"github.com/roddhjav/apparmor.d/pkg/aa"
	"verifx/universe"
)

func q(x aa.Qualifier) string {
	s := ""
	if x.Audit {
		s += "audit "
	}
	if x.AccessType == "deny" {
		s += "deny"
	}
	return s
}

func perms(a []string) []string {
	if len(a) == 0 {
		return []string{"*"} // no access list: every permission of the kind
	}
	return a
}

// facts: independent denotation of one rule.
func facts(r aa.Rule) []string {
	out := []string{}
	add := func(subject string, ps []string) {
		for _, p := range ps {
			out = append(out, string(r.Kind())+"|"+subject+"|"+p)
		}
	}
	switch r := r.(type) {
	case *aa.File:
		for _, a := range perms(r.Access) {
			if strings.HasSuffix(a, "x") {
				add(fmt.Sprintf("%s|owner=%v|%s", q(r.Qualifier), r.Owner, r.Path), []string{a + "->" + r.Target})
			} else {
				add(fmt.Sprintf("%s|owner=%v|%s", q(r.Qualifier), r.Owner, r.Path), []string{a})
			}
		}
	case *aa.Link:
		add(fmt.Sprintf("%s|owner=%v|subset=%v|%s->%s", q(r.Qualifier), r.Owner, r.Subset, r.Path, r.Target), []string{"l"})
	case *aa.Capability:
		add(q(r.Qualifier), perms(r.Names))
	case *aa.Network:
		add(fmt.Sprintf("%s|%s|%s|%s", q(r.Qualifier), r.Domain, r.Type, r.Protocol), []string{"net"})
	case *aa.Mount:
		o := append([]string{}, r.Options...)
		sort.Strings(o)
		add(fmt.Sprintf("%s|fs=%s|opt=%v|%s->%s", q(r.Qualifier), r.FsType, o, r.Source, r.MountPoint), []string{"mount"})
	case *aa.Remount:
		o := append([]string{}, r.Options...)
		sort.Strings(o)
		add(fmt.Sprintf("%s|fs=%s|opt=%v|%s", q(r.Qualifier), r.FsType, o, r.MountPoint), []string{"remount"})
	case *aa.Umount:
		o := append([]string{}, r.Options...)
		sort.Strings(o)
		add(fmt.Sprintf("%s|fs=%s|opt=%v|%s", q(r.Qualifier), r.FsType, o, r.MountPoint), []string{"umount"})
	case *aa.PivotRoot:
		add(fmt.Sprintf("%s|%s|%s|%s", q(r.Qualifier), r.OldRoot, r.NewRoot, r.TargetProfile), []string{"pivot"})
	case *aa.ChangeProfile:
		add(fmt.Sprintf("%s|%s|%s|%s", q(r.Qualifier), r.ExecMode, r.Exec, r.ProfileName), []string{"cp"})
	case *aa.Signal:
		acc := []string{}
		for _, a := range r.Access { // apparmor.d(5): r/read = receive, w/write = send, rw = both
			switch a {
			case "r", "read":
				acc = append(acc, "receive")
			case "w", "write":
				acc = append(acc, "send")
			case "rw":
				acc = append(acc, "send", "receive")
			default:
				acc = append(acc, a)
			}
		}
		if len(acc) == 0 {
			acc = []string{"send", "receive"} // all the permissions a signal rule has
		}
		for _, s := range perms(r.Set) {
			add(fmt.Sprintf("%s|peer=%s|sig=%s", q(r.Qualifier), r.Peer, s), acc)
		}
	case *aa.Ptrace:
		add(fmt.Sprintf("%s|peer=%s", q(r.Qualifier), r.Peer), perms(r.Access))
	case *aa.Unix:
		add(fmt.Sprintf("%s|%s|%s|%s|%s|%s|%s|%s|%s", q(r.Qualifier), r.Type, r.Protocol, r.Address, r.Label, r.Attr, r.Opt, r.PeerLabel, r.PeerAddr), perms(r.Access))
	case *aa.Dbus:
		add(fmt.Sprintf("%s|%s|%s|%s|%s|%s|%s|%s", q(r.Qualifier), r.Bus, r.Name, r.Path, r.Interface, r.Member, r.PeerName, r.PeerLabel), perms(r.Access))
	case *aa.Rlimit:
		add(fmt.Sprintf("%s|%s|%s", r.Key, r.Op, r.Value), []string{"rlimit"})
	case *aa.Userns:
		add(fmt.Sprintf("%s|create=%v", q(r.Qualifier), r.Create), []string{"userns"})
	case *aa.Mqueue:
		add(fmt.Sprintf("%s|%s|%s|%s", q(r.Qualifier), r.Type, r.Label, r.Name), perms(r.Access))
	case *aa.IOUring:
		add(fmt.Sprintf("%s|%s", q(r.Qualifier), r.Label), perms(r.Access))
	case *aa.All:
		add("", []string{"all"})
	case *aa.Include:
		add(fmt.Sprintf("%v|%v|%s", r.IsMagic, r.IfExists, r.Path), []string{"include"})
	default:
		add(universe.Fields(r, false), []string{"?"})
	}
	return out
}

// denote: the set of facts of a list, with facts subsumed by a wildcard fact of the same subject removed
// ("signal," covers "signal send,"). A fact is kind|subject...|permission; signal facts carry the signal
// in the subject as sig=<s>, which may be the wildcard too.
func denote(rs aa.Rules) []string {
	set := map[string]bool{}
	for _, r := range rs {
		if r == nil {
			continue
		}
		for _, f := range facts(r) {
			set[f] = true
		}
	}
	subsumed := func(f string) bool {
		i := strings.LastIndex(f, "|")
		subj, perm := f[:i], f[i+1:]
		cands := []string{}
		if perm != "*" {
			cands = append(cands, subj+"|*")
		}
		if j := strings.Index(subj, "|sig="); j >= 0 && !strings.HasSuffix(subj, "|sig=*") {
			wild := subj[:j] + "|sig=*"
			cands = append(cands, wild+"|"+perm)
			if perm != "*" {
				cands = append(cands, wild+"|*")
			}
		}
		for _, c := range cands {
			if set[c] {
				return true
			}
		}
		return false
	}
	out := make([]string, 0, len(set))
	for k := range set {
		if !subsumed(k) {
			out = append(out, k)
		}
	}
	sort.Strings(out)
	return out
}

func fieldsOf(rs aa.Rules) []string {
	out := []string{}
	for _, r := range rs {
		out = append(out, universe.Fields(r, false))
	}
	return out
}

func eq(a, b []string) bool {
	if len(a) != len(b) {
		return false
	}
	for i := range a {
		if a[i] != b[i] {
			return false
		}
	}
	return true
}

func diffFields(a, b aa.Rule) string {
	var ma, mb map[string]any
	ja, _ := json.Marshal(a)
	jb, _ := json.Marshal(b)
	_ = json.Unmarshal(ja, &ma)
	_ = json.Unmarshal(jb, &mb)
	d := []string{}
	for k := range ma {
		if k == "Paddings" || k == "Comment" {
			continue
		}
		va, vb := fmt.Sprint(ma[k]), fmt.Sprint(mb[k])
		if va != vb {
			tag := k
			if strings.EqualFold(va, vb) {
				tag += "(case)"
			} else if va == "[]" || vb == "[]" || va == "<nil>" || vb == "<nil>" {
				tag += "(one side unset)"
			}
			d = append(d, tag)
		}
	}
	sort.Strings(d)
	if len(d) == 0 {
		return "identical"
	}
	return strings.Join(d, "+")
}

type viol struct {
	Sig   string   `json:"sig"`
	What  string   `json:"what"`
	Input []string `json:"input"`
	Count int      `json:"count"`
}

var viols = map[string]*viol{}

var fieldCache = map[aa.Rule]string{}

// pairs on which Merge actually did something, with the model's verdict (for conformance with the reference parser)
type touched struct {
	In   []string `json:"in"`
	Out  []string `json:"out"`
	Same bool     `json:"same"`
}

var touchedPairs []touched
var collect bool

func report(sig, what string, input []string) {
	if v, ok := viols[sig]; ok {
		v.Count++
		return
	}
	viols[sig] = &viol{sig, what, input, 1}
}

func texts(rs []aa.Rule) []string {
	out := []string{}
	for _, r := range rs {
		if r == nil {
			continue
		}
		out = append(out, r.String())
	}
	return out
}

// check one list; returns whether it violated (used to report triples only when no sub-pair explains them)
func check(kind string, l []aa.Rule, quiet bool) bool {
	var merged aa.Rules
	panicked := ""
	func() {
		defer func() {
			if p := recover(); p != nil {
				panicked = fmt.Sprint(p)
			}
		}()
		merged = universe.CloneAll(l).Merge()
	}()
	if panicked == "" && len(merged) == len(l) {
		// nothing was deleted: the list must be untouched
		same := true
		for i := range l {
			if merged[i] == nil || universe.Fields(merged[i], false) != fieldCache[l[i]] {
				same = false
			}
		}
		if same {
			return false
		}
	}
	cause := "list-of-" + fmt.Sprint(len(l))
	if len(l) == 2 {
		cause = "differ-in:" + diffFields(l[0], l[1])
	}
	if panicked != "" {
		if !quiet {
			report("merge-panics kind="+kind, "Merge panics: "+panicked, texts(l))
		}
		return true
	}
	got := denote(merged)
	want := denote(aa.Rules(l))
	bad := false
	if collect && len(l) == 2 {
		touchedPairs = append(touchedPairs, touched{texts(l), texts(merged), eq(got, want)})
	}
	if !eq(got, want) {
		bad = true
		if !quiet {
			lost, added := []string{}, []string{}
			gs, ws := map[string]bool{}, map[string]bool{}
			for _, g := range got {
				gs[g] = true
			}
			for _, w := range want {
				ws[w] = true
				if !gs[w] {
					lost = append(lost, w)
				}
			}
			for _, g := range got {
				if !ws[g] {
					added = append(added, g)
				}
			}
			kindOfChange := "lost"
			if len(lost) == 0 {
				kindOfChange = "widened"
			} else if len(added) > 0 {
				kindOfChange = "lost+widened"
			}
			report("meaning-changed kind="+kind+" change="+kindOfChange+" cause="+cause,
				fmt.Sprintf("Merge changes the facts of the list: lost %v, added %v; merged to %v", lost, added, texts(merged)), texts(l))
		}
	}
	again := universe.CloneAll(merged).Merge()
	if !eq(fieldsOf(again), fieldsOf(merged)) {
		bad = true
		if !quiet {
			report("merge-not-idempotent kind="+kind+" cause="+cause, fmt.Sprintf("Merge(Merge(l)) = %v but Merge(l) = %v", texts(again), texts(merged)), texts(l))
		}
	}
	return bad
}

// parsedMode: lists that come out of the PARSER (the way aa-log -r and aa --format obtain them), merged in place.
// Rules built by the parser may share what struct literals never share (a cached access slice, a common backing array):
// every ordered pair and triple of file rules over two paths and six access strings, and of signal rules over two peers;
// the facts of the parsed list before Merge must equal the facts after it.
func parsedMode() {
	// every line together with the rule it states, built by hand (the expectation must not come out of the parser:
	// what the parser shares between calls may already be damaged by an earlier merge)
	lines := []string{}
	stated := []aa.Rule{}
	for _, p := range []string{"/a", "/b"} {
		for _, a := range []string{"r", "w", "rw", "rwk", "m", "mr"} {
			lines = append(lines, p+" "+a+",")
			stated = append(stated, &aa.File{Path: p, Access: strings.Split(a, "")})
		}
	}
	list := func(s string) []string { return strings.Fields(strings.Trim(s, "()")) }
	for _, peer := range []string{"x", "y"} {
		for _, a := range []string{"send", "receive", "(send receive)"} {
			for _, set := range []string{"term", "(hup int term)", "kill"} {
				lines = append(lines, "signal "+a+" set="+set+" peer="+peer+",")
				stated = append(stated, &aa.Signal{Access: list(a), Set: list(set), Peer: peer})
			}
		}
	}
	// (fourth hunt) spellings the reference parser accepts and reads as stated here: the `file` keyword after `owner`, a
	// repeated `set=`, a peer list without a blank after its comma
	lines = append(lines, "owner file /a r,", "file /a w,", "signal send set=hup set=term peer=x,",
		"dbus send bus=session peer=(name=a.b,label=c),", "dbus send bus=session peer=(name=x.b,label=d),")
	stated = append(stated, &aa.File{Owner: true, Path: "/a", Access: []string{"r"}}, &aa.File{Path: "/a", Access: []string{"w"}},
		&aa.Signal{Access: []string{"send"}, Set: []string{"hup", "term"}, Peer: "x"},
		&aa.Dbus{Access: []string{"send"}, Bus: "session", PeerName: "a.b", PeerLabel: "c"}, &aa.Dbus{Access: []string{"send"}, Bus: "session", PeerName: "x.b", PeerLabel: "d"})
	n := 0
	one := func(seq []int) {
		text := ""
		for _, i := range seq {
			text += "  " + lines[i] + "\n"
		}
		n++
		var l aa.Rules
		perr := ""
		func() {
			defer func() {
				if p := recover(); p != nil {
					perr = fmt.Sprint(p)
				}
			}()
			pr, _, err := aa.ParseRules(text + "\n")
			if err != nil {
				perr = err.Error()
				return
			}
			l = pr.Flatten()
		}()
		in := strings.Split(strings.TrimSpace(text), "\n")
		if perr != "" || len(l) != len(seq) {
			report("parsed-list-not-parsed", "the list does not parse to its rules: "+perr, in)
			return
		}
		ref := aa.Rules{}
		for _, i := range seq {
			ref = append(ref, universe.Clone(stated[i]))
		}
		want := denote(ref)
		if parsed := denote(l); !eq(parsed, want) {
			// name the line that is misread on its own (the first one), so that one spelling does not hide another
			culprit := ""
			for _, i := range seq {
				func() {
					defer func() { _ = recover() }()
					if pr, _, err := aa.ParseRules("  " + lines[i] + "\n\n"); err == nil && culprit == "" {
						if !eq(denote(pr.Flatten()), denote(aa.Rules{universe.Clone(stated[i])})) {
							culprit = lines[i]
						}
					}
				}()
			}
			sig := "parsed-list-misread"
			if culprit != "" {
				sig += " line=" + culprit
			}
			report(sig, fmt.Sprintf("the parser reads the list as %v, it states %v", parsed, want), in)
			return
		}
		var merged aa.Rules
		func() {
			defer func() {
				if p := recover(); p != nil {
					perr = fmt.Sprint(p)
				}
			}()
			merged = l.Merge()
		}()
		if perr != "" {
			report("parsed-merge-panics", "Merge panics on a parsed list: "+perr, in)
			return
		}
		if got := denote(merged); !eq(got, want) {
			report(fmt.Sprintf("parsed-meaning-changed rules=%d", len(seq)), fmt.Sprintf("Merge of the parsed list changes its facts: before %v, after %v; merged to %v", want, got, texts(merged)), in)
		}
	}
	for L := 2; L <= 3; L++ {
		idx := make([]int, L)
		var rec func(k int)
		rec = func(k int) {
			if k == L {
				// only lists of one kind (file rules are the first 12 lines)
				file := idx[0] < 12
				for _, i := range idx {
					if (i < 12) != file {
						return
					}
				}
				one(idx)
				return
			}
			for i := range lines {
				idx[k] = i
				rec(k + 1)
			}
		}
		rec(0)
	}
	vs := []*viol{}
	for _, v := range viols {
		vs = append(vs, v)
	}
	sort.Slice(vs, func(i, j int) bool { return vs[i].Sig < vs[j].Sig })
	json.NewEncoder(os.Stdout).Encode(map[string]any{"kind": "parsed", "n": 0, "lists": n, "violations": vs})
}

func main() {
	kind := flag.String("kind", "file", "")
	tier := flag.Int("tier", 0, "")
	emit := flag.Int("emit", 0, "print up to N pairs that Merge touched, with the model verdict")
	flag.Parse()
	collect = *emit > 0
	if *kind == "parsed" {
		parsedMode()
		return
	}
	U := universe.Of(*kind, *tier)
	if *kind == "mixed" {
		U = universe.Mixed(*tier, 3)
	}
	n := len(U)
	for _, r := range U {
		fieldCache[r] = universe.Fields(r, false)
	}
	lists := 0
	// every ordered pair
	pairBad := map[[2]int]bool{}
	for i := 0; i < n; i++ {
		check(*kind, []aa.Rule{U[i]}, false)
		lists++
		for j := 0; j < n; j++ {
			lists++
			if check(*kind, []aa.Rule{U[i], U[j]}, false) {
				pairBad[[2]int{i, j}] = true
			}
		}
	}
	// every ordered triple (and quadruple in the thorough tier) over a reduced universe with the near-duplicates kept
	m := 40
	if *tier == universe.Thorough {
		m = 60
	}
	RI := []int{}
	for i := 0; i < n; i++ {
		RI = append(RI, i)
	}
	if n > m {
		RI = RI[:0]
		for i := 0; i < m; i++ {
			RI = append(RI, i*n/m)
		}
	}
	R := []aa.Rule{}
	for _, i := range RI {
		R = append(R, U[i])
	}
	for _, ia := range RI {
		for _, ib := range RI {
			for _, ic := range RI {
				lists++
				explained := pairBad[[2]int{ia, ib}] || pairBad[[2]int{ia, ic}] || pairBad[[2]int{ib, ic}]
				check(*kind, []aa.Rule{U[ia], U[ib], U[ic]}, explained)
			}
		}
	}
	// triples (thorough: quadruples) inside every group of rules that agree on all non-mergeable fields: this is
	// where merges happen, so chains such as "merge, then a rejected merge" are all there
	groups := map[string][]int{}
	order := []string{}
	for i, r := range U {
		c := universe.Clone(r)
		v := reflect.ValueOf(c).Elem()
		for _, f := range []string{"Access", "Set", "Names", "Options"} {
			if fv := v.FieldByName(f); fv.IsValid() && fv.CanSet() {
				fv.Set(reflect.Zero(fv.Type()))
			}
		}
		if mc := v.FieldByName("MountConditions"); mc.IsValid() {
			mc.FieldByName("Options").Set(reflect.Zero(mc.FieldByName("Options").Type()))
		}
		k := universe.Fields(c, false)
		if _, ok := groups[k]; !ok {
			order = append(order, k)
		}
		groups[k] = append(groups[k], i)
	}
	maxGroups, maxSize := 40, 8
	if *tier == universe.Thorough {
		maxGroups, maxSize = 200, 10
	}
	ng := 0
	for gi, k := range order {
		g := groups[k]
		if len(g) < 2 {
			continue
		}
		if ng >= maxGroups && gi%7 != 0 {
			continue
		}
		ng++
		if len(g) > maxSize {
			g2 := []int{}
			for i := 0; i < maxSize; i++ {
				g2 = append(g2, g[i*len(g)/maxSize])
			}
			g = g2
		}
		for _, a := range g {
			for _, b := range g {
				for _, c := range g {
					lists++
					explained := pairBad[[2]int{a, b}] || pairBad[[2]int{a, c}] || pairBad[[2]int{b, c}]
					check(*kind, []aa.Rule{U[a], U[b], U[c]}, explained)
					if *tier == universe.Thorough && len(g) <= 8 {
						for _, d := range g {
							lists++
							check(*kind, []aa.Rule{U[a], U[b], U[c], U[d]}, explained || pairBad[[2]int{a, d}] || pairBad[[2]int{b, d}] || pairBad[[2]int{c, d}])
						}
					}
				}
			}
		}
	}
	if *tier == universe.Thorough {
		R4 := R
		if len(R4) > 24 {
			R4 = []aa.Rule{}
			for i := 0; i < 24; i++ {
				R4 = append(R4, R[i*len(R)/24])
			}
		}
		for _, a := range R4 {
			for _, b := range R4 {
				for _, c := range R4 {
					for _, d := range R4 {
						lists++
						check(*kind, []aa.Rule{a, b, c, d}, check(*kind, []aa.Rule{a, b, c}, true) || check(*kind, []aa.Rule{b, c, d}, true) || check(*kind, []aa.Rule{a, c, d}, true) || check(*kind, []aa.Rule{a, b, d}, true))
					}
				}
			}
		}
	}
	vs := []*viol{}
	for _, v := range viols {
		vs = append(vs, v)
	}
	sort.Slice(vs, func(i, j int) bool { return vs[i].Sig < vs[j].Sig })
	sample := []string{}
	if n > 1 {
		sample = texts([]aa.Rule{U[0], U[n/2]})
	}
	tp := touchedPairs
	if len(tp) > *emit {
		tp = []touched{}
		for i := 0; i < *emit; i++ {
			tp = append(tp, touchedPairs[i*len(touchedPairs)/(*emit)])
		}
	}
	json.NewEncoder(os.Stdout).Encode(map[string]any{"kind": *kind, "n": n, "lists": lists, "violations": vs, "sample": sample, "touched": tp, "touched_total": len(touchedPairs)})
}
