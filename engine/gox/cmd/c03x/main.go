// c03x: only/exclude directives keep exactly the rules meant for the build target.
// Runs the real directive.Run on (a) every shipped file that carries an only/exclude directive (other
// directive kinds neutralised in the input), (b) every generated text over a small line alphabet, for the
// distribution of this process (DISTRIBUTION env -> the repo's own getDistribution/getFamily) x ABI x version,
// and compares with a line-based reference model.
package main

import (
	"encoding/json"
	"flag"
	"fmt"
	"os"
	"path/filepath"
	"regexp"
	"sort"
	"strings"

	"github.com/roddhjav/apparmor.d/pkg/paths"
	"github.com/roddhjav/apparmor.d/pkg/prebuild"
	"github.com/roddhjav/apparmor.d/pkg/prebuild/directive"
	"verifx/enum"
)

// documented family table (docs: "apt" = debian, ubuntu, whonix; "pacman" = arch; "zypper" = opensuse)
var family = map[string]string{"debian": "apt", "ubuntu": "apt", "whonix": "apt", "arch": "pacman", "opensuse": "zypper"}

var reDir = regexp.MustCompile(`^(.*?)\s*#aa:(only|exclude)((?: .*)?)$`)

type target struct {
	dist    string
	abi     int
	version float64
}

func holds(filters []string, t target) bool {
	for _, f := range filters {
		if f == fmt.Sprintf("abi%d", t.abi) || f == fmt.Sprintf("apparmor%.1f", t.version) || f == t.dist || (family[t.dist] != "" && f == family[t.dist]) {
			return true
		}
	}
	return false
}

// reference model: expected non-blank lines, in order
func expected(text string, t target) []string {
	out := []string{}
	lines := strings.Split(text, "\n")
	inPara, keepPara := false, false
	for _, l := range lines {
		if strings.TrimSpace(l) == "" {
			inPara = false
			continue
		}
		if m := reDir.FindStringSubmatch(l); m != nil {
			keep := holds(strings.Fields(m[3]), t) == (m[2] == "only")
			if strings.TrimSpace(m[1]) == "" { // paragraph form: guards the lines up to the next blank line
				if inPara { // a directive line inside a guarded paragraph is itself guarded
					keepPara = keepPara && keep
				} else {
					inPara, keepPara = true, keep
				}
				continue
			}
			if keep && (!inPara || keepPara) {
				out = append(out, strings.TrimSpace(m[1]))
			}
			continue
		}
		if inPara && !keepPara {
			continue
		}
		out = append(out, strings.TrimSpace(l))
	}
	return out
}

func nonBlank(text string) []string {
	out := []string{}
	for _, l := range strings.Split(text, "\n") {
		if strings.TrimSpace(l) != "" {
			out = append(out, strings.TrimSpace(l))
		}
	}
	return out
}

type viol struct {
	Sig   string   `json:"sig"`
	What  string   `json:"what"`
	Input []string `json:"input"`
	Count int      `json:"count"`
}

var viols = map[string]*viol{}

func report(sig, what string, input []string) {
	if v, ok := viols[sig]; ok {
		v.Count++
		return
	}
	viols[sig] = &viol{sig, what, input, 1}
}

func run(name, text string, t target) (string, string) {
	prebuild.ABI = t.abi
	prebuild.Version = t.version
	out, perr := "", ""
	func() {
		defer func() {
			if p := recover(); p != nil {
				perr = "panic: " + fmt.Sprint(p)
			}
		}()
		o, err := directive.Run(paths.New(".build/apparmor.d/"+name), text)
		if err != nil {
			perr = err.Error()
		}
		out = o
	}()
	return out, perr
}

func judge(where, name, text string, t target) {
	out, perr := run(name, text, t)
	tag := fmt.Sprintf("%s abi%d v%.1f", t.dist, t.abi, t.version)
	in := append([]string{where + " for " + tag}, strings.Split(text, "\n")...)
	if perr != "" {
		report("directive-fails "+where, "directive.Run fails: "+perr, in)
		return
	}
	if strings.Contains(out, "#aa:only") || strings.Contains(out, "#aa:exclude") {
		report("marker-survives "+where, "an only/exclude marker survives in the output for "+tag, in)
	}
	want, got := expected(text, t), nonBlank(out)
	if len(want) != len(got) {
		report("lines-differ "+where, fmt.Sprintf("for %s the output keeps %d non-blank lines, the reference model %d: got %q want %q", tag, len(got), len(want), got, want), in)
		return
	}
	for i := range want {
		if want[i] != got[i] {
			report("lines-differ "+where, fmt.Sprintf("for %s output line %q where the reference model has %q", tag, got[i], want[i]), in)
			return
		}
	}
}

var neutral = regexp.MustCompile(`#aa:(dbus|exec|stack)`)

func main() {
	repo := flag.String("repo", "/repo", "")
	maxLen := flag.Int("len", 4, "")
	shard := flag.Int("shard", 0, "")
	of := flag.Int("of", 1, "")
	mode := flag.String("mode", "generated", "real | generated")
	flag.Parse()
	dist := prebuild.Distribution
	if prebuild.Family != family[dist] {
		report("family-table dist="+dist, fmt.Sprintf("distribution %s belongs to family %q, the build says %q", dist, family[dist], prebuild.Family), nil)
	}
	targets := []target{}
	for _, abi := range []int{3, 4} {
		for _, v := range []float64{3.0, 4.0, 4.1} {
			targets = append(targets, target{dist, abi, v})
		}
	}
	n := 0
	sample := ""
	if *mode == "real" {
		_ = filepath.Walk(filepath.Join(*repo, "apparmor.d"), func(p string, info os.FileInfo, err error) error {
			if err != nil || info.IsDir() {
				return nil
			}
			b, _ := os.ReadFile(p)
			text := string(b)
			if !strings.Contains(text, "#aa:only") && !strings.Contains(text, "#aa:exclude") {
				return nil
			}
			text = neutral.ReplaceAllString(text, "#ab:$1")
			rel, _ := filepath.Rel(*repo, p)
			for _, t := range targets {
				n++
				judge("file="+rel, filepath.Base(p), text, t)
			}
			return nil
		})
	} else {
		filters := []string{"arch", "apt", "abi3", "debian whonix", "apparmor4.1", "apparmor4.0 apparmor3.0"} // (an unknown filter name is in the crowded wrapper: zzz)
		syms := []string{"R/a r,", "R/b w,", "R/c rw,", ""}
		for _, k := range []string{"only", "exclude"} {
			for _, f := range filters {
				syms = append(syms, "P#aa:"+k+" "+f, "I/d r, #aa:"+k+" "+f)
			}
		}
		wrappers := []struct{ name, head, indent, tail string }{
			{"profile", "abi <abi/4.0>,\n\nprofile gen {\n  include <abstractions/base>\n\n", "  ", "\n  include if exists <local/gen>\n}\n"},
			{"subprofile", "profile gen {\n  /x r,\n\n  profile sub {\n    include <abstractions/base>\n\n", "    ", "\n    include if exists <local/gen_sub>\n  }\n\n  include if exists <local/gen>\n}\n"},
			{"abstraction", "  abi <abi/4.0>,\n\n", "  ", "\n  include if exists <abstractions/gen.d>\n"},
			{"tunable", "# tunables\n\n", "", "\n@{last}=/x\n"},
		}
		// "crowded": the generated lines sit between paragraphs that already hold every inline symbol (so a generated
		// inline line has an identical twin elsewhere in the file) and, for every inline symbol, a line that merely
		// STARTS with it (one more filter): whatever is done to one directive line must not touch its twins' neighbours
		// or the longer lines
		crowdHead, crowdTail := "profile gen {\n  include <abstractions/base>\n\n", ""
		for _, sy := range syms {
			if sy != "" && sy[0] == 'I' {
				crowdHead += "  " + sy[1:] + "\n"
				crowdHead += "  " + sy[1:] + " zzz\n"
				crowdTail += "  " + sy[1:] + " zzz\n"
			}
		}
		wrappers = append(wrappers, struct{ name, head, indent, tail string }{"crowded", crowdHead + "\n", "  ", "\n" + crowdTail + "\n  include if exists <local/gen>\n}\n"})
		for L := 1; L <= *maxLen; L++ {
			enum.Tuples(len(syms), L, *shard, *of, func(seq []int) {
				nd := 0
				for _, s := range seq {
					if syms[s] != "" && (syms[s][0] == 'P' || syms[s][0] == 'I') {
						nd++
					}
				}
				if nd == 0 || nd > 2 {
					return
				}
				// documented form only: a paragraph directive is followed by at least one rule line
				// before the blank line that ends its paragraph
				for i, x := range seq {
					if syms[x] != "" && syms[x][0] == 'P' {
						ok := false
						for j := i + 1; j < len(seq) && syms[seq[j]] != ""; j++ {
							if syms[seq[j]][0] == 'R' || syms[seq[j]][0] == 'I' {
								ok = true
							}
						}
						if !ok {
							return
						}
					}
				}
				for _, w := range wrappers {
					if w.name == "crowded" && len(seq) > 3 {
						continue // 36 directive lines of its own: kept to sequences of <= 3 generated lines
					}
					body := ""
					for _, s := range seq {
						if syms[s] == "" {
							body += "\n"
						} else {
							body += w.indent + syms[s][1:] + "\n"
						}
					}
					text := w.head + body + w.tail
					if sample == "" {
						sample = text
					}
					for _, t := range targets {
						n++
						judge("generated wrapper="+w.name, "gen", text, t)
					}
				}
			})
		}
	}
	vs := []*viol{}
	for _, v := range viols {
		vs = append(vs, v)
	}
	sort.Slice(vs, func(i, j int) bool { return vs[i].Sig < vs[j].Sig })
	json.NewEncoder(os.Stdout).Encode(map[string]any{"dist": dist, "family": prebuild.Family, "mode": *mode, "n": n, "violations": vs, "sample": sample})
}
