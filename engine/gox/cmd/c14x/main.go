// c14x: aa-log's reader on every short log file over a record alphabet (C14) and on every field layout /
// value spelling of single records and pairs (C15), against a list-based reference reader.
// Real code: logs.New / logs.GetJournalctlLogs / AppArmorLogs.String, in-process.
package main

import (
	"encoding/hex"
	"encoding/json"
	"flag"
	"fmt"
	"io"
	"os"
	"sort"
	"strings"
	_ "unsafe"

	"github.com/roddhjav/apparmor.d/pkg/logs"
	"verifx/enum"
)

//go:linkname mapHook runtime.verifMapIterHook
var mapHook func(count int, B uint8, fn string) uintptr

type kv struct {
	k, v string
	bare bool // printed without quotes (numbers)
}

type record struct {
	tag    string
	aa     bool // an ALLOWED/DENIED/AUDIT AppArmor record
	fields []kv // after apparmor=..., in order (pid included)
	raw    string
	user   bool // user-space (dbus-daemon) record: wrapped in msg='...'
	noise  bool
}

func (r record) body(seq int) string {
	if r.raw != "" {
		return r.raw
	}
	parts := []string{}
	for _, f := range r.fields {
		v := f.v
		if f.k == "pid" || f.k == "peer_pid" {
			v = fmt.Sprint(1000 + seq*7)
		}
		if f.bare {
			parts = append(parts, f.k+"="+v)
		} else {
			parts = append(parts, f.k+`="`+v+`"`)
		}
	}
	return strings.Join(parts, " ")
}

// expected event: every field except pids
func (r record) event() map[string]string {
	m := map[string]string{}
	for _, f := range r.fields {
		if f.k == "pid" || f.k == "peer_pid" {
			continue
		}
		m[f.k] = f.v
		if f.bare && (f.k == "profile" || f.k == "name" || f.k == "comm") {
			if b, err := hex.DecodeString(f.v); err == nil && len(f.v) > 0 {
				m[f.k] = string(b) // the kernel's spelling of an untrusted string: bare upper-case hex
			}
		}
	}
	return m
}

func (r record) key() string {
	ks := []string{}
	for k, v := range r.event() {
		ks = append(ks, k+"="+v)
	}
	sort.Strings(ks)
	return strings.Join(ks, "|")
}

func file(state, op, profile, name, mask string, extra ...kv) []kv {
	f := []kv{{"apparmor", state, false}, {"operation", op, false}, {"class", "file", false}, {"profile", profile, false}, {"name", name, false},
		{"pid", "0", true}, {"comm", "cat", false}, {"requested_mask", mask, false}, {"denied_mask", mask, false}, {"fsuid", "1000", true}, {"ouid", "1000", true}}
	return append(f, extra...)
}

func alphabet() []record {
	long := strings.Repeat("z", 70000)
	return []record{
		{tag: "file-denied", aa: true, fields: file("DENIED", "open", "foo", "/srv/data/a", "r")},
		{tag: "file-allowed", aa: true, fields: file("ALLOWED", "mknod", "foobar", "/srv/data/b", "c")},
		{tag: "child-profile", aa: true, fields: file("DENIED", "open", "foo//null-/srv/bin/tool", "/srv/data/n", "r")},
		{tag: "dotted-profile", aa: true, fields: file("DENIED", "open", "foo.bar", "/srv/data/dot", "r")},
		{tag: "dotless-profile", aa: true, fields: file("DENIED", "open", "fooxbar", "/srv/data/nodot", "r")},
		{tag: "hex-profile", aa: true, fields: []kv{{"apparmor", "DENIED", false}, {"operation", "open", false}, {"class", "file", false}, {"profile", strings.ToUpper(hex.EncodeToString([]byte("foo bar"))), true},
			{"name", "/srv/data/hexp", false}, {"pid", "0", true}, {"comm", "cat", false}, {"requested_mask", "r", false}, {"denied_mask", "r", false}, {"fsuid", "1000", true}, {"ouid", "1000", true}}},
		{tag: "near-noise", aa: true, fields: file("DENIED", "open", "foo", "/dev/nullb0", "r")}, // not /dev/null: must be reported
		{tag: "mount-noise-src", aa: true, fields: []kv{{"apparmor", "DENIED", false}, {"operation", "mount", false}, {"class", "mount", false}, {"info", "failed mntpnt match", false}, {"error", "-13", true},
			{"profile", "foo", false}, {"name", "/srv/mnt/", false}, {"pid", "0", true}, {"comm", "mount", false}, {"srcname", "/dev/null", false}, {"flags", "rw, bind", false}}},
		{tag: "file-audit", aa: true, fields: file("AUDIT", "open", "bar", "/srv/data/c", "w")},
		{tag: "dbus", aa: true, user: true, fields: []kv{{"apparmor", "DENIED", false}, {"operation", "dbus_method_call", false}, {"bus", "system", false}, {"path", "/org/a", false},
			{"interface", "org.a", false}, {"member", "Get", false}, {"mask", "send", false}, {"name", "org.b", false}, {"pid", "0", true}, {"label", "foo//&unconfined", false}, {"peer_pid", "0", true}, {"peer_label", "unconfined", false}}},
		{tag: "net", aa: true, fields: []kv{{"apparmor", "DENIED", false}, {"operation", "create", false}, {"class", "net", false}, {"profile", "foo", false}, {"pid", "0", true}, {"comm", "curl", false},
			{"family", "inet", false}, {"sock_type", "stream", false}, {"protocol", "6", true}, {"requested_mask", "create", false}, {"denied_mask", "create", false}}},
		{tag: "cap", aa: true, fields: []kv{{"apparmor", "ALLOWED", false}, {"operation", "capable", false}, {"class", "cap", false}, {"profile", "bar", false}, {"pid", "0", true}, {"comm", "ip", false},
			{"capability", "12", true}, {"capname", "net_admin", false}}},
		{tag: "signal", aa: true, fields: []kv{{"apparmor", "DENIED", false}, {"operation", "signal", false}, {"class", "signal", false}, {"profile", "foobar", false}, {"pid", "0", true}, {"comm", "kill", false},
			{"requested_mask", "send", false}, {"denied_mask", "send", false}, {"signal", "term", true}, {"peer", "bar", false}}},
		{tag: "status", raw: `apparmor="STATUS" operation="profile_load" profile="unconfined" name="foo" pid=77 comm="apparmor_parser"`},
		{tag: "foreign", raw: `arch=c000003e syscall=257 success=yes exit=3 comm="cat" exe="/usr/bin/cat"`},
		{tag: "blank", raw: " "},
		{tag: "garbled", raw: `apparmor="DEN`},
		{tag: "odd-json", raw: `odd`}, // journald only: well-formed JSON that is not a record (MESSAGE as a byte array, a bare string)
		{tag: "bad-mask", aa: true, noise: true, fields: file("DENIED", "open", "foo", "/srv/data/badmask", "r#")}, // shown or not; must not stop -r
		{tag: "long-foreign", raw: `syscall=1 comm="x" data=` + long},
		{tag: "bulk-foreign", raw: "bulk"}, // 90 foreign lines of ~1 KiB: more than one scanner buffer of ordinary lines
		{tag: "long-apparmor", aa: true, fields: file("DENIED", "open", "foo", "/srv/"+long, "r")},
		{tag: "dup-of-file-denied", aa: true, fields: file("DENIED", "open", "foo", "/srv/data/a", "r")},
		{tag: "near-dup-of-file-denied", aa: true, fields: file("DENIED", "open", "foo", "/srv/data/a", "w")},
		{tag: "noise", aa: true, noise: true, fields: file("DENIED", "open", "foo", "/dev/null", "w")},
		{tag: "truncated-apparmor", aa: true, noise: true, raw: `apparmor="DENIED" operation="open" class="file" profile="foo" name="/srv/data/tr`},
		{tag: "extra-keys", aa: true, fields: file("DENIED", "open", "bar", "/srv/data/x", "r", kv{"zeta", "1", true}, kv{"alpha", "two", false}, kv{"mid", "3", true})},
	}
}

const (
	carrierAudit = iota
	carrierSyslog
	carrierJournald
	carrierRepeated // rsyslog's RepeatedMsgReduction: `message repeated N times: [ <the line>]` (c15 part only)
)

func line(r record, seq, carrier int) string {
	if r.tag == "bulk-foreign" {
		l := make([]string, 90)
		for i := range l {
			l[i] = line(record{tag: "foreign", raw: fmt.Sprintf(`arch=c000003e syscall=%d success=yes comm="x" data=%s`, i, strings.Repeat("y", 1000))}, seq, carrier)
		}
		return strings.Join(l, "\n")
	}
	body := r.body(seq)
	ts := fmt.Sprintf("1700000%03d.%03d:%d", seq, seq, 100+seq)
	if r.user {
		body = fmt.Sprintf("pid=%d uid=102 auid=4294967295 ses=4294967295 subj=? msg='%s  exe=\"/usr/bin/dbus-daemon\" sauid=102 hostname=? addr=? terminal=?'", 500+seq, body)
	}
	isAudit := r.aa || strings.HasPrefix(r.raw, "apparmor=")
	switch carrier {
	case carrierAudit:
		if strings.TrimSpace(body) == "" {
			return body
		}
		t := "AVC"
		if r.user {
			t = "USER_AVC"
		} else if !isAudit {
			t = "SYSCALL"
		}
		return "type=" + t + " msg=audit(" + ts + "): " + body
	case carrierSyslog:
		if strings.TrimSpace(body) == "" {
			return body
		}
		return fmt.Sprintf("Oct  1 12:00:%02d host kernel: [  %3d.456789] audit: type=1400 audit(%s): %s", seq%60, seq, ts, body)
	default:
		if r.tag == "garbled" {
			return `{"MESSAGE":"audit: apparmor=\"DEN`
		}
		if r.tag == "odd-json" {
			return `{"_SYSTEMD_UNIT":"apparmor.service","MESSAGE":[27,91,49]}` + "\n" + `"apparmor"`
		}
		// journald records reach the journal from several sources: the field says which, the reader must not care
		m := map[string]string{"MESSAGE": "audit: type=1400 audit(" + ts + "): " + body, "_TRANSPORT": "kernel"}
		if id := []string{"kernel", "", "audit", "audisp-syslog", "dbus-daemon", "rsyslogd"}[seq%6]; id != "" {
			m["SYSLOG_IDENTIFIER"] = id
		}
		b, _ := json.Marshal(m)
		return string(b)
	}
}

type viol struct {
	Sig   string   `json:"sig"`
	What  string   `json:"what"`
	Input []string `json:"input"`
	Count int      `json:"count"`
}

var viols = map[string]*viol{}

func report(sig, what string, input ...string) {
	if v, ok := viols[sig]; ok {
		v.Count++
		return
	}
	for i := range input {
		if len(input[i]) > 400 {
			input[i] = input[i][:400] + "..."
		}
	}
	viols[sig] = &viol{sig, what, input, 1}
}

var tmpFile string

// fields auditd / dbus-daemon add around the AppArmor record proper
var trailer = map[string]bool{"exe": true, "sauid": true, "hostname": true, "addr": true, "terminal": true}

func read(text string, carrier int, filter string) (res logs.AppArmorLogs, perr string) {
	defer func() {
		if p := recover(); p != nil {
			perr = "panic: " + fmt.Sprint(p)
		}
	}()
	var rd io.Reader = strings.NewReader(text)
	if carrier == carrierJournald {
		if err := os.WriteFile(tmpFile, []byte(text), 0o600); err != nil {
			panic(err)
		}
		r, err := logs.GetJournalctlLogs(tmpFile, "", true)
		if err != nil {
			return nil, "error: " + err.Error()
		}
		rd = r
	}
	return logs.New(rd, filter), ""
}

func carrierName(c int) string {
	return []string{"audit", "syslog", "journald", "syslog-message-repeated"}[c]
}

var onlyTags string

func c14(minLen, maxLen, shard, of int) int {
	A := alphabet()
	if onlyTags != "" {
		B := []record{}
		for _, r := range A {
			for _, t := range strings.Split(onlyTags, ",") {
				if r.tag == t {
					B = append(B, r)
				}
			}
		}
		A = B
	}
	n := 0
	filters := []string{"", "foo", "bar", "zzz", "foo//", "foo.bar"}
	for L := minLen; L <= maxLen; L++ {
		enum.Tuples(len(A), L, shard, of, func(seq []int) {
			tags := []string{}
			for _, s := range seq {
				tags = append(tags, A[s].tag)
			}
			for carrier := 0; carrier < 3; carrier++ {
				lines := []string{}
				for i, s := range seq {
					lines = append(lines, line(A[s], i+1, carrier))
				}
				text := strings.Join(lines, "\n") + "\n"
				switch {
				case carrier == carrierAudit && len(seq)%2 == 0:
					text = strings.TrimSuffix(text, "\n") // a log whose last line has no newline
				case carrier == carrierSyslog && len(seq)%2 == 1:
					text = strings.ReplaceAll(text, "\n", "\r\n") // CRLF line ends
				}
				for _, flt := range filters {
					n++
					// reference reader: expected events in input order; records whose reporting the property leaves open
					// (noise paths, a truncated record) are optional slots
					type slot struct {
						ev  map[string]string
						opt bool
					}
					exp := []slot{}
					seen := map[string]bool{}
					for _, s := range seq {
						r := A[s]
						if !r.aa {
							continue
						}
						if r.raw != "" { // truncated record: matches the selection, content undefined
							if flt == "" || strings.HasPrefix("foo", flt) {
								exp = append(exp, slot{nil, true})
							}
							continue
						}
						ev := r.event()
						if flt != "" && !strings.HasPrefix(ev["profile"], flt) && !strings.HasPrefix(ev["label"], flt) {
							continue
						}
						if flt != "" && ev["profile"] == "" && ev["label"] == "" {
							continue
						}
						if seen[r.key()] {
							continue
						}
						seen[r.key()] = true
						exp = append(exp, slot{ev, r.noise})
					}
					got, perr := read(text, carrier, flt)
					where := "carrier=" + carrierName(carrier)
					in := append([]string{"filter=" + flt + " " + where}, tags...)
					hasGarbled, hasLong := false, false
					for _, t := range tags {
						hasGarbled = hasGarbled || t == "garbled" || t == "truncated-apparmor"
						hasLong = hasLong || strings.HasPrefix(t, "long-")
					}
					if perr != "" {
						cause := "other"
						if hasGarbled && carrier == carrierJournald {
							cause = "garbled-json-line"
						} else if hasLong {
							cause = "very-long-line"
						}
						report("reader-fails "+where+" cause="+cause, "the reader stops with "+perr, in...)
						continue
					}
					same := func(g, w map[string]string) bool {
						for k, v := range w {
							if g[k] != v {
								return false
							}
						}
						for k := range g {
							if _, ok := w[k]; !ok && !trailer[k] {
								return false
							}
						}
						return true
					}
					var match func(i, j int) bool
					match = func(i, j int) bool {
						if j == len(exp) {
							return i == len(got)
						}
						if exp[j].opt {
							if match(i, j+1) {
								return true
							}
							return i < len(got) && (exp[j].ev == nil || same(got[i], exp[j].ev)) && match(i+1, j+1)
						}
						return i < len(got) && same(got[i], exp[j].ev) && match(i+1, j+1)
					}
					if !match(0, 0) {
						cause := "other"
						nearNoise, hexProfile := false, false
						for _, t := range tags {
							nearNoise = nearNoise || t == "near-noise" || t == "mount-noise-src"
							hexProfile = hexProfile || t == "hex-profile"
						}
						switch {
						case nearNoise:
							cause = "record-near-a-noise-path"
						case hexProfile && flt != "":
							cause = "hex-encoded-profile-and-filter"
						case hasLong:
							cause = "very-long-line"
						case hasGarbled:
							cause = "after-garbled-or-truncated-record"
						}
						must := 0
						for _, e := range exp {
							if !e.opt {
								must++
							}
						}
						detail := fmt.Sprintf("%d events reported, %d expected (+%d optional)", len(got), must, len(exp)-must)
						if len(got) >= must {
							detail += "; reported events do not match the records, e.g. " + fmt.Sprint(got[len(got)-1])
						}
						report("events-differ "+where+" cause="+cause, detail, in...)
						continue
					}
					// same output on every run: render under every iteration start of the per-event map
					if len(got) > 0 && flt == "" {
						base := ""
						for alt := 0; alt < 8; alt++ {
							a := alt
							mapHook = func(count int, B uint8, fn string) uintptr { return uintptr(a) }
							s := got.String()
							mapHook = nil
							if alt == 0 {
								base = s
							} else if s != base {
								report("output-order-depends-on-map-iteration", "String() of the same events differs between map iteration starts", in...)
								break
							}
						}
					}
				}
			}
		})
	}
	return n
}

// ---------------------------------------------------------------------------------------------- C15

func needsHex(v string) bool {
	for i := 0; i < len(v); i++ {
		if v[i] == '"' || v[i] < 0x21 || v[i] > 0x7e {
			return true
		}
	}
	return false
}

// kernel spelling: untrusted strings (name, comm, profile, srcname, target) are hex-encoded when they
// contain a quote, a blank/control byte or a non-ASCII byte; otherwise quoted
func kernelField(k, v string, bare bool) string {
	if bare {
		return k + "=" + v
	}
	switch k {
	case "name", "comm", "profile", "srcname", "target":
		if needsHex(v) {
			return k + "=" + strings.ToUpper(hex.EncodeToString([]byte(v)))
		}
	}
	return k + `="` + v + `"`
}

func permutations(n int, f func(p []int)) {
	p := make([]int, n)
	for i := range p {
		p[i] = i
	}
	var rec func(k int)
	rec = func(k int) {
		if k == n {
			f(p)
			return
		}
		for i := k; i < n; i++ {
			p[k], p[i] = p[i], p[k]
			rec(k + 1)
			p[k], p[i] = p[i], p[k]
		}
	}
	rec(0)
}

func c15(shard, of int) int {
	n := 0
	names := []string{"/srv/x", "/srv/a b", "/srv/a=b", "/srv/a#b", "/srv/a,b", "/srv/é", `/srv/a"b`, "ABBA", "/srv/name=x", "/srv/a'b",
		"/srv/a\\b", "/srv/a\tb", "/srv/caf\xe9", "/srv/a\u00a0b", "/srv/a\x01b", "/srv/live '99'", "/srv/end ", "/srv/end=", "/srv/end,", `/srv/end\`, `/srv/end\\`, `/srv/a\"b`, "comm=41 /x", "/srv/profile=DEAD x", "/srv/conf/apparmor=", "/srv/spool/pid=4242 old.txt"}
	comms := []string{"cat", "my prog", "ABBA", "a=b", "my\tprog", "'sh'", " sh ", `sh\`, "pid=1 helper"}
	profiles := []string{"foo", "foo bar", "DEAD", "foo//null-/srv/x"}
	optional := [][]kv{
		{{"requested_mask", "r", false}, {"denied_mask", "r", false}},
		{{"fsuid", "1000", true}, {"ouid", "0", true}},
		{{"info", "Failed name lookup - disconnected path", false}, {"error", "-13", true}},
		{{"srcname", "/srv/src dir", false}},
		{{"extra", "lookup of name=DEAD failed", false}},
	}
	carrier := carrierAudit
	check := func(fields []kv, sig string, prefixRecord string) {
		n++
		parts := []string{`apparmor="DENIED"`}
		want := map[string]string{"apparmor": "DENIED"}
		for _, f := range fields {
			parts = append(parts, kernelField(f.k, f.v, f.bare))
			want[f.k] = f.v
		}
		parts = append(parts[:2], append([]string{"pid=4242"}, parts[2:]...)...) // the kernel never ends a record with pid
		wrap := func(body, ts string) string {
			switch carrier {
			case carrierAudit:
				return "type=AVC msg=audit(" + ts + "): " + body
			case carrierSyslog:
				return "Oct  1 12:00:01 host kernel: [  101.456789] audit: type=1400 audit(" + ts + "): " + body
			case carrierRepeated:
				return "Oct  1 12:00:01 host kernel: message repeated 3 times: [ [  101.456789] audit: type=1400 audit(" + ts + "): " + body + "]"
			default:
				b, _ := json.Marshal(map[string]string{"MESSAGE": "audit: type=1400 audit(" + ts + "): " + body, "_TRANSPORT": "kernel"})
				return string(b)
			}
		}
		text := wrap(strings.Join(parts, " "), "1700000001.001:101") + "\n"
		if prefixRecord != "" {
			text = wrap(prefixRecord, "1700000000.000:100") + "\n" + text
		}
		sig += " carrier=" + carrierName(carrier)
		got, perr := read(text, carrier, "")
		if perr != "" {
			report("c15-reader-fails", perr, text)
			return
		}
		// the decoder ranges over a map of patterns: a value that itself spells `key=HEX` must come out the same under
		// every iteration start the runtime can choose (owned map order, in-process hook)
		for _, f := range fields {
			if (f.k == "name" || f.k == "comm" || f.k == "profile") && (strings.Contains(f.v, "comm=") || strings.Contains(f.v, "profile=") || strings.Contains(f.v, "name=")) {
				for alt := 1; alt < 8; alt++ {
					a := alt
					mapHook = func(count int, B uint8, fn string) uintptr { return uintptr(a) }
					g2, _ := read(text, carrier, "")
					mapHook = nil
					if len(g2) != len(got) || (len(got) > 0 && fmt.Sprint(g2[len(g2)-1]) != fmt.Sprint(got[len(got)-1])) {
						report("c15-map-order-dependent key="+f.k, fmt.Sprintf("the reported event differs between map iteration starts 0 and %d: %v vs %v", alt, got, g2), text)
						return
					}
				}
				break
			}
		}
		if len(got) == 0 {
			report("c15-no-event "+sig, "the record is not reported", text)
			return
		}
		g := got[len(got)-1]
		keys := []string{}
		recordCause := ""
		for k, v := range want {
			keys = append(keys, k)
			if strings.Contains(v, `"`) {
				recordCause = "a-value-contains-a-double-quote"
			}
		}
		sort.Strings(keys)
		for _, k := range keys {
			v := want[k]
			if g[k] != v {
				if recordCause != "" {
					report("c15-record-garbled cause="+recordCause, fmt.Sprintf("%s is reported as %q, the record says %q", k, g[k], v), text)
					return
				}
				cause := "other"
				if strings.Contains(v, "name=") || strings.Contains(v, "comm=") || strings.Contains(v, "profile=") {
					cause = "value-contains-key-like-text"
				}
				if strings.Contains(v, "pid=") {
					cause = "value-contains-pid-like-text"
				}
				report("c15-value-differs key="+k+" cause="+cause, fmt.Sprintf("%s is reported as %q, the record says %q", k, g[k], v), text)
				return
			}
		}
		gk := []string{}
		for k := range g {
			gk = append(gk, k)
		}
		sort.Strings(gk)
		for _, k := range gk {
			v := g[k]
			if _, ok := want[k]; !ok {
				report("c15-foreign-key key="+k, fmt.Sprintf("the event carries %s=%q, which the record does not contain", k, v), text)
				return
			}
		}
	}
	for carrier = carrierAudit; carrier <= carrierRepeated; carrier++ {
	for ni, name := range names {
		if (ni*4+carrier)%of != shard {
			continue
		}
		for _, comm := range comms {
			for _, prof := range profiles {
				core := []kv{{"operation", "open", false}, {"profile", prof, false}, {"name", name, false}, {"comm", comm, false}}
				permutations(4, func(p []int) {
					if (name != names[0] || comm != comms[0] || prof != profiles[0]) && !(p[0] == 0 && p[1] == 1 && p[2] == 2 && p[3] == 3) && !(p[0] == 3 && p[1] == 2) {
						return // all 24 orders for the plain values, two orders for the others
					}
					for mask := 0; mask < 32; mask++ {
						f := []kv{}
						for _, i := range p {
							f = append(f, core[i])
						}
						for b := 0; b < 5; b++ {
							if mask&(1<<b) != 0 {
								f = append(f, optional[b]...)
							}
						}
						check(f, "single", "")
					}
				})
				// preceded by a malformed record (odd number of quotes): nothing may bleed into this one
				check(core, "after-malformed", `apparmor="DENIED" operation="open profile="zzz" name="/srv/other" comm="other" pid=1`)
				check(core, "after-malformed", `apparmor="DENIED" operation="open" profile="zzz" name="/srv/oth`)
			}
		}
	}
	}
	carrier = carrierAudit
	// user-space spelling (dbus-daemon): values with blanks are quoted
	for _, member := range []string{"Get", "Get All", "a=b"} {
		if shard != 0 {
			break
		}
		for _, label := range []string{"foo", "foo bar"} {
			f := []kv{{"operation", "dbus_method_call", false}, {"bus", "session", false}, {"path", "/org/a", false}, {"interface", "org.a", false},
				{"member", member, false}, {"mask", "send", false}, {"name", ":2.7", false}, {"label", label, false}, {"peer_label", "unconfined", false}}
			n++
			parts := []string{`apparmor="DENIED"`}
			want := map[string]string{"apparmor": "DENIED"}
			for _, x := range f {
				parts = append(parts, x.k+`="`+x.v+`"`)
				want[x.k] = x.v
			}
			text := "type=USER_AVC msg=audit(1700000001.001:101): pid=1 uid=102 auid=4294967295 ses=4294967295 subj=? msg='" + strings.Join(parts, " ") + "  exe=\"/usr/bin/dbus-daemon\" sauid=102 hostname=? addr=? terminal=?'\n"
			got, perr := read(text, carrierAudit, "")
			if perr != "" || len(got) != 1 {
				report("c15-dbus-record-not-read", perr, text)
				continue
			}
			for k, v := range want {
				if got[0][k] != v {
					report("c15-value-differs key="+k+" cause=user-space-record", fmt.Sprintf("%s is reported as %q, the record says %q", k, got[0][k], v), text)
				}
			}
		}
	}
	return n
}

func main() {
	mode := flag.String("mode", "c14", "c14 | c15 | render")
	maxLen := flag.Int("len", 2, "")
	minLen := flag.Int("minlen", 1, "")
	flag.StringVar(&onlyTags, "only", "", "restrict the record alphabet to these tags")
	shard := flag.Int("shard", 0, "")
	of := flag.Int("of", 1, "")
	path := flag.String("file", "", "render: log file")
	filter := flag.String("filter", "", "")
	carrier := flag.Int("carrier", 0, "")
	emit := flag.String("emit", "", "render: comma separated alphabet tags to write as a log file to stdout")
	flag.Parse()
	tmpFile = fmt.Sprintf("%s/c14x.%d.json", os.TempDir(), os.Getpid())
	defer os.Remove(tmpFile)
	n := 0
	switch *mode {
	case "c14":
		n = c14(*minLen, *maxLen, *shard, *of)
	case "c15":
		n = c15(*shard, *of)
	case "render":
		if *emit != "" {
			A := alphabet()
			for i, t := range strings.Split(*emit, ",") {
				for _, r := range A {
					if r.tag == t {
						fmt.Println(line(r, i+1, *carrier))
					}
				}
			}
			return
		}
		b, _ := os.ReadFile(*path)
		got, perr := read(string(b), *carrier, *filter)
		if perr != "" {
			fmt.Println("ERR", perr)
			return
		}
		fmt.Print(got.String())
		return
	}
	vs := []*viol{}
	for _, v := range viols {
		vs = append(vs, v)
	}
	sort.Slice(vs, func(i, j int) bool { return vs[i].Sig < vs[j].Sig })
	json.NewEncoder(os.Stdout).Encode(map[string]any{"mode": *mode, "n": n, "violations": vs})
	os.Remove(tmpFile)
}
