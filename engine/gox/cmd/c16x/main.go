// c16x: pushes every record of the class/name/mask/uid alphabet (and every pair differing in exactly one
// aspect) through the real pipeline  logs.New -> ParseToProfiles -> Merge/Sort/Format -> String  exactly as
// `aa-log --rules` does, and prints one JSON line per case with the records and the rule text emitted under
// each profile. Coverage is judged by the Python side with the reference parser (E4 membership).
package main

import (
	"encoding/hex"
	"encoding/json"
	"flag"
	"fmt"
	"os"
	"sort"
	"strings"

	"github.com/roddhjav/apparmor.d/pkg/logs"
)

type rec struct {
	Class  string            `json:"class"`
	Fields map[string]string `json:"fields"`
	Line   string            `json:"line"`
}

var seq = 0

func mk(class string, kvs ...string) rec {
	seq++
	f := map[string]string{}
	parts := []string{}
	for i := 0; i+1 < len(kvs); i += 2 {
		k, v := kvs[i], kvs[i+1]
		bare := strings.HasPrefix(k, "=")
		k = strings.TrimPrefix(k, "=")
		f[k] = v
		if bare {
			parts = append(parts, k+"="+v)
		} else if (k == "name" || k == "srcname" || k == "target" || k == "profile") && strings.ContainsAny(v, " \t\"") {
			parts = append(parts, k+"="+strings.ToUpper(hex.EncodeToString([]byte(v)))) // the kernel's spelling of an untrusted string
		} else {
			parts = append(parts, k+`="`+v+`"`)
		}
		if k == "profile" || k == "label" && class == "dbus" {
			parts = append(parts, fmt.Sprintf("pid=%d", 4000+seq))
		}
	}
	line := fmt.Sprintf("type=AVC msg=audit(1700000%03d.001:%d): %s", seq%1000, seq, strings.Join(parts, " "))
	return rec{class, f, line}
}

func fileRec(state, op, name, mask, fsuid, ouid string, extra ...string) rec {
	kv := []string{"apparmor", state, "operation", op, "class", "file", "profile", "prog", "name", name, "comm", "prog",
		"requested_mask", mask, "denied_mask", mask, "=fsuid", fsuid, "=ouid", ouid}
	kv = append(kv, extra...)
	return mk("file", kv...)
}

func names(tier int) []string {
	n := []string{
		"/home/user/.cache/app/x", "/home/user/.config/app/x", "/home/user/.local/share/app/x", "/home/user/.local/state/x", "/home/user/.local/bin/x",
		"/home/user/.local/lib/x", "/home/user/.ssh/id", "/home/user/.gnupg/x", "/home/user/doc.txt", "/home/user/",
		"/usr/lib/app/x.so.1", "/usr/lib64/x", "/usr/libexec/x", "/usr/lib32/x", "/usr/lib/x86_64-linux-gnu/y", "/usr/bin/ls", "/usr/sbin/x", "/usr/bin/bash",
		"/usr/bin/dash", "/usr/etc/x", "/var/run/x", "/run/x", "/run/user/1000/bus", "/run/user/1234/x", "/tmp/user/1000/x", "/proc/1/stat", "/proc/4242/stat",
		"/proc/4242/task/4243/comm", "/proc/sys/kernel/osrelease", "/sys/devices/pci0000:00/0000:00:02.0/boot_vga", "/sys/dev/block/8:16/uevent",
		"/run/udev/data/b8:16", "/sys/kernel/x", "/srv/11111111-2222-3333-4444-555555555555/x", "/srv/" + strings.Repeat("a1", 32), "/srv/123456", "/srv/12345678",
		"/srv/1234567890", "/srv/1234567890123456", "/srv/Foo", "/srv/foo", "/usr/lib/modules/6.1.0-1-amd64/kernel/x.ko", "/srv/:1.42/x", "/opt/1000/x",
		"/srv/x86_64/y", "/etc/app/x.conf", "/var/lib/app/x", "/dev/dri/card0", "/srv/data/plain",
		// characters that are pattern syntax in a rule but plain characters in a file name (the kernel logs them as they are)
		"/srv/report[1].pdf", "/srv/{ec8030f7-c20a-464f-9b0e-13a3a9e97384}/x", `/srv/mnt-my\x2ddisk.mount`, "/srv/a*b", "/srv/a?b", "/srv/{a,b}", "/srv/end,", "/srv/mid,dle", "/srv/x y{1}.conf", "/srv/a [b/c", "/srv/data,v[12]",
		// a system directory name right below a directory that is itself rewritten to a variable; a directory called att
		"/home/user/usr/bin/tool", "/home/user/usr/lib/libx.so.1", "/home/user/run/foo", "/home/user/proc/x", "/home/user/sys/x", "/run/proc/x", "/run/sys/x",
		"/usr/etc/run/x", "/tmp/user/1000/proc/x", "/usr/share/att/logo/x.png", "/home/user/att/notes/x.txt", "/proc/one/x", "/srv/chroot/proc/one/status",
		// directories that only look like the dot directories of the home rewrites
		"/home/user/ccache/a.o", "/home/user/xconfig/a", "/home/user/Xlocal/share/x", "/home/user/xssh/id", "/home/user/-gnupg/x",
		// (fourth hunt) numbers just outside what the variable they are rewritten to matches (@{busname} = :1.@{u16}: up to 69999)
		"/srv/:1.70000/x", "/srv/:1.123456/x", "/srv/:1.69999/x",
	}
	if tier > 0 {
		n = append(n, "/home/a.b/.cache/x", "/home/user/.cachefoo", "/usr/libfoo/x", "/usr/binfoo", "/runfoo/x", "/proc/12/fd/3", "/proc/1234/task/5/stat", "/proc/10/x",
			"/sys/devices/pci0000:00/0000:00:1f.3/sound/card0", "/srv/amd64/x", "/srv/i386-linux-gnu/x", "/usr/lib/i386-linux-gnu/x", "/srv/1000", "/srv/10000", "/srv/user/12/x",
			"/srv/"+strings.Repeat("7", 64), "/srv/"+strings.Repeat("b", 38), "/srv/"+strings.Repeat("9", 32), "/srv/"+strings.Repeat("c", 16), "/var/run/user/1000/x",
			"/tmp/user/1000/", "/home/user/.local/sharefoo", "/srv/:not.active.yet/x", "/srv/:1.x", "/srv/a:1.5b", "/usr/bin/zsh", "/usr/bin/sh", "/usr/lib/modules/x",
			"/home/user/.ssh", "/srv/FOO", "/srv/Foo/bar", "/srv/foo/bar")
	}
	return n
}

type kase struct {
	ID      string            `json:"id"`
	Records []rec             `json:"records"`
	Out     map[string]string `json:"out"`
	Err     string            `json:"err,omitempty"`
}

func process(id string, rs ...rec) kase {
	k := kase{ID: id, Records: rs, Out: map[string]string{}}
	lines := []string{}
	for _, r := range rs {
		lines = append(lines, r.Line)
	}
	func() {
		defer func() {
			if p := recover(); p != nil {
				k.Err = "panic: " + fmt.Sprint(p)
			}
		}()
		aaLogs := logs.New(strings.NewReader(strings.Join(lines, "\n")+"\n"), "")
		profiles := aaLogs.ParseToProfiles()
		names := []string{}
		for n := range profiles {
			names = append(names, n)
		}
		sort.Strings(names)
		for _, n := range names {
			p := profiles[n]
			p.Merge(nil)
			p.Sort()
			p.Format()
			k.Out[n] = p.String()
		}
	}()
	return k
}

func main() {
	tier := flag.Int("tier", 0, "")
	flag.Parse()
	w := json.NewEncoder(os.Stdout)
	masks := []string{"r", "w", "a", "c", "d", "rw", "wc", "k", "m", "wr", "ac", "rac", "wa"}
	uids := [][2]string{{"1000", "1000"}, {"1000", "0"}, {"0", "0"}}
	ops := map[string]string{"r": "open", "w": "open", "a": "open", "c": "mknod", "d": "unlink", "rw": "open", "wc": "open", "k": "file_lock", "m": "file_mmap", "wr": "file_perm", "ac": "open", "rac": "open", "wa": "open"}
	n := 0
	for _, name := range names(*tier) {
		for _, m := range masks {
			for _, u := range uids {
				if *tier == 0 && u[0] == "0" && m != "r" {
					continue
				}
				for _, st := range []string{"DENIED", "AUDIT"} {
					if st == "AUDIT" && (m != "r" || u[1] != "1000") {
						continue
					}
					n++
					w.Encode(process(fmt.Sprintf("file-%d", n), fileRec(st, ops[m], name, m, u[0], u[1])))
				}
			}
		}
		// the policy already granted part of the request: denied_mask is a strict subset of requested_mask
		for _, pm := range [][2]string{{"wr", "w"}, {"rw", "r"}, {"rm", "m"}, {"rwk", "k"}} {
			n++
			r := fileRec("DENIED", "file_perm", name, pm[0], "1000", "1000")
			r.Fields["denied_mask"] = pm[1]
			r.Line = strings.Replace(r.Line, `denied_mask="`+pm[0]+`"`, `denied_mask="`+pm[1]+`"`, 1)
			w.Encode(process(fmt.Sprintf("file-partial-%d", n), r))
		}
		// exec with a target, link with a target
		n++
		w.Encode(process(fmt.Sprintf("exec-%d", n), fileRec("DENIED", "exec", name, "x", "1000", "0", "target", "prog//null-"+name)))
		n++
		w.Encode(process(fmt.Sprintf("link-%d", n), fileRec("DENIED", "link", name, "l", "1000", "1000", "target", "/srv/data/linktarget")))
	}
	// digit and hex runs of EVERY length up to the bound, at the end of a name and inside one: whatever variable the
	// cleaner substitutes must still match the run that was logged
	maxRun := 40
	if *tier > 0 {
		maxRun = 100
	}
	for l := 1; l <= maxRun; l++ {
		asc, hex := "", ""
		for i := 0; i < l; i++ {
			asc += string(rune('1' + (i % 9)))
			hex += string("a1b2c3d4e5f6"[i%12])
		}
		for _, run := range []string{asc, strings.Repeat("7", l), hex} {
			for _, name := range []string{"/srv/runs/" + run, "/srv/runs/x-" + run + ".log"} {
				n++
				w.Encode(process(fmt.Sprintf("file-run-%d", n), fileRec("DENIED", "open", name, "r", "1000", "1000")))
			}
		}
	}
	// pairs that differ in exactly one aspect: nothing may be discarded as a duplicate
	base := fileRec("DENIED", "open", "/srv/Foo", "r", "1000", "1000")
	variants := []rec{
		fileRec("DENIED", "open", "/srv/foo", "r", "1000", "1000"), // path case
		fileRec("DENIED", "open", "/srv/Foo", "w", "1000", "1000"), // mask
		fileRec("DENIED", "open", "/srv/Foo", "a", "1000", "1000"), // mask: append next to read
		fileRec("AUDIT", "open", "/srv/Foo", "r", "1000", "1000"),  // qualifier
		fileRec("DENIED", "open", "/srv/Foo", "r", "1000", "0"),    // owner
		fileRec("DENIED", "open", "/srv/Foo bar", "r", "1000", "1000"),
		fileRec("DENIED", "open", "/srv/Foo!bar", "r", "1000", "1000"),
	}
	for i, v := range variants {
		w.Encode(process(fmt.Sprintf("pair-file-%d-ab", i), base, v))
		w.Encode(process(fmt.Sprintf("pair-file-%d-ba", i), v, base))
	}
	wbase := fileRec("DENIED", "open", "/srv/Foo", "w", "1000", "1000")
	for i, m := range []string{"a", "c", "d", "ac", "k"} {
		v := fileRec("DENIED", "open", "/srv/Foo", m, "1000", "1000")
		w.Encode(process(fmt.Sprintf("pair-write-%d-ab", i), wbase, v))
		w.Encode(process(fmt.Sprintf("pair-write-%d-ba", i), v, wbase))
	}
	// other classes
	others := []rec{
		mk("cap", "apparmor", "DENIED", "operation", "capable", "class", "cap", "profile", "prog", "comm", "prog", "=capability", "12", "capname", "net_admin"),
		mk("cap", "apparmor", "DENIED", "operation", "capable", "class", "cap", "profile", "prog", "comm", "prog", "=capability", "21", "capname", "sys_admin"),
		mk("cap", "apparmor", "AUDIT", "operation", "capable", "class", "cap", "profile", "prog", "comm", "prog", "=capability", "0", "capname", "chown"),
		mk("net", "apparmor", "DENIED", "operation", "create", "class", "net", "profile", "prog", "comm", "prog", "family", "inet", "sock_type", "stream", "=protocol", "6", "requested_mask", "create", "denied_mask", "create"),
		mk("net", "apparmor", "DENIED", "operation", "create", "class", "net", "profile", "prog", "comm", "prog", "family", "inet6", "sock_type", "dgram", "=protocol", "17", "requested_mask", "create", "denied_mask", "create"),
		mk("net", "apparmor", "DENIED", "operation", "create", "class", "net", "profile", "prog", "comm", "prog", "family", "netlink", "sock_type", "raw", "=protocol", "15", "requested_mask", "create", "denied_mask", "create"),
		mk("unix", "apparmor", "DENIED", "operation", "connect", "class", "net", "profile", "prog", "comm", "prog", "family", "unix", "sock_type", "stream", "=protocol", "0", "requested_mask", "send receive connect", "denied_mask", "send receive connect", "addr", "none", "peer_addr", "@/tmp/.X11-unix/X0", "peer", "xorg"),
		mk("unix", "apparmor", "DENIED", "operation", "bind", "class", "unix", "profile", "prog", "comm", "prog", "family", "unix", "sock_type", "dgram", "=protocol", "0", "requested_mask", "bind", "denied_mask", "bind", "addr", "@/tmp/sock"),
		mk("signal", "apparmor", "DENIED", "operation", "signal", "class", "signal", "profile", "prog", "comm", "prog", "requested_mask", "send", "denied_mask", "send", "=signal", "term", "peer", "other"),
		mk("signal", "apparmor", "DENIED", "operation", "signal", "class", "signal", "profile", "prog", "comm", "prog", "requested_mask", "receive", "denied_mask", "receive", "=signal", "kill", "peer", "other"),
		mk("signal", "apparmor", "DENIED", "operation", "signal", "class", "signal", "profile", "prog", "comm", "prog", "requested_mask", "send", "denied_mask", "send", "=signal", "rtmin+3", "peer", "/usr/bin/other"),
		mk("ptrace", "apparmor", "DENIED", "operation", "ptrace", "class", "ptrace", "profile", "prog", "comm", "prog", "requested_mask", "read", "denied_mask", "read", "peer", "other"),
		mk("ptrace", "apparmor", "DENIED", "operation", "ptrace", "class", "ptrace", "profile", "prog", "comm", "prog", "requested_mask", "tracedby", "denied_mask", "tracedby", "peer", "unconfined"),
		mk("dbus", "apparmor", "DENIED", "operation", "dbus_method_call", "bus", "system", "path", "/org/freedesktop/Accounts/User1000", "interface", "org.freedesktop.DBus.Properties", "member", "GetAll", "mask", "send", "name", "org.freedesktop.Accounts", "label", "prog", "peer_label", "accounts-daemon"),
		mk("dbus", "apparmor", "DENIED", "operation", "dbus_signal", "bus", "session", "path", "/org/a", "interface", "org.a", "member", "Changed", "name", ":1.42", "mask", "receive", "label", "prog", "peer_label", "other"),
		mk("dbus", "apparmor", "DENIED", "operation", "dbus_bind", "bus", "session", "name", "org.prog.Service", "mask", "bind", "label", "prog"),
		mk("mount", "apparmor", "DENIED", "operation", "mount", "class", "mount", "info", "failed mntpnt match", "=error", "-13", "profile", "prog", "name", "/srv/mnt/", "comm", "prog", "fstype", "ext4", "srcname", "/dev/sdb1", "flags", "rw, nosuid"),
		mk("mount", "apparmor", "DENIED", "operation", "mount", "class", "mount", "profile", "prog", "name", "/srv/mnt/", "comm", "prog", "srcname", "/srv/src/", "flags", "rw, rbind"),
		mk("remount", "apparmor", "DENIED", "operation", "mount", "class", "mount", "profile", "prog", "name", "/srv/mnt/", "comm", "prog", "flags", "ro, remount"),
		mk("umount", "apparmor", "DENIED", "operation", "umount", "class", "mount", "profile", "prog", "name", "/srv/mnt/", "comm", "prog"),
		mk("pivotroot", "apparmor", "DENIED", "operation", "pivotroot", "class", "mount", "profile", "prog", "name", "/srv/newroot/", "comm", "prog", "srcname", "/srv/newroot/old/"),
		mk("mqueue", "apparmor", "DENIED", "operation", "mkdir", "class", "posix_mqueue", "profile", "prog", "name", "/queue1", "comm", "prog", "requested", "create", "denied", "create"),
		mk("mqueue", "apparmor", "DENIED", "operation", "open", "class", "posix_mqueue", "profile", "prog", "name", "/queue2", "comm", "prog", "requested", "read", "denied", "read"),
		mk("io_uring", "apparmor", "DENIED", "operation", "uring_sqpoll", "class", "io_uring", "profile", "prog", "comm", "prog", "requested", "sqpoll", "denied", "sqpoll"),
		mk("userns", "apparmor", "DENIED", "operation", "userns_create", "class", "namespace", "info", "Userns create restricted - failed to find unprivileged_userns profile", "=error", "-13", "profile", "prog", "comm", "prog", "requested", "userns_create", "denied", "userns_create"),
		mk("rlimit", "apparmor", "DENIED", "operation", "setrlimit", "class", "rlimits", "profile", "prog", "comm", "prog", "rlimit", "nofile", "=value", "1024"),
		mk("change_onexec", "apparmor", "DENIED", "operation", "change_onexec", "class", "file", "info", "label not found", "=error", "-2", "profile", "prog", "name", "other", "comm", "prog", "target", "other"),
		// (regression hunt) a socket reached through a file descriptor: the operation is a file_ one, the record is a network record
		mk("net", "apparmor", "DENIED", "operation", "file_inherit", "class", "net", "profile", "prog", "comm", "prog", "family", "inet", "sock_type", "stream", "=protocol", "6", "requested_mask", "send receive", "denied_mask", "send receive"),
		mk("net", "apparmor", "DENIED", "operation", "file_perm", "class", "net", "profile", "prog", "comm", "prog", "family", "netlink", "sock_type", "raw", "=protocol", "0", "requested_mask", "send", "denied_mask", "send"),
		// (third hunt) the same request made with change_profile(2): no requested_mask, the target is the name
		mk("change_profile", "apparmor", "DENIED", "operation", "change_profile", "class", "file", "info", "label not found", "=error", "-2", "profile", "prog", "name", "other2", "comm", "prog"),
		// the nice limit is logged as the kernel's value (20 - nice): 30 stands for nice -10, 10 for nice 10
		mk("rlimit-nice", "apparmor", "DENIED", "operation", "setrlimit", "class", "rlimits", "profile", "prog", "comm", "prog", "rlimit", "nice", "=value", "30"),
		mk("rlimit-nice", "apparmor", "DENIED", "operation", "setrlimit", "class", "rlimits", "profile", "prog", "comm", "prog", "rlimit", "nice", "=value", "10"),
	}
	// (fourteenth wave) three records, two paths, one mask that leaves the access list with spare capacity (wc, ac, wrc: two
	// letters map to one; three letters) and then another access on the first path: the second path keeps what it asked for
	for _, m3 := range []string{"wc", "ac", "wrc", "rwk", "rac"} {
		for _, late := range []string{"r", "m", "k"} {
			n++
			w.Encode(process(fmt.Sprintf("file-three-records-%s-%s-%d", m3, late, n),
				fileRec("DENIED", "open", "/var/lib/verif/state.db", m3, "1000", "1000"),
				fileRec("DENIED", "open", "/var/lib/verif/journal.db", m3, "1000", "1000"),
				fileRec("DENIED", "open", "/var/lib/verif/state.db", late, "1000", "1000")))
		}
	}
	// (fourth hunt) a file record that names its subject in label= only (stacked / container confinement)
	n++
	w.Encode(process(fmt.Sprintf("file-label-only-%d", n), mk("file", "apparmor", "DENIED", "operation", "open", "class", "file", "label", "prog-lbl", "name", "/srv/data/lbl", "comm", "prog",
		"requested_mask", "r", "denied_mask", "r", "=fsuid", "1000", "=ouid", "1000")))
	// (fourth hunt) a path of the noise list asked for with an access abstractions/base does not grant: not noise
	for _, nr := range [][3]string{{"open", "/dev/urandom", "w"}, {"open", "/dev/random", "w"}, {"rename_dest", "/etc/ld.so.cache", "wc"}, {"open", "/usr/lib/locale/locale-archive", "wc"},
		{"open", "/usr/share/zoneinfo/UTC", "w"}, {"open", "/usr/lib/libfoo.so.1", "w"}, {"open", "/dev/log", "r"}} {
		n++
		w.Encode(process(fmt.Sprintf("file-noise-path-other-access-%d", n), fileRec("DENIED", nr[0], nr[1], nr[2], "0", "0")))
	}
	// (fourth hunt) two requests on one resource: AppArmor keeps the last `set rlimit` of a resource, so the emitted rules
	// must allow the larger request whatever order they are written in
	n++
	w.Encode(process(fmt.Sprintf("rlimit-two-%d", n),
		mk("rlimit-two", "apparmor", "DENIED", "operation", "setrlimit", "class", "rlimits", "profile", "prog", "comm", "prog", "rlimit", "nofile", "=value", "65536"),
		mk("rlimit-two", "apparmor", "DENIED", "operation", "setrlimit", "class", "rlimits", "profile", "prog", "comm", "prog", "rlimit", "nofile", "=value", "8192")))
	// (regression hunt) ... and so is the name of a link whose lookup failed (no target in the record): the name is below the root too
	n++
	w.Encode(process(fmt.Sprintf("link-disconnected-%d", n), fileRec("DENIED", "link", "tmp/foo", "l", "1000", "1000", "info", "Failed name lookup - disconnected path", "=error", "-13")))
	// (third hunt) the name of a disconnected path is logged without its leading slash; with the attach_disconnected flag
	// (which the record makes aa-log set) the kernel matches it against the policy below the root: /apparmor/.null
	n++
	w.Encode(process(fmt.Sprintf("file-disconnected-%d", n), fileRec("DENIED", "open", "apparmor/.null", "rw", "1000", "1000", "info", "Failed name lookup - disconnected path", "=error", "-13")))
	// a link whose target has a blank, a profile whose name has a blank (both hex-encoded by the kernel)
	n++
	w.Encode(process(fmt.Sprintf("link-blank-target-%d", n), fileRec("DENIED", "link", "/srv/data/l1", "l", "1000", "1000", "target", "/srv/data/link target")))
	{
		r := fileRec("DENIED", "open", "/srv/data/p1", "r", "1000", "1000")
		r.Fields["profile"] = "foo bar"
		r.Line = strings.Replace(r.Line, `profile="prog"`, "profile="+strings.ToUpper(hex.EncodeToString([]byte("foo bar"))), 1)
		n++
		w.Encode(process(fmt.Sprintf("file-blank-profile-%d", n), r))
	}
	others = append(others,
		// records that carry a label= next to their profile= (the label of the credentials / of the queue): the rule belongs to the profile
		mk("io_uring", "apparmor", "DENIED", "operation", "uring_override", "class", "io_uring", "profile", "prog", "label", "other-creds", "comm", "prog", "requested", "override_creds", "denied", "override_creds"),
		mk("mqueue", "apparmor", "DENIED", "operation", "open", "class", "posix_mqueue", "profile", "prog", "label", "queue-owner", "name", "/queue3", "comm", "prog", "requested", "read", "denied", "read"),
		mk("mount", "apparmor", "DENIED", "operation", "mount", "class", "mount", "profile", "prog", "name", "/media/USB DISK/", "comm", "prog", "fstype", "vfat", "srcname", "/dev/sdb1", "flags", "rw, nosuid"),
		mk("umount", "apparmor", "DENIED", "operation", "umount", "class", "mount", "profile", "prog", "name", "/media/USB DISK/", "comm", "prog"),
		mk("pivotroot", "apparmor", "DENIED", "operation", "pivotroot", "class", "mount", "profile", "prog", "name", "/srv/new root/", "comm", "prog", "srcname", "/srv/new root/old/"),
	)
	for i, r := range others {
		w.Encode(process(fmt.Sprintf("%s-%d", r.Class, i), r))
	}
	// the same records the way kernels older than 6.2 print them: without the class= field
	for i, r := range others {
		if _, has := r.Fields["class"]; !has || r.Class == "mqueue" || r.Class == "io_uring" || r.Class == "userns" {
			continue // (mediation classes newer than the class= field itself never came without it)
		}
		f := map[string]string{}
		for k, v := range r.Fields {
			if k != "class" {
				f[k] = v
			}
		}
		line := strings.Replace(r.Line, ` class="`+r.Fields["class"]+`"`, "", 1)
		w.Encode(process(fmt.Sprintf("noclass-%s-%d", r.Class, i), rec{r.Class, f, line}))
	}
	for i, op := range []string{"chown", "symlink", "open", "mknod"} {
		r := fileRec("DENIED", op, "/srv/data/nc", "w", "1000", "1000")
		delete(r.Fields, "class")
		r.Line = strings.Replace(r.Line, ` class="file"`, "", 1)
		w.Encode(process(fmt.Sprintf("noclass-file-%d", i), r))
	}
	// pairs of other classes differing in one class-specific field
	opairs := [][2]int{{0, 1}, {3, 4}, {8, 9}, {8, 10}, {11, 12}, {13, 14}, {16, 17}, {21, 22}}
	for i, p := range opairs {
		w.Encode(process(fmt.Sprintf("pair-other-%d", i), others[p[0]], others[p[1]]))
	}
}
