// Package universe builds the finite rule universes U(kind) the library harnesses enumerate:
// the cross product of small per-field domains, one value per shortcut visible in pkg/aa
// (every fileAlphabet prefix, paths without a known prefix, case twins, bytes outside the sort
// alphabet, quoted paths, nested alternations, every access letter and transition, all qualifiers).
// Rules are ordered simplest-first and filtered by the library's own Validate().
package universe

import (
	"fmt"
	"reflect"
	"strconv"
	"strings"

	"github.com/roddhjav/apparmor.d/pkg/aa"
)

const (
	Quick    = 0
	Thorough = 1
)

var Quals = []aa.Qualifier{{}, {Audit: true}, {AccessType: "deny"}, {Audit: true, AccessType: "deny"}}

// KnownPrefixes is the documented sort alphabet of file rules (apparmor.pujol.io guidelines); the
// harness keeps its own copy so that an edit of the repo's table shows up as a behaviour change.
var KnownPrefixes = []string{"@{exec_path}", "@{sh_path}", "@{coreutils_path}", "@{open_path}", "@{bin}", "@{lib}", "/opt",
	"/usr/share", "/etc", "/var", "/boot", "/home", "@{HOME}", "@{user_cache_dirs}", "@{user_config_dirs}", "@{user_share_dirs}",
	"/tmp", "@{tmp}", "/dev/shm", "@{run}", "@{sys}", "@{PROC}", "/dev"}

func HasKnownPrefix(p string) bool {
	for _, k := range KnownPrefixes {
		if strings.HasPrefix(p, k) {
			return true
		}
	}
	return false
}

func pick[T any](tier int, quick []T, more []T) []T {
	if tier == Quick {
		return quick
	}
	return append(append([]T{}, quick...), more...)
}

func FilePaths(tier int) []string {
	return pick(tier,
		[]string{"/a", "@{bin}/c", "/etc/x", "@{HOME}/.d", "/usr/share/x", "@{run}/x", "/aaa", "/zzz", "/Foo", "/foo",
			`"/with space/e"`, "/{f,g{h,i}}/**", `"/a b"`, `"/a!b"`, "@{exec_path}", "/usr/lib/x", "/dev/shm/x", "/dev/dri/card0", `"/with (1)/e"`, "/etc/k=v", `"/a, b/c"`, `/srv/a\[b`, `/srv/\{x\}/y`,
			// a number followed by a letter, by another digit, by a larger number (an order that looks at numbers must stay transitive)
			"/dev/nvme1n1", "/dev/nvme10n1", "/dev/nvme2n1"},
		[]string{"@{sh_path}", "@{coreutils_path}", "@{open_path}", "@{lib}/y", "/opt/a", "/var/x", "/boot/x", "/home/u/x",
			"@{user_cache_dirs}/x", "@{user_config_dirs}/x", "@{user_share_dirs}/x", "/tmp/x", "@{tmp}/x", "/dev/shm/x",
			"@{sys}/x", "@{PROC}/x", "/dev/x", "/", "/l/", "/j/[0-9]*", "@{run}/user/@{uid}/k", "/é", "/a~", "/A", "/usr/share/X"})
}

func FileAccess(tier int) [][]string {
	return pick(tier,
		[][]string{{"r"}, {"w"}, {"r", "w"}, {"m", "r"}, {"r", "ix"}, {"Px"}, {"r", "Px"}, {"r", "PUx"}, {"Pix"}},
		[][]string{{"l"}, {"k"}, {"r", "w", "k"}, {"ix"}, {"m", "r", "ix"}, {"Cx"}, {"PUx"}, {"ux"}, {"r", "pix"}, {"x"}, {"m", "r", "Cix"}, {"cux"}})
}

func hasExec(a []string) bool {
	return strings.HasSuffix(a[len(a)-1], "x")
}

func File(tier int) []aa.Rule {
	var out []aa.Rule
	quals := pick(tier, Quals[:3], []aa.Qualifier{Quals[3], {AccessType: "allow"}})
	comments := pick(tier, []string{""}, []string{" a comment"})
	for _, p := range FilePaths(tier) {
		for _, a := range FileAccess(tier) {
			for _, q := range quals {
				for _, o := range []bool{false, true} {
					for _, t := range []string{"", "@{p_tgt}"} {
						if t != "" && !strings.ContainsAny(a[len(a)-1][:1], "PpCc") {
							continue // only named-profile transitions (with or without fallback) take a target
						}
						if q.AccessType == "deny" && hasExec(a) && a[len(a)-1] != "x" {
							continue // deny rules only take a bare x
						}
						for _, c := range comments {
							out = append(out, &aa.File{Base: aa.Base{Comment: c}, Qualifier: q, Owner: o, Path: p, Access: append([]string{}, a...), Target: t})
						}
					}
				}
			}
		}
	}
	// the bare rule `file,` (every file access; shipped in makepkg), with owner and a qualifier
	out = append(out, &aa.File{}, &aa.File{Owner: true}, &aa.File{Qualifier: aa.Qualifier{Audit: true}})
	return out
}

func Of(kind string, tier int) []aa.Rule {
	var out []aa.Rule
	quals := Quals[:3]
	if tier == Thorough {
		quals = Quals
	}
	add := func(r aa.Rule) { out = append(out, r) }
	switch kind {
	case "file":
		out = File(tier)
	case "link":
		for _, q := range quals {
			for _, o := range []bool{false, true} {
				for _, s := range []bool{false, true} {
					for _, p := range []string{"/a", "/A", "@{HOME}/x"} {
						for _, t := range []string{"/b", "@{run}/y"} {
							add(&aa.Link{Qualifier: q, Owner: o, Subset: s, Path: p, Target: t})
						}
					}
				}
			}
		}
	case "capability":
		names := pick(tier, [][]string{{"sys_admin"}, {"chown"}, {"dac_override", "kill"}, {"chown", "sys_admin"}}, [][]string{{"kill"}, {"net_admin", "net_raw", "setuid"}, {}})
		for _, q := range quals {
			for _, n := range names {
				add(&aa.Capability{Qualifier: q, Names: append([]string{}, n...)})
			}
		}
	case "network":
		for _, q := range quals {
			// (packet is the name of a domain AND of a socket type)
			for _, d := range pick(tier, []string{"", "inet", "netlink", "packet"}, []string{"inet6", "unix"}) {
				for _, t := range pick(tier, []string{"", "stream", "raw", "packet"}, []string{"dgram"}) {
					for _, p := range []string{"", "tcp"} {
						if t != "" && p != "" {
							continue // the template prints only one of type / protocol
						}
						if d == "" && (t != "" || p != "") {
							continue
						}
						add(&aa.Network{Qualifier: q, Domain: d, Type: t, Protocol: p})
					}
				}
			}
		}
	case "mount":
		for _, q := range quals {
			for _, fs := range pick(tier, []string{"", "ext4"}, []string{"tmpfs"}) {
				for _, op := range pick(tier, [][]string{{}, {"ro"}, {"nosuid"}, {"ro", "nosuid"}}, [][]string{{"rw", "bind"}, {"rw"}}) {
					for _, src := range []string{"", "/a", "/dev/sda1"} {
						for _, mp := range []string{"", "/b/", "/mnt/"} {
							add(&aa.Mount{Qualifier: q, MountConditions: aa.MountConditions{FsType: fs, Options: append([]string{}, op...)}, Source: src, MountPoint: mp})
						}
					}
				}
			}
		}
	case "remount":
		for _, q := range quals {
			for _, fs := range []string{"", "ext4"} {
				for _, op := range [][]string{{}, {"ro"}, {"ro", "nosuid"}, {"nosuid"}} {
					for _, mp := range []string{"", "/", "/mnt/"} {
						add(&aa.Remount{Qualifier: q, MountConditions: aa.MountConditions{FsType: fs, Options: append([]string{}, op...)}, MountPoint: mp})
					}
				}
			}
		}
	case "umount":
		for _, q := range quals {
			for _, fs := range []string{"", "ext4"} {
				for _, op := range [][]string{{}, {"ro"}, {"rw"}} {
					for _, mp := range []string{"", "/", "/mnt/"} {
						add(&aa.Umount{Qualifier: q, MountConditions: aa.MountConditions{FsType: fs, Options: append([]string{}, op...)}, MountPoint: mp})
					}
				}
			}
		}
	case "pivot_root":
		for _, q := range quals {
			for _, o := range []string{"", "/old/", "/Old/"} {
				for _, n := range []string{"", "/new/", "/mnt/"} {
					for _, t := range []string{"", "@{p_tgt}", "/t"} {
						add(&aa.PivotRoot{Qualifier: q, OldRoot: o, NewRoot: n, TargetProfile: t})
					}
				}
			}
		}
	case "change_profile":
		for _, q := range quals {
			for _, m := range []string{"", "safe", "unsafe"} {
				for _, e := range []string{"", "/bin/x", "/bin/y"} {
					for _, t := range []string{"", "@{p_tgt}", "/t"} {
						if m != "" && e == "" {
							continue
						}
						add(&aa.ChangeProfile{Qualifier: q, ExecMode: m, Exec: e, ProfileName: t})
					}
				}
			}
		}
	case "signal":
		for _, q := range quals {
			for _, a := range pick(tier, [][]string{{}, {"send"}, {"receive"}, {"send", "receive"}}, [][]string{{"r"}, {"rw"}}) {
				for _, s := range pick(tier, [][]string{{}, {"kill"}, {"term"}, {"kill", "term"}}, [][]string{{"hup"}, {"rtmin+1"}}) {
					for _, p := range []string{"", "@{p_tgt}", "/usr/bin/foo"} {
						add(&aa.Signal{Qualifier: q, Access: append([]string{}, a...), Set: append([]string{}, s...), Peer: p})
					}
				}
			}
		}
	case "ptrace":
		for _, q := range quals {
			for _, a := range [][]string{{}, {"read"}, {"trace"}, {"read", "trace"}, {"readby"}, {"tracedby"}} {
				for _, p := range []string{"", "@{p_tgt}", "/usr/bin/foo", "/usr/bin/Foo"} {
					add(&aa.Ptrace{Qualifier: q, Access: append([]string{}, a...), Peer: p})
				}
			}
		}
	case "unix":
		for _, q := range quals {
			for _, a := range pick(tier, [][]string{{}, {"send", "receive"}, {"bind"}, {"connect"}}, [][]string{{"create"}, {"send"}}) {
				for _, t := range []string{"", "stream", "dgram"} {
					for _, ad := range []string{"", "none", "@/tmp/x"} {
						for _, pl := range []string{"", "@{p_tgt}"} {
							for _, pa := range []string{"", "@/tmp/y"} {
								add(&aa.Unix{Qualifier: q, Access: append([]string{}, a...), Type: t, Address: ad, PeerLabel: pl, PeerAddr: pa})
							}
						}
					}
				}
			}
			if tier == Thorough {
				add(&aa.Unix{Qualifier: q, Type: "stream", Label: "lab"})
				add(&aa.Unix{Qualifier: q, Type: "stream", Attr: "a"})
				add(&aa.Unix{Qualifier: q, Type: "stream", Opt: "o"})
				add(&aa.Unix{Qualifier: q, Type: "stream", Protocol: "0"})
			}
		}
	case "dbus":
		for _, q := range quals {
			for _, a := range pick(tier, [][]string{{}, {"send"}, {"receive"}, {"send", "receive"}}, [][]string{{"r"}, {"eavesdrop"}}) {
				for _, b := range []string{"", "session", "system"} {
					for _, p := range []string{"", "/org/a", "/org/a{,/**}"} {
						for _, i := range []string{"", "org.a"} {
							for _, m := range []string{"", "Foo"} {
								for _, pn := range []string{"", "org.b", `"{@{busname},org.a}"`} {
									for _, pl := range []string{"", "@{p_tgt}"} {
										if tier == Quick && (p == "/org/a{,/**}" || pn == `"{@{busname},org.a}"`) && (i == "" || m == "") {
											continue
										}
										add(&aa.Dbus{Qualifier: q, Access: append([]string{}, a...), Bus: b, Path: p, Interface: i, Member: m, PeerName: pn, PeerLabel: pl})
									}
								}
							}
						}
					}
				}
			}
			for _, b := range []string{"session", "system"} {
				for _, n := range []string{"org.x", "org.y{,.*}"} {
					add(&aa.Dbus{Qualifier: q, Access: []string{"bind"}, Bus: b, Name: n})
				}
			}
			// bind rules with one of the two conditions only, bind next to another access, a name without access
			add(&aa.Dbus{Qualifier: q, Access: []string{"bind"}, Name: "org.x"})
			add(&aa.Dbus{Qualifier: q, Access: []string{"bind"}, Bus: "session"})
			add(&aa.Dbus{Qualifier: q, Access: []string{"bind", "eavesdrop"}, Bus: "session"})
			add(&aa.Dbus{Qualifier: q, Bus: "session", Name: "org.x"})
		}
	case "rlimit":
		for _, k := range []string{"nofile", "nice", "cpu", "as"} {
			for _, op := range []string{"<=", "<"} {
				for _, v := range []string{"1024", "512", "9", "10", "-10", "infinity", "1K", "2M", "010", "-010"} {
					add(&aa.Rlimit{Key: k, Op: op, Value: v})
				}
			}
		}
	case "userns":
		for _, q := range Quals {
			add(&aa.Userns{Qualifier: q, Create: true})
		}
	case "mqueue":
		for _, q := range quals {
			for _, a := range [][]string{{}, {"r"}, {"w"}, {"r", "w"}, {"create"}, {"r", "getattr"}} {
				for _, t := range []string{"", "posix", "sysv"} {
					for _, l := range []string{"", "lab"} {
						for _, n := range []string{"", "/a", "/b", "42", "7"} {
							if t == "posix" && (n == "42" || n == "7") || t == "sysv" && strings.HasPrefix(n, "/") {
								continue
							}
							add(&aa.Mqueue{Qualifier: q, Access: append([]string{}, a...), Type: t, Label: l, Name: n})
						}
					}
				}
			}
		}
	case "io_uring":
		for _, q := range quals {
			for _, a := range [][]string{{}, {"sqpoll"}, {"override_creds"}, {"sqpoll", "override_creds"}} {
				for _, l := range []string{"", "foo", "bar"} {
					add(&aa.IOUring{Qualifier: q, Access: append([]string{}, a...), Label: l})
				}
			}
		}
	case "all":
		add(&aa.All{})
		add(&aa.All{Base: aa.Base{Comment: " c"}})
	case "include":
		for _, m := range []bool{true, false} {
			for _, ie := range []bool{false, true} {
				for _, p := range []string{"abstractions/base", "abstractions/Base", "local/foo", "/etc/x"} {
					if m == strings.HasPrefix(p, "/") {
						continue
					}
					add(&aa.Include{IsMagic: m, IfExists: ie, Path: p})
				}
			}
		}
	}
	valid := out[:0]
	for _, r := range out {
		if r.Validate() == nil {
			valid = append(valid, r)
		}
	}
	return valid
}

var AllKinds = []string{"file", "link", "capability", "network", "mount", "remount", "umount", "pivot_root", "change_profile",
	"signal", "ptrace", "unix", "dbus", "rlimit", "userns", "mqueue", "io_uring", "all", "include"}

// Mixed returns up to per rules of every kind, spread over the kind's universe.
func Mixed(tier, per int) []aa.Rule {
	var out []aa.Rule
	for _, k := range AllKinds {
		u := Of(k, tier)
		if len(u) == 0 {
			continue
		}
		step := len(u) / per
		if step == 0 {
			step = 1
		}
		n := 0
		for i := 0; i < len(u) && n < per; i += step {
			out = append(out, u[i])
			n++
		}
	}
	// comment lines are rules of a paragraph too (ParseRules produces one per `#` line): they take part in the kind order
	out = append(out, &aa.Comment{Base: aa.Base{IsLineRule: true, Comment: " a note"}}, &aa.Comment{Base: aa.Base{IsLineRule: true, Comment: " another note"}})
	return out
}

// MixedWithPreamble: Mixed plus the preamble kinds (abi, alias, variable), which take part in the kind order when a
// preamble is sorted (third hunt). Only for the order: a rule block does not hold them.
func MixedWithPreamble(tier, per int) []aa.Rule {
	out := Mixed(tier, per)
	out = append(out, &aa.Abi{IsMagic: true, Path: "abi/4.0"}, &aa.Alias{Path: "/usr/", RewrittenPath: "/mnt/usr/"},
		&aa.Variable{Name: "name", Values: []string{"foo"}, Define: true}, &aa.Variable{Name: "exec_path", Values: []string{"@{bin}/foo"}, Define: true})
	return out
}

// Clone deep-copies a rule (all fields are exported values, strings and string slices).
func Clone(r aa.Rule) aa.Rule {
	if r == nil {
		return nil
	}
	v := reflect.ValueOf(r).Elem()
	n := reflect.New(v.Type())
	deepCopy(n.Elem(), v)
	return n.Interface().(aa.Rule)
}

func deepCopy(dst, src reflect.Value) {
	switch src.Kind() {
	case reflect.Struct:
		for i := 0; i < src.NumField(); i++ {
			if dst.Field(i).CanSet() {
				deepCopy(dst.Field(i), src.Field(i))
			}
		}
	case reflect.Slice:
		if src.IsNil() {
			return
		}
		s := reflect.MakeSlice(src.Type(), src.Len(), src.Len())
		reflect.Copy(s, src)
		dst.Set(s)
	default:
		dst.Set(src)
	}
}

func CloneAll(rs []aa.Rule) aa.Rules {
	out := make(aa.Rules, len(rs))
	for i, r := range rs {
		out[i] = Clone(r)
	}
	return out
}

// Fields renders the property-listed fields of a rule (kind, qualifiers, owner, paths, access sets,
// conditions, targets; comments optional; paddings never) as a canonical string.
func Fields(r aa.Rule, withComment bool) string {
	if r == nil {
		return "<nil>"
	}
	var sb strings.Builder
	sb.WriteString(string(r.Kind()))
	writeFields(&sb, reflect.ValueOf(r).Elem(), withComment)
	return sb.String()
}

func writeFields(sb *strings.Builder, v reflect.Value, withComment bool) {
	t := v.Type()
	for i := 0; i < v.NumField(); i++ {
		name := t.Field(i).Name
		f := v.Field(i)
		switch name {
		case "Paddings", "IsLineRule":
			continue
		case "Comment", "NoNewPrivs", "FileInherit", "Optional":
			if !withComment {
				continue
			}
		}
		switch f.Kind() {
		case reflect.Struct:
			writeFields(sb, f, withComment)
		case reflect.String:
			s := f.String()
			if name == "AccessType" && s == "allow" {
				s = "" // explicit allow == no access type
			}
			if s != "" {
				sb.WriteString(" " + name + "=" + strconv.Quote(s))
			}
		case reflect.Bool:
			if f.Bool() {
				sb.WriteString(" " + name)
			}
		case reflect.Slice:
			if f.Len() > 0 {
				sb.WriteString(" " + name + "=[")
				for j := 0; j < f.Len(); j++ {
					sb.WriteString(strconv.Quote(f.Index(j).String()) + ",")
				}
				sb.WriteString("]")
			}
		default:
			sb.WriteString(fmt.Sprintf(" %s=%v", name, f.Interface()))
		}
	}
}
