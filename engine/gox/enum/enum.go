// Package enum: small exhaustive enumerators shared by the harnesses.
package enum

// Perms calls f with every sequence of distinct indices < n of length 1..maxLen whose first element
// belongs to the shard (first % of == shard). f must not retain the slice.
func Perms(n, maxLen, shard, of int, f func(seq []int)) {
	used := make([]bool, n)
	seq := make([]int, 0, maxLen)
	var rec func()
	rec = func() {
		if len(seq) > 0 {
			f(seq)
		}
		if len(seq) == maxLen {
			return
		}
		for i := 0; i < n; i++ {
			if used[i] {
				continue
			}
			if len(seq) == 0 && i%of != shard {
				continue
			}
			used[i] = true
			seq = append(seq, i)
			rec()
			seq = seq[:len(seq)-1]
			used[i] = false
		}
	}
	rec()
}

// Tuples calls f with every sequence (repetition allowed) over indices < n of length exactly L,
// first element restricted to the shard.
func Tuples(n, L, shard, of int, f func(seq []int)) {
	seq := make([]int, L)
	var rec func(pos int)
	rec = func(pos int) {
		if pos == L {
			f(seq)
			return
		}
		for i := 0; i < n; i++ {
			if pos == 0 && i%of != shard {
				continue
			}
			seq[pos] = i
			rec(pos + 1)
		}
	}
	rec(0)
}
