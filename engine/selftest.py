"""setup-time warm-up and engine self-tests (not a property verdict)"""
import os, sys, shutil
from . import common as C, overlay

def main():
    out = os.path.join(C.scratch(), 'setup')
    plain, inst = overlay.build_prebuild(out)
    print('setup: built', os.path.basename(plain), 'and', os.path.basename(inst))
    from . import gox as G
    G.build_all()
    from . import dfax
    n = dfax.selftest()
    print('setup: compiled-policy reader agrees with the naive glob matcher on %d (pattern, string) pairs' % n)
    print('setup: ok')

if __name__ == '__main__':
    main()
