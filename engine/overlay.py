"""Build-time instrumentation, injected with `go build -overlay` (nothing is committed to /repo).

 * runtime/map.go of the local toolchain with one inserted call that routes the random start of
   every `range` over a map executed by repo code through a schedule (E3 mapx);
 * cmd/prebuild/main.go of the *current tree* with its single `cli.Prebuild()` call replaced by
   verifMain() (prepare-only mode, sequence mode, default = cli.Prebuild());
 * read-only dumps of package-level state in `directive` and `aa`.
"""
import json, os, re, subprocess
from . import common as C

RUNTIME_HELPER = r'''

// ---- verif: owned map iteration order -------------------------------------------------

//go:linkname verifMapIterHook
var verifMapIterHook func(count int, B uint8, fn string) uintptr

var (
	verifEnvState int32 // 0 unknown, 1 disabled, 2 enabled
	verifTrace    bool
	verifPrefix   string
	verifSite     int32
	verifSchedN   int
	verifSched    [64][2]int32
	verifSeed     uint32
)

// verifEnv reads the schedule once. When a schedule is given the hash keys of the process are
// replaced by constants derived from VERIF_MAPX_SEED, so that bucket placement (and with it the
// iteration order for a given start) is a function of the schedule alone.
func verifEnv() {
	verifEnvState = 1
	sched := gogetenv("VERIF_MAPX")
	verifPrefix = gogetenv("VERIF_MAPX_PREFIX")
	if verifPrefix == "" {
		verifPrefix = "github.com/roddhjav/apparmor.d/"
	}
	if sched != "" {
		verifEnvState = 2
		verifTrace = gogetenv("VERIF_MAPX_TRACE") != ""
		seed, _ := verifAtoi(gogetenv("VERIF_MAPX_SEED"), 0)
		verifSeed = uint32(seed)
		for i := range aeskeysched {
			aeskeysched[i] = byte(uint32(i)*2654435761>>11) ^ byte(verifSeed*40503+uint32(i))
		}
		for i := range hashkey {
			hashkey[i] = uintptr(0x9E3779B97F4A7C15>>(uint(i)*7)) ^ uintptr(verifSeed)*0x1000193 | 1
		}
		// "-" = no deviation; otherwise site:alt,site:alt
		i := 0
		for i < len(sched) && sched[i] != '-' && verifSchedN < len(verifSched) {
			var a, b int32
			a, i = verifAtoi(sched, i)
			i++ // ':'
			b, i = verifAtoi(sched, i)
			i++ // ','
			verifSched[verifSchedN] = [2]int32{a, b}
			verifSchedN++
		}
	}
}

func verifHash0(r uint32) uint32 {
	if verifEnvState == 0 {
		verifEnv()
	}
	if verifEnvState != 2 {
		return r
	}
	return verifSeed*2246822519 + 374761393
}

func verifAtoi(s string, i int) (int32, int) {
	var n int32
	for i < len(s) && s[i] >= '0' && s[i] <= '9' {
		n = n*10 + int32(s[i]-'0')
		i++
	}
	return n, i
}

func verifMapIterChoice(h *hmap, r uintptr, pc uintptr) uintptr {
	if verifEnvState == 0 {
		verifEnv()
	}
	if verifEnvState != 2 && verifMapIterHook == nil {
		return r
	}
	name := funcname(findfunc(pc))
	if len(name) < len(verifPrefix) || name[:len(verifPrefix)] != verifPrefix {
		return r
	}
	if verifMapIterHook != nil {
		return verifMapIterHook(h.count, h.B, name)
	}
	site := verifSite
	verifSite++
	alt := int32(0)
	for k := 0; k < verifSchedN; k++ {
		if verifSched[k][0] == site {
			alt = verifSched[k][1]
		}
	}
	if verifTrace {
		print("MAPX site=", site, " count=", h.count, " B=", h.B, " alt=", alt, " fn=", name, "\n")
	}
	return uintptr(alt)
}
'''

VERIF_MAIN = r'''package main

import (
	"crypto/sha256"
	"fmt"
	"os"
	"strings"

	"github.com/roddhjav/apparmor.d/pkg/aa"
	"github.com/roddhjav/apparmor.d/pkg/prebuild"
	"github.com/roddhjav/apparmor.d/pkg/prebuild/builder"
	"github.com/roddhjav/apparmor.d/pkg/prebuild/cli"
	"github.com/roddhjav/apparmor.d/pkg/prebuild/directive"
)

// verifMain replaces the single cli.Prebuild() call of main(); init() and cli.Configure()
// are the tree's own.
func verifMain() {
	switch {
	case os.Getenv("VERIF_PREPARE_ONLY") != "":
		if err := cli.Prepare(); err != nil {
			fmt.Println("ERR", err)
			os.Exit(1)
		}
	case os.Getenv("VERIF_SEQ") != "":
		// sequence of builder.Run+directive.Run on named files of the current .build/apparmor.d,
		// exactly as cli.Build does per file; VERIF_SEQ_OUT=<dir> keeps the text of step i in <dir>/<i>
		fmt.Printf("TARGET dist=%s family=%s abi=%d version=%.1f\n", prebuild.Distribution, prebuild.Family, prebuild.ABI, prebuild.Version)
		outdir := os.Getenv("VERIF_SEQ_OUT")
		for i, name := range strings.Split(os.Getenv("VERIF_SEQ"), ",") {
			file := prebuild.RootApparmord.Join(name)
			text, err := file.ReadFileAsString()
			if err != nil {
				fmt.Println("ERR", err)
				os.Exit(1)
			}
			out, err := builder.Run(file, text)
			if err == nil {
				out, err = directive.Run(file, out)
			}
			if outdir != "" && err == nil {
				_ = os.WriteFile(fmt.Sprintf("%s/%d", outdir, i), []byte(out), 0o644)
			}
			e := ""
			if err != nil {
				e = strings.ReplaceAll(err.Error(), "\n", " ")
			}
			fmt.Printf("STEP %d %s sha=%x globals=%s|%s err=%s\n", i, name, sha256.Sum256([]byte(out)), directive.VerifGlobals(), aa.VerifGlobals(), e)
		}
	default:
		cli.Prebuild()
	}
}
'''

def _pkg_source(repo, rel):
    out = ''
    d = os.path.join(repo, rel)
    for f in sorted(os.listdir(d)):
        if f.endswith('.go') and not f.endswith('_test.go'):
            out += open(os.path.join(d, f), errors='replace').read() + '\n'
    return out


def globals_dumps(repo):
    """Go sources of the read-only package-state dumps, generated against the CURRENT tree: a package-level variable is
    dumped only if the tree still declares it (a refactoring that renames or removes one must not break every check:
    the dump then says `?`, the state key gets coarser and the state-keyed search of C02 simply stops earlier)."""
    dsrc = _pkg_source(repo, 'pkg/prebuild/directive')
    asrc = _pkg_source(repo, 'pkg/aa')

    def declared(src, name):
        return re.search(r'^(var\s+|\t)%s\b[^\n]*=' % re.escape(name), src, re.M) is not None
    dparts = []
    if declared(dsrc, 'regCleanStakedRules'):
        # %v prints the pattern of an exported *regexp.Regexp field (Stringer); only the length and a digest are kept
        dparts.append('fmt.Sprintf("clean=%d:%x", len(regCleanStakedRules), sha256.Sum256([]byte(fmt.Sprintf("%v", regCleanStakedRules))))[:40]')
    else:
        dparts.append('"clean=?"')
    directive = ('package directive\n\nimport (\n\t"crypto/sha256"\n\t"fmt"\n)\n\nvar _ = sha256.Sum256\n\n'
                 '// VerifGlobals is a read-only dump of the package-level state a directive run can carry over.\n'
                 'func VerifGlobals() string {\n\treturn fmt.Sprint(%s)\n}\n' % ', ",", '.join(dparts))
    aparts = []
    aparts.append('fmt.Sprintf("indent=%d", IndentationLevel)' if declared(asrc, 'IndentationLevel') else '"indent=?"')
    aparts.append('fmt.Sprintf("inHeader=%v", inHeader)' if declared(asrc, 'inHeader') else '"inHeader=?"')
    aa = ('package aa\n\nimport "fmt"\n\n// VerifGlobals is a read-only dump of the package-level state of package aa.\n'
          'func VerifGlobals() string {\n\treturn fmt.Sprint(%s)\n}\n' % ', ",", '.join(aparts))
    return directive, aa


def goroot():
    return C.must(['go', 'env', 'GOROOT'], env=C.go_env()).stdout.decode().strip()


def make(outdir, repo=None, with_runtime=True, with_main=True, extra_replace=None):
    """writes overlay files into outdir; returns path of overlay json"""
    repo = repo or C.REPO
    os.makedirs(outdir, exist_ok=True)
    rep = {}
    if with_runtime:
        src = os.path.join(goroot(), 'src/runtime/map.go')
        text = open(src).read()
        anchor = '\tr := uintptr(rand())\n'
        if text.count(anchor) != 1:
            raise SystemExit('HARNESS ERROR: runtime/map.go anchor not found exactly once')
        text = text.replace(anchor, anchor + '\tif h.count > 1 {\n\t\tr = verifMapIterChoice(h, r, getcallerpc())\n\t}\n')
        text += RUNTIME_HELPER
        if text.count('uint32(rand())') < 3:
            raise SystemExit('HARNESS ERROR: runtime/map.go hash0 sites not found')
        text = text.replace('uint32(rand())', 'verifHash0(uint32(rand()))')
        p = os.path.join(outdir, 'runtime_map.go')
        open(p, 'w').write(text)
        rep[src] = p
        for fast in ('map_fast32.go', 'map_fast64.go', 'map_faststr.go'):
            fsrc = os.path.join(goroot(), 'src/runtime', fast)
            ft = open(fsrc).read().replace('uint32(rand())', 'verifHash0(uint32(rand()))')
            fp = os.path.join(outdir, 'runtime_' + fast)
            open(fp, 'w').write(ft)
            rep[fsrc] = fp
    if with_main:
        mainp = os.path.join(repo, 'cmd/prebuild/main.go')
        text = open(mainp).read()
        if len(re.findall(r'\bcli\.Prebuild\(\)', text)) != 1:
            raise SystemExit('HARNESS ERROR: cmd/prebuild/main.go does not call cli.Prebuild() exactly once')
        text = re.sub(r'\bcli\.Prebuild\(\)', 'verifMain()', text)
        p = os.path.join(outdir, 'main.go'); open(p, 'w').write(text); rep[mainp] = p
        p = os.path.join(outdir, 'verif_main.go'); open(p, 'w').write(VERIF_MAIN)
        rep[os.path.join(repo, 'cmd/prebuild/verif_main.go')] = p
        DIRECTIVE_GLOBALS, AA_GLOBALS = globals_dumps(repo)
        p = os.path.join(outdir, 'directive_globals.go'); open(p, 'w').write(DIRECTIVE_GLOBALS)
        rep[os.path.join(repo, 'pkg/prebuild/directive/verif_globals.go')] = p
        p = os.path.join(outdir, 'aa_globals.go'); open(p, 'w').write(AA_GLOBALS)
        rep[os.path.join(repo, 'pkg/aa/verif_globals.go')] = p
    if extra_replace:
        rep.update(extra_replace)
    j = os.path.join(outdir, 'overlay.json')
    json.dump({'Replace': rep}, open(j, 'w'), indent=1)
    return j


def build_prebuild(outdir, repo=None):
    """returns (plain, instrumented) binaries built from the current tree"""
    repo = repo or C.REPO
    os.makedirs(outdir, exist_ok=True)
    plain = os.path.join(outdir, 'prebuild')
    inst = os.path.join(outdir, 'prebuild-verif')
    ov = make(os.path.join(outdir, 'ov'), repo)
    p1 = subprocess.Popen(['go', 'build', '-o', plain, './cmd/prebuild'], cwd=repo, env=C.go_env(),
                          stdout=subprocess.PIPE, stderr=subprocess.STDOUT)
    p2 = subprocess.Popen(['go', 'build', '-overlay', ov, '-o', inst, './cmd/prebuild'], cwd=repo, env=C.go_env(),
                          stdout=subprocess.PIPE, stderr=subprocess.STDOUT)
    o1 = p1.communicate()[0]; o2 = p2.communicate()[0]
    if p1.returncode or p2.returncode:
        raise SystemExit('HARNESS ERROR: go build of cmd/prebuild failed\n%s\n%s' % (o1.decode(), o2.decode()))
    return plain, inst


def build_tool(outdir, pkg, name, repo=None):
    """builds a repo command twice: plain, and with the owned-map-order runtime (no other change)"""
    repo = repo or C.REPO
    os.makedirs(outdir, exist_ok=True)
    ov = make(os.path.join(outdir, 'ov-' + name), repo, with_runtime=True, with_main=False)
    plain = os.path.join(outdir, name); inst = os.path.join(outdir, name + '-mapx')
    p1 = subprocess.Popen(['go', 'build', '-o', plain, pkg], cwd=repo, env=C.go_env(), stdout=subprocess.PIPE, stderr=subprocess.STDOUT)
    p2 = subprocess.Popen(['go', 'build', '-overlay', ov, '-o', inst, pkg], cwd=repo, env=C.go_env(), stdout=subprocess.PIPE, stderr=subprocess.STDOUT)
    o1 = p1.communicate()[0]; o2 = p2.communicate()[0]
    if p1.returncode or p2.returncode:
        raise SystemExit('HARNESS ERROR: go build of %s failed\n%s\n%s' % (pkg, o1.decode(), o2.decode()))
    return plain, inst
