"""Shared plumbing for every check: scratch dirs, Go builds of the *current* /repo tree, evidence
files, the known-findings matcher and the VIOLATION / KNOWN-FINDING protocol.

Nothing in here decides a property; see engine/props/cXX.py for the explorers and oracles.
"""
import atexit, hashlib, json, os, shutil, subprocess, sys, time

VERIF = os.path.dirname(os.path.dirname(os.path.abspath(__file__)))
REPO = os.environ.get('VERIF_REPO', '/repo')
GOCACHE = os.path.join(VERIF, '.cache', 'go')
PARSER = '/usr/sbin/apparmor_parser'
UPSTREAM = '/etc/apparmor.d'
FEATURES = '/etc/apparmor.d/abi/3.0'
NPROC = int(os.environ.get('VERIF_JOBS', str(os.cpu_count() or 4)))

_scratch = None


def scratch():
    """Per-process scratch root, removed on exit (also on failure)."""
    global _scratch
    if _scratch is None:
        base = os.environ.get('VERIF_SCRATCH')
        if not base:
            # tmpfs when there is one: 16 parallel builds contend badly on the disk-backed file system
            base = '/var/tmp'
            try:
                st = os.statvfs('/dev/shm')
                if os.access('/dev/shm', os.W_OK) and st.f_bavail * st.f_frsize > 4 << 30:
                    base = '/dev/shm'
            except OSError:
                pass
        _scratch = os.path.join(base, 'verif.%d' % os.getpid())
        shutil.rmtree(_scratch, ignore_errors=True)
        os.makedirs(_scratch)
        owner = os.getpid()

        def _clean():
            if os.getpid() == owner:
                subprocess.run(['chmod', '-R', 'u+rwX', _scratch], stderr=subprocess.DEVNULL)
                shutil.rmtree(_scratch, ignore_errors=True)
        atexit.register(_clean)
    return _scratch


def go_env(extra=None):
    env = dict(os.environ)
    env.update(GOFLAGS='-mod=mod', GOPROXY='off', GOSUMDB='off', GOTOOLCHAIN='local',
               GOCACHE=GOCACHE, CGO_ENABLED='0', LC_ALL='C')
    env.pop('GOMAXPROCS', None)
    if extra:
        env.update(extra)
    return env


def run(cmd, **kw):
    kw.setdefault('capture_output', True)
    return subprocess.run(cmd, **kw)


def must(cmd, **kw):
    r = run(cmd, **kw)
    if r.returncode != 0:
        sys.stderr.write('HARNESS ERROR: %s\n%s\n%s\n' % (cmd, r.stdout.decode(errors='replace')[-3000:],
                                                         r.stderr.decode(errors='replace')[-3000:]))
        sys.exit(2)
    return r


def sha(b):
    if isinstance(b, str):
        b = b.encode()
    return hashlib.sha256(b).hexdigest()


def repo_tree_hash():
    """sha256 over the content of everything a build or harness reads from the working tree."""
    h = hashlib.sha256()
    for top in ('apparmor.d', 'dists', 'share', 'systemd', 'debian', 'cmd', 'pkg', 'go.mod'):
        p = os.path.join(REPO, top)
        if os.path.isfile(p):
            h.update(top.encode()); h.update(open(p, 'rb').read()); continue
        for d, dn, fn in os.walk(p):
            dn.sort()
            for f in sorted(fn):
                q = os.path.join(d, f)
                h.update(os.path.relpath(q, REPO).encode())
                if os.path.islink(q):
                    h.update(b'->' + os.readlink(q).encode())
                else:
                    h.update(open(q, 'rb').read())
    return h.hexdigest()


# --------------------------------------------------------------------------------------------
# known findings


class Findings:
    """Collects violations of one property during a run and sorts them into
    (a) listed known findings -> 'KNOWN-FINDING:' line, exit 0
    (b) anything else        -> replay artefact + 'VIOLATION' line, exit 1.
    The file is read-only at run time."""

    def __init__(self, prop):
        self.prop = prop
        self.known = {}       # signature -> what
        self.fixed = []
        path = os.path.join(VERIF, 'KNOWN_FINDINGS')
        if os.path.exists(path):
            for line in open(path):
                line = line.strip()
                if line.startswith('finding:'):
                    j = json.loads(line[len('finding:'):])
                    if j['property'] == prop:
                        self.known[j['signature']] = j.get('what', '')
                elif line.startswith('fixed:'):
                    self.fixed.append(line)
        self.hit = {}         # known signature -> count
        self.viol = {}        # signature -> (what, replay object, count)

    def report(self, signature, what, replay=None):
        if signature in self.known:
            self.hit[signature] = self.hit.get(signature, 0) + 1
            return False
        if signature in self.viol:
            w, r, n = self.viol[signature]
            self.viol[signature] = (w, r, n + 1)
        else:
            self.viol[signature] = (what, replay, 1)
        return True

    def finish(self):
        """print protocol lines, write replay artefacts; returns number of violations"""
        for sig in sorted(self.hit):
            print('KNOWN-FINDING: property=%s %s [%s] (x%d)' % (self.prop, self.known[sig], sig, self.hit[sig]))
        stale = sorted(set(self.known) - set(self.hit))
        for sig in stale:
            print('note: listed finding did not reproduce in this run (tier or bound may not reach it): %s' % sig)
        rdir = os.path.join(VERIF, 'replay', self.prop)
        if os.environ.get('VERIF_NO_EVIDENCE'):
            rdir = os.path.join(scratch(), 'replay', self.prop)
        if self.viol:
            shutil.rmtree(rdir, ignore_errors=True)
            os.makedirs(rdir, exist_ok=True)
        n = 0
        for sig in sorted(self.viol):
            what, replay, cnt = self.viol[sig]
            n += 1
            path = os.path.join(rdir, '%03d.json' % n)
            with open(path, 'w') as f:
                json.dump({'property': self.prop, 'signature': sig, 'what': what, 'count': cnt,
                           'replay': replay}, f, indent=1, default=str)
            if n <= 40:
                print('  %s: %s' % (sig, what))
                print('VIOLATION property=%s replay=%s' % (self.prop, path))
        if n > 40:
            print('  ... %d more violations, all under %s' % (n - 40, rdir))
        return n


# --------------------------------------------------------------------------------------------
# evidence


class Evidence:
    def __init__(self, prop, tier):
        self.prop = prop
        self.tier = tier
        self.t0 = time.time()
        self.seed = int(os.environ.get('VERIF_SEED', '0') or 0)
        self.cov = {'states': 0, 'transitions': 0, 'traces_validated_against_impl': 0, 'samples': [],
                    'exhaustive': True}
        self.assumptions = []

    def add(self, **kw):
        for k, v in kw.items():
            if isinstance(v, (int, float)) and not isinstance(v, bool) and isinstance(self.cov.get(k, 0), (int, float)):
                self.cov[k] = self.cov.get(k, 0) + v
            else:
                self.cov[k] = v

    def sample(self, s, cap=12):
        if len(self.cov['samples']) < cap:
            self.cov['samples'].append(s)

    def assume(self, *a):
        for x in a:
            if x not in self.assumptions:
                self.assumptions.append(x)

    def cap_hit(self, what):
        self.cov['exhaustive'] = False
        self.cov.setdefault('caps_hit', []).append(what)

    def write(self, violations, known=0):
        if os.environ.get('VERIF_NO_EVIDENCE'):
            return          # a replay re-executes the check without touching the committed evidence
        os.makedirs(os.path.join(VERIF, 'evidence'), exist_ok=True)
        cov = dict(self.cov)
        if not cov['samples']:
            cov['samples'] = ['(no case explored)']
        cov['states'] = int(cov['states']); cov['transitions'] = int(cov['transitions'])
        cov['traces_validated_against_impl'] = int(cov['traces_validated_against_impl'])
        cov['known_findings_reproduced'] = known
        ev = {'property_id': self.prop, 'tier': self.tier, 'seed': self.seed, 'level': 'model_checking',
              'coverage': cov, 'assumptions': self.assumptions, 'wall_s': round(time.time() - self.t0, 2),
              'violations': violations, 'repo_tree_sha256': repo_tree_hash()}
        path = os.path.join(VERIF, 'evidence', self.prop + '.json')
        with open(path + '.tmp', 'w') as f:
            json.dump(ev, f, indent=1, default=str)
        os.replace(path + '.tmp', path)


def conclude(ev, fnd):
    """common tail of every check"""
    n = fnd.finish()
    ev.write(n, known=len(fnd.hit))
    cov = ev.cov
    print('%s tier=%s states=%d transitions=%d validated=%d exhaustive=%s violations=%d known=%d wall=%.1fs' % (
        ev.prop, ev.tier, cov['states'], cov['transitions'], cov['traces_validated_against_impl'],
        cov['exhaustive'], n, len(fnd.hit), time.time() - ev.t0))
    return 1 if n else 0


def replay_by_rerun(prop, path):
    """re-executes the check that produced the artefact and says whether the same signature is reported again
    (as a violation or as a listed known finding); exit 1 + VIOLATION line if it is"""
    j = json.load(open(path))
    sig = j['signature']
    print('artefact:', json.dumps(j, indent=1)[:3000])
    again = False
    for tier in ('quick', 'thorough'):
        r = subprocess.run([os.path.join(VERIF, 'check'), prop, '--tier', tier], capture_output=True, text=True,
                           env=dict(os.environ, VERIF_NO_EVIDENCE='1'))
        again = any(sig in l for l in r.stdout.split('\n'))
        if again or tier == 'thorough':
            break
    print('signature %s %s when the check is re-executed (%s tier)' % (sig, 'is reported again' if again else 'is NOT reported', tier))
    if again:
        print('VIOLATION property=%s replay=%s' % (prop, path))
    return 1 if again else 0
